"""Shared builders for the relational checks C11 / C12: every neuron class, synapse class,
connection class, layer kind and trainer of /repo, constructed from a plain configuration dict
(JSON-serialisable, so a failing configuration can be replayed), plus a full state snapshot.

All randomness comes from `torch.Generator`s seeded from the configuration.
"""
from __future__ import annotations

import math

import torch

import inferno
import inferno.neural as snn
import inferno.learn as learn
from inferno.functional import exp_stdp_post_kernel, exp_stdp_pre_kernel

from corr.c03 import build as build_neuron_c03, make_cfg as make_neuron_cfg, KINDS as NEURON_KINDS, ADAPTIVE

SYNAPSES = ["delta", "deltaplus", "singleexp", "doubleexp"]
CONNECTIONS = ["dense", "direct", "lateral", "conv"]
LAYERS = ["serial", "biclique", "recurrent"]
TRAINERS = ["STDP", "TripletSTDP", "MSTDP", "MSTDPET", "KernelSTDP", "DelayAdjustedSTDP", "DelayAdjustedSTDPD",
            "DelayAdjustedMSTDP", "DelayAdjustedMSTDPD", "DelayAdjustedKernelSTDP", "DelayAdjustedKernelSTDPD",
            "LinearHomeostasis"]
NEEDS_DELAY = {"DelayAdjustedSTDP", "DelayAdjustedSTDPD", "DelayAdjustedMSTDP", "DelayAdjustedMSTDPD",
               "DelayAdjustedKernelSTDP", "DelayAdjustedKernelSTDPD"}
DELAY_PARAM = {"DelayAdjustedSTDPD", "DelayAdjustedMSTDPD", "DelayAdjustedKernelSTDPD"}
REWARDED = {"MSTDP", "MSTDPET", "DelayAdjustedMSTDP", "DelayAdjustedMSTDPD"}


def gen(seed: int) -> torch.Generator:
    return torch.Generator().manual_seed(int(seed) % (2**31))


# ---------------------------------------------------------------------------------- neurons
def neuron_cfg(rng, kind):
    c = make_neuron_cfg(rng, kind)
    # an excitable regime for network runs: low threshold gap, short refractory period
    c["refracT"] = rng.choice([0.0, 1.0, 2.0]) * c["dt"]
    return c


def build_neuron(cfg, shape, batch, dt):
    c = dict(cfg)
    if c["dt"] != dt:
        c["refracT"] = c["refracT"] / c["dt"] * dt
        c["dt"] = dt
    return build_neuron_c03(c, tuple(shape), batch)


def adaptation_of(neuron):
    if hasattr(neuron, "threshold_adaptation_"):
        return neuron.threshold_adaptation
    if hasattr(neuron, "current_adaptation_"):
        return neuron.current_adaptation
    return None


# ---------------------------------------------------------------------------------- synapses
def synapse_cfg(rng, kind, inplace=None):
    return {"kind": kind, "charge": rng.choice([256.0, 384.0, 512.0]),
            "tc": rng.choice([4.0, 8.0]), "tc_rise": rng.choice([1.0, 2.0]),
            "interp": rng.choice(["previous", "nearest"]),
            "inplace": bool(rng.random() < 0.5) if inplace is None else bool(inplace)}


def synapse_constructor(c):
    k = c["kind"]
    if k == "delta":
        return snn.DeltaCurrent.partialconstructor(c["charge"], interp_mode=c["interp"], inplace=c["inplace"])
    if k == "deltaplus":
        return snn.DeltaPlusCurrent.partialconstructor(c["charge"], interp_mode=c["interp"], inplace=c["inplace"])
    if k == "singleexp":
        return snn.SingleExponentialCurrent.partialconstructor(c["charge"], c["tc"], spike_interp_mode=c["interp"],
                                                               inplace=c["inplace"])
    if k == "doubleexp":
        return snn.DoubleExponentialCurrent.partialconstructor(c["charge"], c["tc"] * 2, c["tc_rise"],
                                                               spike_interp_mode=c["interp"], inplace=c["inplace"])
    raise AssertionError(k)


def build_synapse(c, shape, dt, delay, batch):
    return synapse_constructor(c)(shape, dt, float(delay), batch)


# ---------------------------------------------------------------------------------- connections
def connection_cfg(rng, kind, synapse, delayed, n_in=None, bias=None, dyadic=False):
    """dyadic=True: weights / biases on a 1/8 grid and a power-of-two spike charge, so that (with delta synapses) every
    sum the connection forms is exact in float64 whatever the order of summation"""
    c = {"kind": kind, "dyadic": bool(dyadic), "synapse": synapse, "delay": (rng.choice([2.0, 3.0, 4.0]) if delayed else None),
         "bias": bool(rng.random() < 0.4) if bias is None else bool(bias), "wseed": rng.randrange(2**31),
         "wscale": rng.choice([0.75, 1.0, 1.5])}
    if kind == "dense":
        c["in"] = n_in or rng.choice([3, 4, 5])
        c["out"] = rng.choice([2, 3, 4])
    elif kind in ("direct", "lateral"):
        c["in"] = c["out"] = n_in or rng.choice([3, 4])
    elif kind == "conv":
        c.update({"h": rng.choice([4, 5]), "w": rng.choice([4, 5]), "ch": rng.choice([1, 2]), "f": rng.choice([1, 2]),
                  "k": rng.choice([2, 3]), "stride": rng.choice([1, 2]), "pad": rng.choice([0, 1])})
    # keep the total drive per output element comparable across fan-ins
    ch = synapse["charge"] / conn_in_scale(c)
    if dyadic:
        ch = 2.0 ** round(math.log2(ch))
    c["synapse"] = dict(synapse, charge=ch)
    return c


def build_connection(c, dt, batch):
    g = gen(c["wseed"])
    syn = synapse_constructor(c["synapse"])
    if c.get("dyadic"):
        kw = dict(synapse=syn, bias=c["bias"], delay=c["delay"], batch_size=batch,
                  weight_init=lambda w: torch.randint(0, 17, w.shape, generator=g).to(w.dtype) / 8 * c["wscale"],
                  bias_init=lambda b: torch.randint(0, 17, b.shape, generator=g).to(b.dtype) / 4)
    else:
        kw = dict(synapse=syn, bias=c["bias"], delay=c["delay"], batch_size=batch,
                  weight_init=lambda w: torch.rand(w.shape, generator=g) * c["wscale"],
                  bias_init=lambda b: torch.rand(b.shape, generator=g) * 4.0)
    if c["delay"] is not None:
        nslots = int(round(c["delay"] / dt))
        # heterogeneous delays on the step grid and off it (interpolated reads)
        kw["delay_init"] = lambda d: (torch.randint(0, 2 * nslots + 1, d.shape, generator=g).to(d.dtype) * (dt / 2)).clamp(max=c["delay"])
    k = c["kind"]
    if k == "dense":
        conn = snn.LinearDense((c["in"],), (c["out"],), dt, **kw)
    elif k == "direct":
        conn = snn.LinearDirect((c["in"],), dt, **kw)
    elif k == "lateral":
        conn = snn.LinearLateral((c["in"],), dt, **kw)
    elif k == "conv":
        conn = snn.Conv2D(c["h"], c["w"], c["ch"], c["f"], dt, c["k"], stride=c["stride"], padding=c["pad"], **kw)
    else:
        raise AssertionError(k)
    return conn


def conn_in_scale(c):
    """expected number of presynaptic inputs per output element (to keep the drive comparable)"""
    if c["kind"] == "dense":
        return c["in"]
    if c["kind"] == "lateral":
        return max(c["in"] - 1, 1)
    if c["kind"] == "conv":
        return c["ch"] * c["k"] * c["k"]
    return 1


# ---------------------------------------------------------------------------------- layers
def layer_cfg(rng, kind, conn_kind=None, syn_kind=None, neuron_kind=None, delayed=None, inplace=None, batch=None, dyadic=False):
    _ccfg = connection_cfg
    def connection_cfg_(*a, **k):
        return _ccfg(*a, dyadic=dyadic, **k)
    if dyadic and syn_kind is None:
        syn_kind = rng.choice(["delta", "deltaplus"])
    dt = rng.choice([0.5, 1.0])
    B = batch if batch is not None else rng.choice([1, 2, 3])
    delayed = (rng.random() < 0.5) if delayed is None else delayed
    def syn():
        return synapse_cfg(rng, syn_kind or rng.choice(SYNAPSES), inplace)
    def neu():
        return neuron_cfg(rng, neuron_kind or rng.choice(NEURON_KINDS))
    c = {"layer": kind, "dt": dt, "batch": B}
    if kind == "serial":
        c["conns"] = [connection_cfg_(rng, conn_kind or rng.choice(CONNECTIONS), syn(), delayed)]
        c["neurons"] = [neu()]
    elif kind == "biclique":
        k = conn_kind or rng.choice(["dense", "direct", "lateral"])
        if k == "conv":
            c0 = connection_cfg_(rng, "conv", syn(), delayed)
            c1 = dict(c0, synapse=syn(), wseed=rng.randrange(2**31))
        elif k == "dense":
            c0 = connection_cfg_(rng, "dense", syn(), delayed)
            c1 = connection_cfg_(rng, "dense", syn(), rng.random() < 0.5)
            c1["out"] = c0["out"]
        else:
            c0 = connection_cfg_(rng, k, syn(), delayed)
            c1 = connection_cfg_(rng, rng.choice(["direct", "lateral"]), syn(), rng.random() < 0.5, n_in=c0["in"])
        c["conns"] = [c0, c1]
        c["neurons"] = [neu(), neu()]
        c["combine"] = rng.choice(["sum", "mean", "max"])
    elif kind == "recurrent":
        ff = connection_cfg_(rng, conn_kind if conn_kind in ("dense", "direct") else "dense", syn(), delayed)
        n = ff["out"]
        lk = rng.choice(["dense", "direct", "lateral"])
        lat = connection_cfg_(rng, lk, syn(), rng.random() < 0.4, n_in=n)
        m = lat["out"] if lk == "dense" else n
        fb = connection_cfg_(rng, "dense", syn(), rng.random() < 0.4, n_in=m)
        fb["out"] = n
        c["conns"] = [ff, lat, fb]
        c["neurons"] = [neu(), neu()]
        c["trainable_feedback"] = bool(rng.random() < 0.5)
    else:
        raise AssertionError(kind)
    c["adapt"] = True
    c["lock"] = bool(rng.random() < 0.7)
    return c


class Net:
    """a layer + how to drive it"""

    def __init__(self, cfg, batch=None):
        self.cfg = cfg
        dt, B = cfg["dt"], (batch if batch is not None else cfg["batch"])
        self.batch = B
        self.conns = [build_connection(c, dt, B) for c in cfg["conns"]]
        for conn in self.conns:
            conn.updater = conn.defaultupdater()
        k = cfg["layer"]
        if k == "serial":
            self.neurons = [build_neuron(cfg["neurons"][0], self.conns[0].outshape, B, dt)]
            self.layer = snn.Serial(self.conns[0], self.neurons[0])
            self.cells = {"serial": self.layer.cell}
        elif k == "biclique":
            shape = self.conns[0].outshape
            self.neurons = [build_neuron(nc, shape, B, dt) for nc in cfg["neurons"]]
            self.layer = snn.Biclique([(f"c{i}", c) for i, c in enumerate(self.conns)],
                                      [(f"n{i}", n) for i, n in enumerate(self.neurons)], combine=cfg["combine"])
            self.cells = {f"c{i}_n{j}": self.layer.get_cell(f"c{i}", f"n{j}")
                          for i in range(len(self.conns)) for j in range(len(self.neurons))}
        elif k == "recurrent":
            ff, lat, fb = self.conns
            self.neurons = [build_neuron(cfg["neurons"][0], ff.outshape, B, dt),
                            build_neuron(cfg["neurons"][1], lat.outshape, B, dt)]
            self.layer = snn.RecurrentSerial(ff, lat, fb, self.neurons[0], self.neurons[1],
                                             trainable_feedback=cfg["trainable_feedback"])
            self.cells = {"feedfwd": self.layer.feedfwd_cell}
            if cfg["trainable_feedback"]:
                self.cells["lateral"] = self.layer.lateral_cell
                self.cells["feedback"] = self.layer.feedback_cell
        else:
            raise AssertionError(k)

    # ---- inputs
    def input_shapes(self):
        k = self.cfg["layer"]
        if k == "biclique":
            return [c.inshape for c in self.conns]
        return [self.conns[0].inshape]

    def gen_inputs(self, g, T, p=0.5):
        """T steps of Bernoulli spike inputs, one tensor per driven connection: [T][n] (B, *inshape)"""
        return [[(torch.rand(self.batch, *sh, generator=g) < p).to(torch.get_default_dtype()) for sh in self.input_shapes()]
                for _ in range(T)]

    def nkw(self, adapt=None):
        a = self.cfg["adapt"] if adapt is None else adapt
        return {"adapt": a, "refrac_lock": self.cfg["lock"]}

    def step(self, xs, adapt=None):
        """one simulation step; returns the list of output spike tensors"""
        k = self.cfg["layer"]
        kinds = [n["kind"] for n in self.cfg["neurons"]]
        def kw(kind):
            d = {"refrac_lock": self.cfg["lock"]}
            if kind in ADAPTIVE:
                d["adapt"] = self.cfg["adapt"] if adapt is None else adapt
            return d
        if k == "serial":
            return [self.layer(xs[0], neuron_kwargs=kw(kinds[0]))]
        if k == "biclique":
            # an entry `None` = the input key is omitted on this step (Layer.forward then does not run that connection)
            out = self.layer({f"c{i}": (x,) for i, x in enumerate(xs) if x is not None},
                             neuron_kwargs={f"n{j}": kw(kinds[j]) for j in range(len(kinds))})
            return [out[f"n{j}"] for j in range(len(kinds))]
        out = self.layer(xs[0], feedfwd_neuron_kwargs=kw(kinds[0]), feedback_neuron_kwargs=kw(kinds[1]))
        return [out[0], out[1]]


# ---------------------------------------------------------------------------------- trainers
def trainer_cfg(rng, kind, inplace=None):
    c = {"kind": kind, "lr_post": rng.choice([0.25, 0.5, 1.0]) * 2.0 ** -4, "lr_pre": -rng.choice([0.25, 0.5, 1.0]) * 2.0 ** -4,
         "tc_post": rng.choice([10.0, 20.0]), "tc_pre": rng.choice([10.0, 20.0]), "tc_elig": rng.choice([5.0, 10.0]),
         "trace": rng.choice(["cumulative", "nearest"]), "delayed": bool(rng.random() < 0.5), "tol": rng.choice([0.0, 1e-6]),
         "inplace": bool(rng.random() < 0.5) if inplace is None else bool(inplace), "reduction": "mean",
         "plasticity": 0.125, "target": 0.25}
    return c


def biphasic_post_kernel(diff, learning_rate, time_constant, **kwargs):
    """a kernel whose SIGN depends on the spike-time difference (potentiating close to coincidence, depressing further out)"""
    near = (diff.abs() <= time_constant / 8).to(dtype=diff.dtype)
    return torch.exp(diff.abs() / (-time_constant)) * (learning_rate * (diff >= 0).to(dtype=diff.dtype)) * (2 * near - 1)


def biphasic_pre_kernel(diff, learning_rate, time_constant, **kwargs):
    near = (diff.abs() <= time_constant / 8).to(dtype=diff.dtype)
    return torch.exp(diff.abs() / (-time_constant)) * (learning_rate * (diff < 0).to(dtype=diff.dtype)) * (2 * near - 1)


def build_trainer(c, net: Net, batch_reduction=None):
    k = c["kind"]
    red = batch_reduction if batch_reduction is not None else {"mean": torch.mean, "sum": torch.sum}[c["reduction"]]
    kpost, kpre = ((biphasic_post_kernel, biphasic_pre_kernel) if c.get("kernel") == "biphasic"
                   else (exp_stdp_post_kernel, exp_stdp_pre_kernel))
    if k == "STDP":
        t = learn.STDP(c["lr_post"], c["lr_pre"], c["tc_post"], c["tc_pre"], delayed=c["delayed"],
                       interp_tolerance=c["tol"], trace_mode=c["trace"], batch_reduction=red)
    elif k == "TripletSTDP":
        t = learn.TripletSTDP(c["lr_post"], c["lr_post"] / 2, c["lr_pre"], c["lr_pre"] / 2, c["tc_post"], c["tc_post"] * 4,
                              c["tc_pre"], c["tc_pre"] * 4, delayed=c["delayed"], interp_tolerance=c["tol"],
                              trace_mode=c["trace"], batch_reduction=red, inplace=c["inplace"])
    elif k == "MSTDP":
        t = learn.MSTDP(c["lr_post"], c["lr_pre"], c["tc_post"], c["tc_pre"], delayed=c["delayed"],
                        interp_tolerance=c["tol"], trace_mode=c["trace"], batch_reduction=red)
    elif k == "MSTDPET":
        t = learn.MSTDPET(c["lr_post"], c["lr_pre"], c["tc_post"], c["tc_pre"], c["tc_elig"],
                          interp_tolerance=c["tol"], trace_mode=c["trace"], batch_reduction=red)
    elif k == "KernelSTDP":
        t = learn.KernelSTDP(kpost, kpre,
                             {"learning_rate": c["lr_post"], "time_constant": c["tc_post"]},
                             {"learning_rate": c["lr_pre"], "time_constant": c["tc_pre"]},
                             delayed=c["delayed"], interp_tolerance=c["tol"], batch_reduction=red, inplace=c["inplace"])
    elif k in ("DelayAdjustedSTDP", "DelayAdjustedMSTDP"):
        t = getattr(learn, k)(lr_pos=c["lr_post"], lr_neg=c["lr_pre"], tc_pos=c["tc_post"], tc_neg=c["tc_pre"],
                              interp_tolerance=c["tol"], batch_reduction=red, inplace=c["inplace"])
    elif k in ("DelayAdjustedSTDPD", "DelayAdjustedMSTDPD"):
        t = getattr(learn, k)(lr_neg=c["lr_pre"], lr_pos=c["lr_post"], tc_neg=c["tc_pre"], tc_pos=c["tc_post"],
                              interp_tolerance=c["tol"], batch_reduction=red, inplace=c["inplace"])
    elif k in ("DelayAdjustedKernelSTDP", "DelayAdjustedKernelSTDPD"):
        t = getattr(learn, k)(kpost, kpre,
                              {"learning_rate": c["lr_post"], "time_constant": c["tc_post"]},
                              {"learning_rate": c["lr_pre"], "time_constant": c["tc_pre"]},
                              batch_reduction=red, inplace=c["inplace"])
    elif k == "LinearHomeostasis":
        t = learn.LinearHomeostasis(c["plasticity"], c["target"], "weight", batch_reduction=red)
    else:
        raise AssertionError(k)
    for name, cell in net.cells.items():
        if k in NEEDS_DELAY and cell.connection.delayedby is None:
            continue
        t.register_cell(name, cell)
    t.train()
    return t


def trainer_applicable(tk, net_cfg):
    if tk in NEEDS_DELAY:
        return net_cfg["conns"][0]["delay"] is not None
    return True


def trainer_step(c, trainer, reward=None):
    if c["kind"] in REWARDED:
        trainer(reward)
    else:
        trainer()


# ---------------------------------------------------------------------------------- snapshots
def snapshot(objs: dict) -> dict:
    """every state variable of the given modules: buffers (persistent or not), parameters (incl. pending
    accumulator parts), extras (pointers, flags, counters), and derived reads (currents, spikes, reducer heads)"""
    out = {}
    for oname, obj in objs.items():
        if obj is None:
            continue
        for n, b in obj.named_buffers():
            out[f"{oname}.buf.{n}"] = None if b is None else b.detach().clone()
        for n, m in obj.named_modules():
            for bn, b in m._buffers.items():
                if b is None:
                    out[f"{oname}.buf.{n + '.' if n else ''}{bn}"] = None
        for n, p in obj.named_parameters():
            out[f"{oname}.par.{n}"] = p.detach().clone()
        for n, m in obj.named_modules():
            if isinstance(m, inferno.Module):
                for k, v in m._extras.items():
                    out[f"{oname}.extra.{n}.{k}"] = v
            if isinstance(m, snn.Synapse):
                out[f"{oname}.read.{n}.current"] = m.current.detach().clone()
                out[f"{oname}.read.{n}.spike"] = m.spike.detach().clone()
            if isinstance(m, snn.Neuron):
                out[f"{oname}.read.{n}.spike"] = m.spike.detach().clone()
                out[f"{oname}.read.{n}.voltage"] = m.voltage.detach().clone()
                out[f"{oname}.read.{n}.refrac"] = m.refrac.detach().clone()
            if isinstance(m, snn.Connection) and m.delayedby:
                out[f"{oname}.read.{n}.syncurrent"] = m.syncurrent.detach().clone()
            if isinstance(m, inferno.observe.Reducer):
                pk = m.peek()
                out[f"{oname}.read.{n}.peek"] = None if pk is None else pk.detach().clone()
    return out


def first_diff(a: dict, b: dict):
    """first entry on which two snapshots / output dicts differ: (name, what) or None"""
    for k in sorted(set(a) | set(b)):
        if k not in a or k not in b:
            return (k, "present in one run only")
        x, y = a[k], b[k]
        if isinstance(x, torch.Tensor) or isinstance(y, torch.Tensor):
            if not (isinstance(x, torch.Tensor) and isinstance(y, torch.Tensor)):
                return (k, f"{type(x).__name__} vs {type(y).__name__}")
            if x.shape != y.shape or x.dtype != y.dtype:
                return (k, f"shape/dtype {tuple(x.shape)}/{x.dtype} vs {tuple(y.shape)}/{y.dtype}")
            if not torch.equal(x, y):
                # NaN-aware: identical NaN patterns count as equal
                if not (torch.equal(torch.isnan(x), torch.isnan(y)) and torch.equal(torch.nan_to_num(x), torch.nan_to_num(y))):
                    idx = (x != y).nonzero()[0].tolist()
                    return (k, f"values differ at {idx}: {x[tuple(idx)].item()} vs {y[tuple(idx)].item()}")
        elif x != y:
            return (k, f"{x!r} vs {y!r}")
    return None
