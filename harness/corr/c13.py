"""C13 — resizing a record keeps the newest observations and the size formula; constraint
bookkeeping of ShapedTensor.

Real side: `RecordTensor` / `ShapedTensor` on a fresh `inferno.Module`, the three private helper
functions; protocol lines are those of `lean/drivers/C13.lean`.  Observation values are small
integers held in float32 storage (exact).  Time values: `Q` mode = exact rationals whose float
quotient is exact or far from an integer (dyadic dt/duration and dt = 3/4, 3/2, 3), `F` mode =
arbitrary doubles passed as bit patterns (the driver then uses the same IEEE division).
"""
from __future__ import annotations

import collections
import itertools
import math
import struct
from fractions import Fraction

import torch
import torch.nn as nn

import inferno
from inferno.core.infrastructure import (RecordTensor, ShapedTensor, _constraint_dimensionality,
                                         _constraints_compatible, _constraints_consistent)

from runner import Exploration
import seqcheck

SPEC = {
    "prop": "C13",
    "lean_targets": ["InfernoVerif.Props.C13", "InfernoVerif.Props.C13Glue", "InfernoVerif.Props.C13GlueProg", "InfernoVerif.Props.C13Run", "InfernoVerif.Gen.Dispatch"],
    "translate": ["Infra", "RingProg", "RecordProg"],
    "driver_targets": ["InfernoVerif.Model.Record", "InfernoVerif.Drv.Proto", "InfernoVerif.Gen.Dispatch"],
    "prop_files": ["InfernoVerif/Props/C13.lean", "InfernoVerif/Props/C13Glue.lean", "InfernoVerif/Props/C13GlueProg.lean", "InfernoVerif/Props/C13Run.lean"],
    "lemma_files": ["InfernoVerif/Lemmas/Ring.lean", "InfernoVerif/Lemmas/Record.lean"],
    "model_files": ["InfernoVerif/Model/Ring.lean", "InfernoVerif/Model/RingOps.lean",
                    "InfernoVerif/Model/Shaped.lean", "InfernoVerif/Model/Record.lean"],
    "driver": "drivers/C13.lean",
    "assumptions": [
        "partial (float): theorems `size_formula*` speak about exact rational dt/duration; the code divides doubles. "
        "The `F` stream runs the driver with the same IEEE division (bit patterns cross the pipe) and the evidence "
        "counts inputs whose float size differs from the exact-decimal size (e.g. 0.9/0.3 -> 4 slots, exact 3)",
        "`live=False` (assignment is not constraint-checked); device CPU; float32 storage holding small integers",
        "value assignment in the record stream is limited to ignored values (None, torch.empty(0), UninitializedBuffer); "
        "arbitrary tensors (which can invalidate a ShapedTensor) are exercised in the shaped stream",
        "a non-strict user constraint on a negative dim that aliases the record dimension makes a temporal setter raise "
        "RuntimeError *after* dt/duration was stored (modelled as such: error branch with that side effect); "
        "`size_formula_inv` is stated for setters that return without error",
        "owner module alive (ShapedTensor.valid's weakref test is not modelled)",
        "uninitialised *parameters* (nn.UninitializedParameter) are not generated: assigning `.data` to one does not "
        "materialise it, so a tensor assigned through ShapedTensor.value is silently lost (torch behaviour, outside C13)",
    ],
}
DRIVER = "drivers/C13.lean"
ERRS = {"RuntimeError", "ValueError", "TypeError", "AttributeError", "IndexError", "KeyError"}
STATS = collections.Counter()


def shp(tok):
    return () if tok == "s" else tuple(int(x) for x in tok.split("x"))


def shp_s(shape):
    return "s" if len(shape) == 0 else "x".join(str(int(x)) for x in shape)


def ints(tok):
    return [] if tok in ("", "-") else [int(x) for x in tok.split(",")]


def b(x):
    return "T" if x else "F"


def cons_of(tok):
    if tok == "-":
        return {}
    return {int(p.split(":")[0]): int(p.split(":")[1]) for p in tok.split(",")}


def cons_s(d):
    return "-" if not d else ",".join(f"{k}:{v}" for k, v in d.items())


def row_s(t):
    v = t.detach().to(torch.float64).reshape(-1).tolist()
    assert all(float(x).is_integer() for x in v), v
    return ",".join(str(int(x)) for x in v)


def f2hex(x: float) -> str:
    return struct.pack(">d", float(x)).hex()


def hex2f(h: str) -> float:
    return struct.unpack(">d", bytes.fromhex(h))[0]


def q_s(x: float) -> str:
    fr = Fraction(float(x))
    return f"{fr.numerator}/{fr.denominator}"


def prod(shape):
    p = 1
    for s in shape:
        p *= s
    return p


class Real:
    """executes one case on the real objects"""

    def __init__(self):
        self.owner = None
        self.rt = None
        self.st = None
        self.mode = "Q"

    def exec(self, line):
        tok = line.split()
        try:
            return self._exec(tok)
        except Exception as e:
            name = type(e).__name__
            return "err " + (name if name in ERRS else "Other")

    # -- time tokens
    def _t(self, tok):
        if self.mode == "Q":
            a, d = tok.split("/")
            return int(a) / int(d)
        return hex2f(tok)

    def _ts(self, x):
        return q_s(x) if self.mode == "Q" else f2hex(x)

    def _exec(self, tok):
        op = tok[0]
        if op == "begin":
            return self._begin(tok[1:])
        if op == "sbegin":
            return self._sbegin(tok[1:])
        if op == "hdim":
            return str(_constraint_dimensionality(cons_of(tok[1]), tok[2] == "T"))
        if op == "hcompat":
            return b(_constraints_compatible(torch.zeros(shp(tok[1])), cons_of(tok[2]), tok[3] == "T"))
        if op == "hconsist":
            return b(_constraints_consistent(cons_of(tok[1]), int(tok[2])))
        rt, st = self.rt, self.st
        if (op.startswith("s") and st is None) or (not op.startswith("s") and rt is None):
            return "dead"                   # construction failed: nothing to operate on
        if op == "dump":
            return self._dump()
        if op == "sdump":
            return self._sdump()
        if op in ("dt", "dur", "incl"):
            before = rt.recordsz
            if op == "dt":
                rt.dt = self._t(tok[1])
            elif op == "dur":
                rt.duration = self._t(tok[1])
            else:
                rt.inclusive = tok[1] == "T"
            after = rt.recordsz
            STATS["resize:" + ("noop" if after == before else "shrink" if after < before else "grow")
                  + (":ignored" if rt.ignored else ":initialised")] += 1
            return "ok"
        if op == "recon":
            rt.reconstrain(int(tok[1]), None if tok[2] == "N" else int(tok[2]))
            return "ok"
        if op == "push":
            sh, vs = tok[1].split(";")
            rt.push(torch.tensor(ints(vs), dtype=torch.float32).reshape(shp(sh)), inplace=tok[2] == "T")
            return "ok"
        if op == "assign":
            rt.value = {"none": lambda: None, "empty": lambda: torch.empty(0),
                        "uninit": lambda: nn.UninitializedBuffer()}[tok[1]]()
            return "ok"
        if op == "initz":
            rt.initialize(shp(tok[1]))
            return "ok"
        if op == "srecon":
            st.reconstrain(int(tok[1]), None if tok[2] == "N" else int(tok[2]))
            return "ok"
        if op == "sassign":
            st.value = self._val(tok[1], False)
            return "ok"
        if op == "sstrict":
            st.strict = tok[1] == "T"
            return "ok"
        if op == "slive":
            st.live = tok[1] == "T"
            return "ok"
        raise AssertionError(tok)

    # -- record stream
    def _begin(self, a):
        self.mode = a[0]
        dt, dur = self._t(a[1]), self._t(a[2])
        incl, strict, param = a[3] == "T", a[4] == "T", a[5] == "T"
        kind = a[6].split(":")
        if kind[0] == "none":
            val = None
        elif kind[0] == "empty":
            val = torch.empty(0)
        elif kind[0] == "uninit":
            val = nn.UninitializedBuffer()
        else:
            val = torch.zeros(shp(kind[1]))
        if param:
            val = nn.Parameter(val)
        cons = cons_of(a[7])
        self.owner = inferno.Module()
        self.rt = None
        RecordTensor.create(self.owner, "rec", dt, dur, val, constraints=cons or None, strict=strict,
                            inclusive=incl)
        self.rt = self.owner.rec
        return "ok"

    def _dump(self):
        rt = self.rt
        v = rt.value
        n = rt.recordsz
        tail = f"dt={self._ts(rt.dt)} dur={self._ts(rt.duration)} incl={b(rt.inclusive)}"
        if v is None:
            sm = ss = "none"
        elif isinstance(v, (nn.UninitializedBuffer, nn.UninitializedParameter)):
            sm = ss = "uninit"
        elif v.numel() == 0 and v.ndim <= 1:
            sm = ss = "empty"
        else:
            head = f"init:{shp_s(v.shape[1:])}:"
            sm = head + "|".join(row_s(v[i]) for i in range(v.shape[0]))
            if v.shape[0] == n:
                ss = head + "|".join(row_s(rt.read(k)) for k in range(1, n + 1))
            else:
                ss = head + f"[storage has {v.shape[0]} slots, recordsz {n}]"
        raw = getattr(self.owner, "_rec_constraints")
        m = (f"n={n} ptr={rt.pointer} store={sm} param={b(isinstance(v, nn.Parameter))} strict={b(rt.strict)} "
             f"cons={cons_s(raw)} valid={b(rt.valid)} dim={rt.dimensionality} " + tail)
        user = dict(sorted(rt.constraints.items()))
        s = f"n={n} store={ss} cons={cons_s(user)} valid={b(rt.valid)} " + tail
        return (m, s)

    # -- shaped stream
    def _val(self, tok, param):
        k = tok.split(":")
        if k[0] == "none":
            return None
        if k[0] == "uninit":
            return nn.UninitializedParameter() if param else nn.UninitializedBuffer()
        t = torch.tensor(ints(k[2]), dtype=torch.float32).reshape(shp(k[1]))
        return nn.Parameter(t) if param else t

    def _sbegin(self, a):
        strict, param = a[0] == "T", a[1] == "T"
        self.owner = inferno.Module()
        self.st = None
        ShapedTensor.create(self.owner, "st", self._val(a[2], param), constraints=cons_of(a[3]), strict=strict,
                            live=(len(a) > 4 and a[4] == "T"))
        self.st = self.owner.st
        return "ok"

    def _sdump(self):
        st = self.st
        v = st.value
        if v is None:
            vs = "none"
        elif isinstance(v, (nn.UninitializedBuffer, nn.UninitializedParameter)):
            vs = "uninit"
        else:
            vs = f"t:{shp_s(v.shape)}:{row_s(v)}"
        raw = getattr(self.owner, "_st_constraints")
        m = (f"val={vs} param={b(isinstance(v, nn.Parameter))} strict={b(st.strict)} cons={cons_s(raw)} "
             f"valid={b(st.valid)} dim={st.dimensionality} ignored={b(st.ignored)} live={b(st.live)}")
        s = f"val={vs} cons={cons_s(dict(sorted(st.constraints.items())))} valid={b(st.valid)}"
        return (m, s)


# ---------------------------------------------------------------------------------------------
# generators

def q(x) -> str:
    fr = Fraction(x)
    return f"{fr.numerator}/{fr.denominator}"


def push_line(shape, i, inplace):
    P = prod(shape)
    vals = ",".join(str(i * P + k + 1) for k in range(P))
    return f"push {shp_s(shape)};{vals} {b(inplace)}"


def helper_cases(maxsize, rng):
    """every constraint set with <= 2 keys over dims -3..3 / sizes 0..maxsize (+ random 3-key sets) against
    every shape of rank <= 3 with sizes 0..maxsize, strict and not; one case per constraint set"""
    dims = list(range(-3, 4))
    sizes = list(range(0, maxsize + 1))
    shapes = [()] + [s for r in (1, 2, 3) for s in itertools.product(sizes, repeat=r)]
    sets = [{}]
    sets += [{d: s} for d in dims for s in sizes]
    sets += [{d1: s1, d2: s2} for d1 in dims for d2 in dims if d1 != d2 for s1 in sizes for s2 in sizes]
    for _ in range(60):
        ks = rng.sample(dims, 3)
        sets.append({k: rng.choice(sizes) for k in ks})
    cases = []
    for c in sets:
        cs = cons_s(c)
        lines = []
        for strict in (True, False):
            lines.append(f"hdim {cs} {b(strict)}")
            for sh in shapes:
                lines.append(f"hcompat {shp_s(sh)} {cs} {b(strict)}")
        for nd in range(0, 5):
            lines.append(f"hconsist {cs} {nd}")
        cases.append(lines)
    return cases


def rand_tensor_tok(rng, shape, base=None):
    P = prod(shape)
    base = rng.randint(1, 50) if base is None else base
    return f"t:{shp_s(shape)}:" + ",".join(str(base + k) for k in range(P))


def shaped_case(rng):
    """ShapedTensor: construction + reconstrain add/edit/remove / value assignment / strict toggles"""
    rank = rng.choice([1, 1, 2, 2, 2, 3])
    shape = tuple(rng.choice([0, 1, 2, 2, 3, 3]) for _ in range(rank))
    if shape == (0,):
        shape = (2,)
    strict = rng.random() < 0.5
    param = rng.random() < 0.25
    cons = {}
    for _ in range(rng.randint(0, 2)):
        d = rng.randint(-rank, rank - 1)
        if rng.random() < 0.15:
            d = rng.randint(-3, 3)
        cons[d] = shape[d] if (-rank <= d < rank and rng.random() < 0.85) else rng.randint(0, 3)
    kind = rng.random()
    if kind < 0.7:
        val = rand_tensor_tok(rng, shape)
    elif kind < 0.8:
        val = "t:0:"
    elif kind < 0.9 and not param:
        val = "none"
    else:
        # (an UninitializedParameter keeps its class when `.data` is assigned, so a tensor assigned through
        #  ShapedTensor.value does not take; uninitialised *parameters* are outside the modelled domain)
        val = "uninit" if not param else "t:0:"
    live = rng.random() < 0.35
    lines = [f"sbegin {b(strict)} {b(param)} {val} {cons_s(cons)} {b(live)}", "sdump"]
    cur_rank = rank
    for _ in range(rng.randint(3, 9)):
        r = rng.random()
        if r < 0.7:
            d = rng.randint(-cur_rank - 1, cur_rank) if rng.random() < 0.8 else rng.randint(-3, 3)
            z = rng.choice(["N", "N", "0", "1", "2", "2", "3", "3", "4", "-1"])
            if cons and rng.random() < 0.4:
                d = rng.choice(list(cons))
            lines.append(f"srecon {d} {z}")
            if z == "N":
                cons.pop(d, None)
            elif z != "-1":
                cons.setdefault(d, int(z))
        elif r < 0.9:
            k = rng.random()
            if k < 0.65:
                cur_rank = rng.choice([1, 2, 2, 3])
                sh = tuple(rng.choice([0, 1, 2, 3]) for _ in range(cur_rank))
                lines.append("sassign " + rand_tensor_tok(rng, sh))
            elif k < 0.75:
                lines.append("sassign t:0:")
            elif k < 0.9:
                lines.append("sassign none")
            else:
                lines.append("sassign uninit" if not param else "sassign t:0:")
        elif r < 0.96:
            lines.append(f"sstrict {b(rng.random() < 0.5)}")
        else:
            lines.append(f"slive {b(rng.random() < 0.5)}")
        lines.append("sdump")
    return lines


DTS = [Fraction(1, 4), Fraction(1, 2), Fraction(3, 4), Fraction(1), Fraction(3, 2), Fraction(2), Fraction(3)]


def exhaustive_record_cases(maxn):
    """one temporal setter applied in EVERY ring state of a record of n <= maxn slots: every pointer position,
    empty / partially filled / full / wrapped, buffer and parameter storage, two observation shapes; every target
    size 1..2n+1 reached through dt, through duration and (±1) through inclusive"""
    cases = []
    for n in range(1, maxn + 1):
        for shape in ((), (2,)):
            for param in (False, True):
                for npush in range(0, 2 * n + 1):
                    pushes = [push_line(shape, i, i % 2 == 1) for i in range(npush)] + ["dump"]
                    pre = [f"begin Q 1/1 {n}/1 F T {b(param)} z:{shp_s(shape)} -"] + pushes
                    for m in range(1, 2 * n + 2):
                        cases.append(pre + [f"dur {m}/1", "dump"])
                        # dt = m, duration = n*m (n slots); dt := n gives ceil(n*m / n) = m slots, all integers
                        cases.append([f"begin Q {m}/1 {n * m}/1 F T {b(param)} z:{shp_s(shape)} -"] + pushes
                                     + [f"dt {n}/1", "dump"])
                    cases.append(pre + ["incl T", "dump", "incl F", "dump"])
    # from every ignored storage kind: the setter must not fail, the size must follow, a later push initialises
    for kind in ("none", "empty", "uninit"):
        for n in range(1, maxn + 1):
            for m in range(1, 2 * n + 2):
                for setter in (f"dur {n * m}/1", f"dt {n}/1", "incl T"):
                    # dt = m, duration = n*m: n slots; `dur n*m` is the no-op, `dt n` gives m slots
                    cases.append([f"begin Q {m}/1 {n * m}/1 F T F {kind} -", "dump", setter, "dump",
                                  "push 2;7,8 F", "dump"])
                    cases.append([f"begin Q 1/1 {n}/1 F T F {kind} -", "dump", f"dur {m}/1", "dump",
                                  "push 2;7,8 F", "dump"])
    # storage deinitialised by assignment after pushes (pointer non-zero), then resized
    for kind in ("none", "empty", "uninit"):
        for npush in (1, 2, 4):
            cases.append(["begin Q 1/1 3/1 F T F z:s -"] + [push_line((), i, False) for i in range(npush)]
                         + ["dump", f"assign {kind}", "dump", "dt 1/2", "dump", "push s;9 F", "dump",
                            "dur 2/1", "dump"])
    cases.append(["begin Q 1/1 3/1 F T T z:s -", "push s;1 F", "assign none", "dump", "assign empty", "dump",
                  "dur 5/1", "dump", "initz 2", "dump", "push 2;3,4 T", "dur 2/1", "dump"])
    return cases


def random_record_case(rng, big=False):
    shape = rng.choice([(), (2,), (3,), (2, 2), (1, 3)])
    strict = rng.random() < 0.6
    dt = rng.choice(DTS)
    n0 = rng.randint(1, 6) if not big else rng.randint(9, 24)
    dur = dt * n0 - (Fraction(0) if rng.random() < 0.6 else dt * Fraction(rng.randint(1, 7), 8))
    dur = max(dur, Fraction(0))
    incl = rng.random() < 0.3
    r = rng.random()
    param = False
    if r < 0.55:
        val = f"z:{shp_s(shape)}"
        param = rng.random() < 0.3
    elif r < 0.7:
        val = "none"
    elif r < 0.85:
        val = "empty"
        param = rng.random() < 0.2
    else:
        val = "uninit"
    cons = {}
    rank = len(shape)
    if rank and rng.random() < 0.5:
        for _ in range(rng.randint(1, 2)):
            d = rng.randint(-rank, rank - 1)
            if not strict and rng.random() < 0.1:
                d = -rank - 1                       # aliases the record dimension
                cons[d] = rng.choice([n0, n0, 2])
            else:
                cons[d] = shape[d] if rng.random() < 0.9 else rng.randint(1, 3)
    lines = [f"begin Q {q(dt)} {q(dur)} {b(incl)} {b(strict)} {b(param)} {val} {cons_s(cons)}", "dump"]
    i = 0
    cur = shape
    for _ in range(rng.randint(3, 14)):
        r = rng.random()
        if r < 0.35:
            lines.append(push_line(cur, i, rng.random() < 0.5))
            i += 1
        elif r < 0.5:
            ndt = rng.choice(DTS) if rng.random() < 0.9 else Fraction(rng.choice([0, -1]))
            lines.append(f"dt {q(ndt)}")
        elif r < 0.65:
            nd = Fraction(rng.randint(0, 56 if not big else 160), 8) if rng.random() < 0.93 else Fraction(-1, 2)
            lines.append(f"dur {q(nd)}")
        elif r < 0.72:
            lines.append(f"incl {b(rng.random() < 0.5)}")
        elif r < 0.9:
            rk = len(cur)
            d = rng.randint(-rk - 1, rk) if rng.random() < 0.85 else rng.randint(-4, 4)
            z = rng.choice(["N", "N", "1", "2", "2", "3", "3", "4", "5", "-1", "0"])
            lines.append(f"recon {d} {z}")
            if z not in ("N", "-1") and -rk <= d < rk and rng.random() < 0.9:
                # keep the generator's idea of the observation shape roughly in step (pushes then mostly fit)
                cur = tuple(int(z) if k == (d % rk) else s for k, s in enumerate(cur))
        elif r < 0.95:
            k = rng.choice(["none", "empty", "uninit"])
            if param and k == "uninit":
                k = "empty"
            lines.append(f"assign {k}")
        else:
            lines.append(f"initz {shp_s(cur)}")
        lines.append("dump")
    return lines


FLOAT_DTS = [0.1, 0.2, 0.3, 0.7, 1 / 3, 0.6, 1.1, 0.05, 1e-3, 2.5, 1.0]


def float_record_case(rng):
    """non-representable ratios: doubles cross the pipe as bit patterns"""
    dt = rng.choice(FLOAT_DTS)
    dur = rng.choice([rng.randint(0, 40) * 0.1, rng.randint(0, 12) * dt, rng.randint(1, 9) * 0.3, rng.random() * 5])
    shape = rng.choice([(), (2,)])
    val = rng.choice([f"z:{shp_s(shape)}", f"z:{shp_s(shape)}", "none", "empty"])
    lines = [f"begin F {f2hex(dt)} {f2hex(dur)} {b(rng.random() < 0.3)} T F {val} -", "dump"]
    i = 0
    for _ in range(rng.randint(3, 10)):
        r = rng.random()
        if r < 0.4:
            lines.append(push_line(shape, i, rng.random() < 0.5))
            i += 1
        elif r < 0.65:
            lines.append(f"dt {f2hex(rng.choice(FLOAT_DTS))}")
        elif r < 0.9:
            k = rng.randint(0, 30)
            lines.append(f"dur {f2hex(rng.choice([k * 0.1, k * 0.3, k * 0.7, k / 3, rng.random() * 4]))}")
        else:
            lines.append(f"incl {b(rng.random() < 0.5)}")
        lines.append("dump")
    return lines


def float_vs_exact(cases):
    """documented, not excused: how often the double quotient's ceiling differs from the ceiling of the
    exact quotient of the shortest-decimal readings of dt and duration"""
    seen = diff = 0
    examples = []
    for c in cases:
        dt = dur = None
        for l in c:
            t = l.split()
            if t[0] == "begin":
                dt, dur = hex2f(t[2]), hex2f(t[3])
            elif t[0] == "dt":
                dt = hex2f(t[1])
            elif t[0] == "dur":
                dur = hex2f(t[1])
            else:
                continue
            if dt > 0 and dur >= 0:
                seen += 1
                fl = math.ceil(dur / dt)
                exq = math.ceil(Fraction(repr(dur)) / Fraction(repr(dt)))
                if fl != exq:
                    diff += 1
                    if len(examples) < 5:
                        examples.append({"duration": dur, "dt": dt, "float_ceil": fl, "exact_decimal_ceil": exq})
    return {"pairs": seen, "float_size_differs_from_exact_decimal": diff, "examples": examples}


def corpus_cases():
    from pathlib import Path
    d = Path(__file__).resolve().parent.parent.parent / "corpus" / "C13"
    out = []
    if d.exists():
        for f in sorted(d.glob("*.ops")):
            out.append([l for l in f.read_text().splitlines() if l.strip() and not l.startswith("#")])
    return out


def key_of(case, d):
    i = d[0]
    op = case[i].split()[0]
    if op in ("dump", "sdump") and i > 0:
        op = case[i - 1].split()[0]
    head = case[0].split()
    if head[0] == "begin":
        ctx_ = head[7].split(":")[0] + (":param" if head[6] == "T" else "")
    else:
        ctx_ = head[0]
    return f"C13:{d[1]}:{op}:{ctx_}"


def explore(ctx) -> Exploration:
    ex = Exploration()
    import transval
    transval.validate(ctx, SPEC["translate"], ex, per_fn=60)   # generated pointer / size arithmetic vs the Python originals
    rng = ctx.rng
    thorough = ctx.tier == "thorough" or ctx.intensify
    STATS.clear()
    cases = corpus_cases()
    ncorpus = len(cases)
    helpers = helper_cases(2 if not thorough else 3, rng)
    exh = exhaustive_record_cases(4 if not thorough else 6)
    nrand = 500 if not thorough else 4000
    rnd = [random_record_case(rng) for _ in range(nrand)] + [random_record_case(rng, big=True) for _ in range(nrand // 8)]
    shaped = [shaped_case(rng) for _ in range(nrand)]
    flt = [float_record_case(rng) for _ in range(nrand // 2)]
    cases += helpers + exh + rnd + shaped + flt
    for c in cases:
        for l in c:
            ex.count("ops", l.split()[0])
        h = c[0].split()
        if h[0] == "begin":
            ex.count("storage", h[7].split(":")[0] + (":param" if h[6] == "T" else ""))
            ex.count("strict", h[5])
            ex.count("time", h[1])

    def nontrivial(case, real):
        return any(r[0] in ("ok", "T", "F") or r[0].isdigit() for l, r in zip(case, real)
                   if not l.startswith(("begin", "sbegin", "dump", "sdump")))

    seqcheck.run_cases(ctx, DRIVER, cases, Real, ex, key_of, "C13", nontrivial)
    for k, v in sorted(STATS.items()):
        ex.count("setter_outcome", k, v)
    ex.rule = (
        "cases = corpus + helper functions compared one by one (every constraint set of <= 2 keys over dims -3..3 and sizes "
        "0..%d, plus random 3-key sets, against every shape of rank <= 3, strict and not, and every ndims 0..4) + exhaustive "
        "single temporal setters (every record of n <= %d slots, every pointer position and fill level 0..2n pushes, buffer and "
        "parameter storage, every target size 1..2n+1 reached by dt, by duration and by inclusive; every ignored storage kind) "
        "+ seeded random record sequences (setters, RecordTensor.reconstrain add/edit/remove on positive and negative dims, "
        "pushes, value = None/empty/uninitialised, initialize; strict and non-strict; invalid arguments) + random ShapedTensor "
        "sequences (construction, reconstrain, arbitrary value assignment, strict toggles) + random double-valued dt/duration "
        "sequences; after every operation recordsz, pointer, raw storage, constraints, valid, dimensionality (model view) and "
        "recordsz, read(k) for all k, constraints, valid (specification view) are compared; a case is non-trivial when at least "
        "one operation other than begin/dump succeeded on the real object"
        % (2 if not thorough else 3, 4 if not thorough else 6))
    ex.samples = [exh[len(exh) // 3], rnd[0], shaped[0], flt[0]]
    ex.extra["streams"] = {"corpus": ncorpus, "helper_sets": len(helpers), "exhaustive_single_setter": len(exh),
                           "random_record_sequences": len(rnd), "random_shaped_sequences": len(shaped),
                           "float_sequences": len(flt)}
    ex.extra["float_vs_exact"] = float_vs_exact(flt)
    return ex


def replay(ctx, data) -> int:
    case = data.get("failing_input", {}).get("ops") or data.get("ops")
    if not case:
        print("replay file has no op sequence (proof/tie breakage without failing input):", data.get("broken"))
        return 1
    real = seqcheck.exec_real(Real, case)
    resp = ctx.run_driver(DRIVER, case)
    for l, r, d in zip(case, real, resp):
        print(f"{l}\n    real: M {r[0]} || S {r[1]}\n    lean: {d}")
    d = seqcheck.compare_case(case, real, resp)
    print("DISAGREEMENT" if d else "agrees", d or "")
    return 1 if d else 0
