"""C14 — configuration-path independence: setters reach the same model as the constructor.

Relational check on the REAL code: an instance brought to a configuration by property
assignment (`a`) against an instance freshly constructed with that configuration (`b`) —
getters, dt / duration / inclusive / recordsz / batch dim / dtype of every internal
RecordTensor, batch dim of every batch-constrained ShapedTensor, and — from `clear()` —
identical outputs on a seeded input sequence.  Next to it, the model comparison: after every
request the reported configuration and sizes of `a` are compared with the driver's stream `M`
(mixin plumbing over full C13 record machines) and those of `b` with stream `S` (the summary
machine `Model/Config.lean`, about which `Props/C14.lean` proves the theorems).

Finding kinds: `spec`  = `a` differs from `b` (or a valid assignment raised) — a failing input;
               `model` = real code and model disagree while `a` and `b` agree.
"""
from __future__ import annotations

import collections
from fractions import Fraction

import torch
import torch.nn as nn

import inferno
from inferno import RecordTensor, ShapedTensor
from inferno import neural as N
from inferno import observe as O

from runner import Exploration, Finding
import seqcheck

SPEC = {
    "prop": "C14",
    "lean_targets": ["InfernoVerif.Props.C14", "InfernoVerif.Props.C13Glue", "InfernoVerif.Props.C13GlueProg", "InfernoVerif.Props.C14GlueProg", "InfernoVerif.Props.C14Run", "InfernoVerif.Gen.Dispatch"],
    "translate": ["Infra", "RingProg", "RecordProg", "ConfigProg"],
    "driver_targets": ["InfernoVerif.Model.Config", "InfernoVerif.Drv.Proto", "InfernoVerif.Gen.Dispatch"],
    "prop_files": ["InfernoVerif/Props/C14.lean", "InfernoVerif/Props/C13Glue.lean", "InfernoVerif/Props/C13GlueProg.lean", "InfernoVerif/Props/C14GlueProg.lean", "InfernoVerif/Props/C14Run.lean"],
    "lemma_files": ["InfernoVerif/Lemmas/Config.lean", "InfernoVerif/Lemmas/Record.lean"],
    "model_files": ["InfernoVerif/Model/Config.lean", "InfernoVerif/Model/Record.lean",
                    "InfernoVerif/Model/Shaped.lean", "InfernoVerif/Model/Ring.lean",
                    "InfernoVerif/Model/RingOps.lean"],
    "driver": "drivers/C14.lean",
    "assumptions": [
        "the Lean machine's state is the reported configuration + temporal configuration and recordsz of every internal "
        "record + batch dims; record contents are C13's subject. Equality of OUTPUTS from a cleared state is checked on "
        "the real code only (setter-built vs freshly constructed instance, exact comparison)",
        "model streams: dt / delay / duration on a dyadic grid (exact float quotients; see C13 'partial (float)'); "
        "non-representable ratios (dt 0.1/0.2/0.3/0.7, spans k*dt) are checked relationally on the real code only "
        "(setter-built vs fresh), reported as a separate stream",
        "write mode (`inplace`) is compared through its observable effects on the real code (storage reuse, autograd graph); "
        "the Lean machine only carries the reported flag",
        "`clear(keep_adaptations=False)` is used before comparing outputs (adaptive neurons keep adaptations across a "
        "plain clear() by design)",
        "RecordReducer / synapses have no `inclusive` setter of their own: `inclusive` is assigned on their internal histories "
        "through the public attributes (reducer.data_, synapse.spike_/current_/…) in a relational stream the Lean driver is "
        "not asked about (it has no such request); there the oracle is the closed form max(ceil(duration/dt)+[inclusive],1) "
        "plus a fresh instance wherever a constructor yields the configuration (synapse constructors always create inclusive "
        "histories, so exclusive synapse histories are held against the closed form only and outputs are compared once the "
        "histories are inclusive again). Reducer `duration` setter requires > 0 while the constructor accepts 0: duration 0 "
        "enters through the constructor, delay 0 through constructor or setter",
        "connection weights / biases / learned delays are copied from the setter-built to the fresh instance before "
        "outputs are compared (they are randomly initialised by the constructor)",
        "layers are covered through their components (a Layer holds connections and neurons and has no setters of its own)",
    ],
}
DRIVER = "drivers/C14.lean"
ERRS = {"RuntimeError", "ValueError", "TypeError", "AttributeError", "IndexError", "KeyError"}
STATS = collections.Counter()


class HarnessBug(Exception):
    """a generator / executor error of this check (never a verdict about the code)"""


def b(x):
    return "T" if x else "F"


def q(x) -> str:
    fr = Fraction(x)
    if fr.denominator > 1024:           # a non-representable value of the relational stream: show the float literal
        return repr(float(x))
    return f"{fr.numerator}/{fr.denominator}"


def fq(tok: str) -> float:
    """`num/den` (exact grid) or a Python float literal such as `2.2` (non-representable stream)"""
    if "/" not in tok:
        return float(tok)
    a, d = tok.split("/")
    return int(a) / int(d)


def ft(x) -> str:
    """token for a time value of the non-representable stream: the float literal itself"""
    return repr(float(x))


def dts(dtype) -> str:
    return {torch.float32: "f32", torch.float64: "f64"}.get(dtype, str(dtype))


# ---------------------------------------------------------------------------------------------
# class registry: builders from a configuration dict

def _sh(P):
    return P if isinstance(P, tuple) else (P,)


SYN = {
    "DeltaCurrent": lambda c, P: N.DeltaCurrent(_sh(P), c["dt"], spike_charge=1.0, delay=c["delay"],
                                                batch_size=c["batch"], inplace=c["inplace"]),
    "DeltaPlusCurrent": lambda c, P: N.DeltaPlusCurrent(_sh(P), c["dt"], spike_charge=1.0, delay=c["delay"],
                                                        batch_size=c["batch"], inplace=c["inplace"]),
    "SingleExponentialCurrent": lambda c, P: N.SingleExponentialCurrent(
        _sh(P), c["dt"], spike_charge=1.0, time_constant=8.0, delay=c["delay"], batch_size=c["batch"],
        inplace=c["inplace"]),
    "DoubleExponentialCurrent": lambda c, P: N.DoubleExponentialCurrent(
        _sh(P), c["dt"], spike_charge=1.0, tc_decay=16.0, tc_rise=4.0, delay=c["delay"], batch_size=c["batch"],
        inplace=c["inplace"]),
}
SYN_PARTIAL = {
    "DeltaCurrent": lambda ip: N.DeltaCurrent.partialconstructor(1.0, inplace=ip),
    "DeltaPlusCurrent": lambda ip: N.DeltaPlusCurrent.partialconstructor(1.0, inplace=ip),
    "SingleExponentialCurrent": lambda ip: N.SingleExponentialCurrent.partialconstructor(1.0, 8.0, inplace=ip),
    "DoubleExponentialCurrent": lambda ip: N.DoubleExponentialCurrent.partialconstructor(1.0, 16.0, 4.0, inplace=ip),
}
NEU = {
    "LIF": lambda c, P: N.LIF((P,), c["dt"], rest_v=-60.0, reset_v=-65.0, thresh_v=-50.0, refrac_t=2.0,
                              time_constant=16.0, batch_size=c["batch"]),
    "ALIF": lambda c, P: N.ALIF((P,), c["dt"], rest_v=-60.0, reset_v=-65.0, thresh_eq_v=-50.0, refrac_t=2.0,
                                tc_membrane=16.0, tc_adaptation=32.0, spike_increment=1.0, batch_size=c["batch"]),
    "GLIF1": lambda c, P: N.GLIF1((P,), c["dt"], rest_v=-60.0, reset_v=-65.0, thresh_v=-50.0, refrac_t=2.0,
                                  time_constant=16.0, batch_size=c["batch"]),
    "GLIF2": lambda c, P: N.GLIF2((P,), c["dt"], rest_v=-60.0, reset_v_add=-5.0, reset_v_mul=0.5,
                                  thresh_eq_v=-50.0, refrac_t=2.0, tc_membrane=16.0, rc_adaptation=0.05,
                                  spike_increment=1.0, batch_size=c["batch"]),
    "QIF": lambda c, P: N.QIF((P,), c["dt"], rest_v=-60.0, crit_v=-55.0, affinity=1.0, reset_v=-65.0,
                              thresh_v=-50.0, refrac_t=2.0, time_constant=16.0, batch_size=c["batch"]),
    "Izhikevich": lambda c, P: N.Izhikevich((P,), c["dt"], rest_v=-60.0, crit_v=-55.0, affinity=1.0, reset_v=-65.0,
                                            thresh_v=-50.0, refrac_t=2.0, tc_membrane=16.0, tc_adaptation=32.0,
                                            voltage_coupling=0.5, spike_increment=1.0, batch_size=c["batch"]),
    "EIF": lambda c, P: N.EIF((P,), c["dt"], rest_v=-60.0, rheobase_v=-55.0, sharpness=2.0, reset_v=-65.0,
                              thresh_v=-50.0, refrac_t=2.0, time_constant=16.0, batch_size=c["batch"]),
    "AdEx": lambda c, P: N.AdEx((P,), c["dt"], rest_v=-60.0, rheobase_v=-55.0, sharpness=2.0, reset_v=-65.0,
                                thresh_v=-50.0, refrac_t=2.0, tc_membrane=16.0, tc_adaptation=32.0,
                                voltage_coupling=0.5, spike_increment=1.0, batch_size=c["batch"]),
}
RED = {
    "PassthroughReducer": lambda c: O.PassthroughReducer(c["dt"], duration=c["duration"], inclusive=c["incl"],
                                                         inplace=c["inplace"]),
    "EMAReducer": lambda c: O.EMAReducer(c["dt"], 0.25, duration=c["duration"], inclusive=c["incl"],
                                         inplace=c["inplace"]),
    "CAReducer": lambda c: O.CAReducer(c["dt"], duration=c["duration"], inclusive=c["incl"], inplace=c["inplace"]),
    "NearestTraceReducer": lambda c: O.NearestTraceReducer(c["dt"], 8.0, 1.0, 1.0, duration=c["duration"],
                                                           inclusive=c["incl"], inplace=c["inplace"]),
    "CumulativeTraceReducer": lambda c: O.CumulativeTraceReducer(c["dt"], 8.0, 1.0, 1.0, duration=c["duration"],
                                                                 inclusive=c["incl"], inplace=c["inplace"]),
}


def build_conn(name, syncls, c, P, hasdelay):
    kw = dict(synapse=SYN_PARTIAL[syncls](c["inplace"]), delay=(c["delay"] if hasdelay else None),
              batch_size=c["batch"])
    if name == "LinearDense":
        return N.LinearDense((P,), (2,), c["dt"], **kw)
    if name == "LinearDirect":
        return N.LinearDirect((P,), c["dt"], **kw)
    if name == "LinearLateral":
        return N.LinearLateral((P,), c["dt"], **kw)
    if name == "Conv2D":
        # P = channels * kernel*kernel * (#patches); height=width=2, kernel=1 -> synapse shape (P, 4)
        return N.Conv2D(2, 2, P, 2, c["dt"], 1, **kw)
    raise AssertionError(name)


CONN = ["LinearDense", "LinearDirect", "LinearLateral", "Conv2D"]
_K = {}


def records_of(m):
    return [(k, v) for k, v in vars(m).items() if isinstance(v, RecordTensor)]


def shaped_of(m):
    return [(k, v) for k, v in vars(m).items() if isinstance(v, ShapedTensor) and not isinstance(v, RecordTensor)]


def syn_k(name):
    if name not in _K:
        _K[name] = len(records_of(SYN[name](dict(dt=1.0, delay=1.0, batch=1, inplace=False), 2)))
    return _K[name]


def neu_m(name):
    if name not in _K:
        inst = NEU[name](dict(dt=1.0, batch=1), 2)
        _K[name] = len([1 for _, v in shaped_of(inst) if 0 in v.constraints])
    return _K[name]


# ---------------------------------------------------------------------------------------------
# reports of a real instance (same format as the driver)

def rec_s(owner, name, rt):
    raw = getattr(owner, f"_{name}_constraints")
    v = rt.value
    n = str(rt.recordsz)
    if v is not None and not (v.numel() == 0 and v.ndim <= 1) and v.shape[0] != rt.recordsz:
        n += f"[storage {v.shape[0]}]"
    bd = raw.get(1)
    if bd is not None and v is not None and v.ndim > 1 and v.shape[1] != bd:
        bd = f"{bd}[storage {v.shape[1]}]"
    return f"{n}:{q(rt.dt)}:{q(rt.duration)}:{b(rt.inclusive)}:{'-' if bd is None else bd}"


def report(kind, m):
    if kind == "syn":
        head = (f"dt={q(m.dt)} span={q(m.delay)} batch={m.batchsz} incl=- inplace={b(m.inplace)} "
                f"dtype={dts(m.current.dtype)}")
        recs = "|".join(rec_s(m, k, v) for k, v in records_of(m)) or "-"
        return head + f" recs={recs} bd=-"
    if kind == "neu":
        head = f"dt={q(m.dt)} span=- batch={m.batchsz} incl=- inplace=- dtype={dts(m.voltage.dtype)}"
        bds = []
        for k, v in shaped_of(m):
            if 0 in v.constraints:
                s = str(v.constraints[0])
                if v.value.shape[0] != v.constraints[0]:
                    s += f"[storage {v.value.shape[0]}]"
                bds.append(s)
        return head + " recs=- bd=" + (",".join(bds) or "-")
    if kind == "red":
        rt = m.data_
        head = (f"dt={q(m.dt)} span={q(m.duration)} batch=- incl={b(rt.inclusive)} inplace={b(m.inplace)} "
                f"dtype={dts(rt.value.dtype)}")
        return head + f" recs={rec_s(m, 'data_', rt)} bd=-"
    if kind == "con":
        s = m.synapse
        d = m.delayedby
        head = (f"dt={q(m.dt)} span={'-' if d is None else q(d)} batch={m.batchsz} incl=- inplace={b(s.inplace)} "
                f"dtype={dts(s.current.dtype)}")
        recs = "|".join(rec_s(s, k, v) for k, v in records_of(s)) or "-"
        return head + f" recs={recs} bd=-"
    raise AssertionError(kind)


def tdt(tok):
    return torch.float64 if tok == "f64" else torch.float32


class Real:
    """one case: `a` is driven by assignments; at `report` / `run` a fresh `b` is built from the
    configuration the assignments should have produced"""

    def __init__(self):
        self.kind = None
        self.a = None
        self.cfg = None
        self.cls = None
        self.syncls = None
        self.P = 0
        self.hasdelay = False
        self.closed = False     # set once a record-level assignment was made: reports are then also held against the closed form
        self.g = torch.Generator().manual_seed(0)

    # -- construction
    def fresh(self, cfg=None):
        c = cfg or self.cfg
        if self.kind == "syn":
            m = SYN[self.cls](c, self.P)
        elif self.kind == "neu":
            m = NEU[self.cls](c, self.P)
        elif self.kind == "red":
            m = RED[self.cls](c)
        else:
            m = build_conn(self.cls, self.syncls, c, self.P, self.hasdelay)
        if c["dtype"] == "f64":
            m = m.to(torch.float64)
        return m

    def _twin(self):
        """can a freshly constructed instance have the current configuration?  (every library synapse creates its
        histories inclusive; a reducer takes `inclusive` as a constructor argument)"""
        return self.kind not in ("syn", "con") or self.cfg.get("rincl", True)

    def _closed_form(self, ra):
        """independent oracle for record-level assignments: every internal history reports the expected
        (dt, duration, inclusive) and holds max(ceil(duration / dt) + [inclusive], 1) observations (the documented size of a
        RecordTensor, exact on the dyadic grid); the component's own dt / span getters are unchanged by it"""
        c = self.cfg
        if self.kind == "neu":
            return []
        dt = Fraction(c["dt"])
        dur = Fraction(c["duration"] if self.kind == "red" else c["delay"])
        if dt.denominator > 1024 or dur.denominator > 1024:
            return []
        incl = c["incl"] if self.kind == "red" else c.get("rincl", True)
        n = max(-((-dur.numerator * dt.denominator) // (dur.denominator * dt.numerator)) + (1 if incl else 0), 1)
        want = f"{n}:{q(dt)}:{q(dur)}:{b(incl)}"
        f = dict(t.split("=", 1) for t in ra.split())
        out = []
        for i, r in enumerate(f["recs"].split("|")):
            if r != "-" and r.rsplit(":", 1)[0] != want:
                out.append(f"history {i}: reports size:dt:duration:inclusive `{r.rsplit(':', 1)[0]}`, closed form "
                           f"max(ceil(duration/dt)+[inclusive],1) for the assigned configuration gives `{want}`")
        if f["dt"] != q(dt):
            out.append(f"component dt getter {f['dt']} after record-level assignment, configuration has {q(dt)}")
        if f["span"] not in ("-", q(dur)):
            out.append(f"component delay/duration getter {f['span']} after record-level assignment, configuration has {q(dur)}")
        return out

    def exec(self, line):
        tok = [t for t in line.split() if not t.startswith("cls=") and not t.startswith("syn=")]
        meta = dict(t.split("=", 1) for t in line.split() if t.startswith(("cls=", "syn=")))
        try:
            return self._exec(tok, meta)
        except HarnessBug:
            raise
        except Exception as e:
            name = type(e).__name__
            r = "err " + (name if name in ERRS else "Other")
            return (r, r, [])

    def _exec(self, tok, meta):
        op = tok[0]
        if op in ("syn", "con", "neu", "red"):
            self.kind = op
            self.cls = meta["cls"]
            if op == "syn":
                self.cfg = dict(dt=fq(tok[2]), delay=fq(tok[3]), batch=int(tok[4]), inplace=tok[5] == "T", dtype=tok[6])
                self.P = int(tok[7])
            elif op == "con":
                self.hasdelay = tok[1] == "T"
                self.syncls = meta["syn"]
                self.cfg = dict(dt=fq(tok[3]), delay=fq(tok[4]), batch=int(tok[5]), inplace=tok[6] == "T", dtype=tok[7])
                self.P = int(tok[8]) // (4 if self.cls == "Conv2D" else 1)
            elif op == "neu":
                self.cfg = dict(dt=fq(tok[2]), batch=int(tok[3]), dtype=tok[4])
                self.P = int(tok[5])
            else:
                self.cfg = dict(dt=fq(tok[1]), duration=fq(tok[2]), incl=tok[3] == "T", inplace=tok[4] == "T", dtype=tok[5])
            self.a = None
            self.closed = False
            self.a = self.fresh()
            return ("ok", "ok", [])
        if self.a is None:
            return ("dead", "dead", [])
        a = self.a
        if op == "set":
            return self._set(tok, meta)
        if op == "report":
            bm = self.fresh()
            ra, rb = report(self.kind, a), report(self.kind, bm)
            rel = []
            if self.closed:
                rel += self._closed_form(ra)
            if not self._twin():
                # no constructor produces this configuration (a synapse's histories are always created inclusive): the
                # closed form above is the only oracle; the fresh instance is reported for the reader only
                return (ra, rb, rel)
            if ra != rb:
                rel.append(f"report: setter-built `{ra}` fresh `{rb}`")
            if self.kind == "con" and type(a.synapse).__name__ != type(bm.synapse).__name__:
                rel.append(f"synapse class: setter-built {type(a.synapse).__name__} fresh {type(bm.synapse).__name__}")
            return (ra, rb, rel)
        if op == "step":
            # (plain observations: a grad-requiring observation written out-of-place makes the storage require grad, and
            #  deinitialize()/clear() preserve that flag — a clear()-does-not-restore matter (C17), not a setter matter)
            self._forward(a, self._inputs(int(tok[1]), 1)[0].detach())
            return ("ok", "ok", [])
        if op == "run":
            return self._run(int(tok[1]), int(tok[2]))
        raise AssertionError(tok)

    def _set(self, tok, meta):
        a, attr = self.a, tok[1]
        if attr == "dt":
            a.dt = fq(tok[2])
            self.cfg["dt"] = fq(tok[2])
        elif attr == "delay":
            tgt = a.synapse if self.kind == "con" else a
            tgt.delay = fq(tok[2])
            self.cfg["delay"] = fq(tok[2])
        elif attr == "batchsz":
            a.batchsz = int(tok[2])
            self.cfg["batch"] = int(tok[2])
        elif attr == "duration":
            a.duration = fq(tok[2])
            self.cfg["duration"] = fq(tok[2])
        elif attr == "inplace":
            tgt = a.synapse if self.kind == "con" else a
            tgt.inplace = tok[2] == "T"
            self.cfg["inplace"] = tok[2] == "T"
        elif attr == "dtype":
            a.to(tdt(tok[2]))
            self.cfg["dtype"] = tok[2]
        elif attr == "inclusive":
            # record-level assignment through the component's public history attributes (a reducer's `data_`, a
            # synapse's `spike_` / `current_` …): `<component>.<history>.inclusive = v`
            v = tok[2] == "T"
            tgt = a.synapse if self.kind == "con" else a
            names = [k for k, _ in records_of(tgt)]
            if not names:
                raise HarnessBug("set inclusive on a component without histories")
            self.closed = True
            self.cfg["incl" if self.kind == "red" else "rincl"] = v     # (what the assignment should produce)
            for k in names:
                getattr(tgt, k).inclusive = v
        elif attr == "synapse":
            new = dict(dt=fq(tok[3]), delay=fq(tok[4]), batch=int(tok[5]), inplace=tok[6] == "T", dtype=tok[7])
            # the replacement is itself brought to its configuration by assignment, from a different one
            start = dict(new, dt=new["dt"] * 2, delay=new["delay"] + 1.0, batch=new["batch"] + 1, dtype="f32")
            # (a synapse for a connection without delays still gets its delay assigned back to 0)
            syn = SYN[meta["cls"]](start, self.P if self.cls != "Conv2D" else (self.P, 4))
            syn.dt, syn.delay, syn.batchsz = new["dt"], new["delay"], new["batch"]
            if new["dtype"] == "f64":
                syn.to(torch.float64)
            a.synapse = syn
            self.cfg.update(new)
            self.cfg.pop("rincl", None)         # the replacement brings its own (inclusive) histories
            self.syncls = meta["cls"]
        else:
            raise AssertionError(tok)
        STATS["set:" + attr] += 1
        return ("ok", "ok", [])

    # -- outputs from a cleared state
    def _inputs(self, seed, T):
        g = torch.Generator().manual_seed(seed)
        c = self.cfg
        fdt = tdt(c["dtype"])
        outs = []
        for _ in range(T):
            if self.kind == "syn":
                outs.append((torch.rand(c["batch"], self.P, generator=g) < 0.4))
            elif self.kind == "neu":
                outs.append((torch.rand(c["batch"], self.P, generator=g) * 40.0).to(fdt))
            elif self.kind == "red":
                # grad-requiring observations: the write mode decides whether the reducer state keeps the graph
                outs.append((torch.rand(2, 3, generator=g) < 0.5).to(fdt).requires_grad_(True))
            else:
                shape = (c["batch"], self.P, 2, 2) if self.cls == "Conv2D" else (c["batch"], self.P)
                outs.append((torch.rand(*shape, generator=g) < 0.4).to(fdt))
        return outs

    def _records(self, m):
        tgt = m.synapse if self.kind == "con" else m
        return [v for _, v in records_of(tgt)]

    def _forward(self, m, x, mode=None):
        """one step; values as a flat float64 tensor.  `mode` (a list) collects the OBSERVABLE write mode of the
        step: whether each internal record's storage tensor was reused (`data_ptr` unchanged = written in place) and,
        for reducers fed grad-requiring observations, whether the state handed out by peek() / the storage carries a
        graph (out-of-place writes keep it, in-place writes are done under no_grad)"""
        before = [None if r.value is None else r.value.data_ptr() for r in self._records(m)] if mode is not None else None
        after = None
        if self.kind == "red":
            m(x)
            if mode is not None:    # (measured before dump(), whose align(0) re-allocates the storage in either mode)
                after = [None if r.value is None else r.value.data_ptr() for r in self._records(m)]
            pk, dp = m.peek(), m.dump()
            out = torch.cat([pk.detach().reshape(-1).to(torch.float64), dp.detach().reshape(-1).to(torch.float64)])
            if mode is not None:
                v = m.data_.value
                mode.append(("peek.requires_grad", pk.requires_grad, "storage.grad_fn is None", v.grad_fn is None))
        else:
            out = m(x)
            if mode is not None:
                after = [None if r.value is None else r.value.data_ptr() for r in self._records(m)]
            if self.kind == "neu":
                out = torch.cat([out.reshape(-1).to(torch.float64), m.voltage.reshape(-1).to(torch.float64)])
            out = out.detach().to(torch.float64)
        if mode is not None:
            mode.append(("storage reused", tuple(b0 is not None and b0 == a0 for b0, a0 in zip(before, after))))
        return out

    def _run(self, seed, T):
        a = self.a
        if not self._twin():
            raise HarnessBug("run without a constructible twin (generator error)")
        bm = self.fresh()
        rel = []
        if self.kind == "con":
            if type(a.synapse).__name__ != type(bm.synapse).__name__:
                rel.append(f"synapse class: setter-built {type(a.synapse).__name__} fresh {type(bm.synapse).__name__}")
            bm.weight = a.weight.detach().clone()
            if a.biased:
                bm.bias = a.bias.detach().clone()
            if a.delayedby is not None:
                g = torch.Generator().manual_seed(seed + 1)
                d = torch.rand(a.delay.shape, generator=g).to(a.delay.dtype) * a.delayedby
                a.delay = d.clone()
                bm.delay = d.clone()
        a.clear(keep_adaptations=False)
        bm.clear(keep_adaptations=False)
        xs = self._inputs(seed, T)
        for t, x in enumerate(xs):
            ma, mb = [], []
            try:
                oa = self._forward(a, x, ma)
            except Exception as e:
                oa = f"{type(e).__name__}: {str(e)[:80]}"
            ob = self._forward(bm, x, mb)
            if isinstance(oa, str):
                rel.append(f"output step {t}: setter-built raised {oa}")
                break
            if oa.shape != ob.shape or not torch.equal(torch.nan_to_num(oa, nan=12345.0), torch.nan_to_num(ob, nan=12345.0)):
                rel.append(f"output step {t}: setter-built {oa.reshape(-1)[:6].tolist()} fresh {ob.reshape(-1)[:6].tolist()}")
                break
            if t >= 1 and ma != mb:        # (step 0 initialises reducer storage on both sides)
                rel.append(f"write mode at step {t} (inplace={self.cfg.get('inplace')}): setter-built {ma} fresh {mb}")
                break
        ra, rb = report(self.kind, a), report(self.kind, bm)
        if ra != rb:
            rel.append(f"report after run: setter-built `{ra}` fresh `{rb}`")
        STATS["runs"] += 1
        return ("ok", "ok", rel)


# ---------------------------------------------------------------------------------------------
# comparison (relational first)

def compare_case(case, real, resp):
    """first finding: (index, kind, expected, observed)"""
    for i, (r, line) in enumerate(zip(real, resp)):
        rm, rs = r[0], r[1]
        rel = r[2] if len(r) > 2 else []
        dm, ds = seqcheck.split_resp(line)
        if rel:
            return (i, "spec", "setter-built instance == freshly constructed instance", "; ".join(rel))
        if rm.startswith("err") and ds == "ok":
            return (i, "spec", "ok (a valid assignment)", rm)
        if rm != dm:
            return (i, "model", dm, rm)
        if rs != ds:
            return (i, "model", ds, rs)
    return None


def compare_relational(case, real):
    """real code only: first relational difference or raised assignment"""
    for i, r in enumerate(real):
        rel = r[2] if len(r) > 2 else []
        if rel:
            return (i, "spec", "setter-built instance == freshly constructed instance", "; ".join(rel))
        if r[0].startswith(("err", "harness-exception")) and not case[i].startswith(("syn", "con", "red", "neu")):
            return (i, "spec", "ok (a valid assignment / step)", r[0])
    return None


def shrink(ctx, case, kind):
    def fails(c):
        real = seqcheck.exec_real(Real, c)
        resp = ctx.run_driver(DRIVER, c)
        d = compare_case(c, real, resp)
        return d is not None and d[1] == kind and "harness-exception" not in str(d) and "bad-op" not in str(d)

    cur = list(case)
    tries = 0
    changed = True
    while changed and tries < 40:
        changed = False
        for i in range(len(cur) - 2, 0, -1):
            cand = cur[:i] + cur[i + 1:]
            tries += 1
            if tries > 40:
                break
            if fails(cand):
                cur, changed = cand, True
    return cur


# ---------------------------------------------------------------------------------------------
# generators

DTS = [Fraction(1, 4), Fraction(1, 2), Fraction(1), Fraction(2)]
DELAYS = [Fraction(0), Fraction(1, 2), Fraction(1), Fraction(3, 2), Fraction(2), Fraction(3), Fraction(5, 2)]
DURS = [Fraction(1, 2), Fraction(1), Fraction(3, 2), Fraction(2), Fraction(3), Fraction(4)]
BATCH = [1, 2, 3]


def head_line(kind, cls, c, P, syn=None, hasdelay=False, q=q):
    if kind == "syn":
        return (f"syn {syn_k(cls)} {q(c['dt'])} {q(c['delay'])} {c['batch']} {b(c['inplace'])} {c['dtype']} {P} "
                f"cls={cls}")
    if kind == "con":
        PP = P if cls != "Conv2D" else P * 4
        return (f"con {b(hasdelay)} {syn_k(syn)} {q(c['dt'])} {q(c['delay'])} {c['batch']} {b(c['inplace'])} "
                f"{c['dtype']} {PP} cls={cls} syn={syn}")
    if kind == "neu":
        return f"neu {neu_m(cls)} {q(c['dt'])} {c['batch']} {c['dtype']} {P} cls={cls}"
    return f"red {q(c['dt'])} {q(c['duration'])} {b(c['incl'])} {b(c['inplace'])} {c['dtype']} cls={cls}"


def rand_cfg(rng, kind):
    if kind in ("syn", "con"):
        return dict(dt=rng.choice(DTS), delay=rng.choice(DELAYS), batch=rng.choice(BATCH),
                    inplace=rng.random() < 0.5, dtype="f32")
    if kind == "neu":
        return dict(dt=rng.choice(DTS), batch=rng.choice(BATCH), dtype="f32")
    return dict(dt=rng.choice(DTS), duration=rng.choice(DURS + [Fraction(0)]), incl=rng.random() < 0.5,
                inplace=rng.random() < 0.5, dtype="f32")


def rand_set(rng, kind, c, P, conncls=None, malformed=False, hasdelay=True):
    """one assignment line (mutates the generator's copy of the configuration)"""
    attrs = {"syn": ["dt", "delay", "batchsz", "inplace", "dtype"],
             "con": ["dt", "delay", "batchsz", "inplace", "dtype", "synapse", "synapse"],
             "neu": ["dt", "batchsz", "dtype"],
             "red": ["dt", "duration", "inplace", "dtype"]}[kind]
    a = rng.choice(attrs)
    if a == "delay" and kind == "con" and not hasdelay:
        a = "dt"                               # no delay attribute on a connection built without delays
    if a == "dt":
        v = rng.choice(DTS) if not malformed else Fraction(rng.choice([0, -1]))
        if not malformed:
            c["dt"] = v
        return f"set dt {q(v)}"
    if a == "delay":
        v = rng.choice(DELAYS) if not malformed else Fraction(-1, 2)
        if not malformed:
            c["delay"] = v
        return f"set delay {q(v)}"
    if a == "duration":
        v = rng.choice(DURS) if not malformed else Fraction(0)
        if not malformed:
            c["duration"] = v
        return f"set duration {q(v)}"
    if a == "batchsz":
        v = rng.choice(BATCH) if not malformed else rng.choice([0, -2])
        if not malformed:
            c["batch"] = v
        return f"set batchsz {v}"
    if a == "inplace":
        c["inplace"] = rng.random() < 0.5
        return f"set inplace {b(c['inplace'])}"
    if a == "dtype":
        c["dtype"] = rng.choice(["f32", "f64"])
        return f"set dtype {c['dtype']}"
    # synapse replacement
    cls = rng.choice(list(SYN))
    new = dict(dt=rng.choice(DTS), delay=(rng.choice(DELAYS) if hasdelay else Fraction(0)), batch=rng.choice(BATCH),
               inplace=rng.random() < 0.5, dtype=c["dtype"])   # a module has ONE dtype: the replacement adopts it
    c.update(new)
    PP = P if conncls != "Conv2D" else P * 4
    return (f"set synapse {syn_k(cls)} {q(new['dt'])} {q(new['delay'])} {new['batch']} {b(new['inplace'])} "
            f"{new['dtype']} {PP} cls={cls}")


def families():
    out = [("syn", c, None) for c in SYN] + [("neu", c, None) for c in NEU] + [("red", c, None) for c in RED]
    out += [("con", c, s) for c in CONN for s in SYN]
    return out


def grid_cases(rng, thorough):
    """every ordered pair of values of every assignable attribute, per class (other attributes random)"""
    cases = []
    for kind, cls, syn in families():
        if kind == "con" and not thorough and syn not in ("DeltaCurrent", "DoubleExponentialCurrent"):
            continue
        P = 3
        axes = {"syn": [("dt", DTS), ("delay", DELAYS), ("batch", BATCH), ("inplace", [False, True])],
                "con": [("dt", DTS), ("delay", DELAYS), ("batch", BATCH), ("inplace", [False, True])],
                "neu": [("dt", DTS), ("batch", BATCH)],
                "red": [("dt", DTS), ("duration", DURS), ("inplace", [False, True])]}[kind]
        for attr, vals in axes:
            for v0 in vals:
                for v1 in vals:
                    if v0 == v1 and rng.random() < 0.7:
                        continue
                    c = rand_cfg(rng, kind)
                    c[attr] = v0
                    hd = rng.random() < 0.7 or attr == "delay"
                    if kind == "con" and not hd:
                        c["delay"] = Fraction(0)       # a connection built without delays gives its synapse delay 0
                    lines = [head_line(kind, cls, c, P, syn, hd)]
                    if rng.random() < 0.5:
                        lines += [f"step {rng.randrange(1000)}" for _ in range(rng.randint(1, 3))]
                    name = {"batch": "batchsz"}.get(attr, attr)
                    val = b(v1) if attr == "inplace" else (v1 if attr == "batch" else q(v1))
                    lines += [f"set {name} {val}", "report", f"run {rng.randrange(10**6)} 6"]
                    cases.append(lines)
    return cases


FLOAT_DTS = [0.1, 0.2, 0.3, 0.7]


def float_cases(rng, thorough):
    """NON-REPRESENTABLE grid (relational only, no Lean machine: the comparison setter-built vs freshly constructed
    needs no exact arithmetic): dt in {0.1, 0.2, 0.3, 0.7} reached by assignment from another step time, with
    delay / duration = k * dt written as the short decimal (2.2, 0.9, 3.5, …), k = 1..12 (thorough: 1..30); plus the
    delay / duration itself reached by assignment"""
    cases = []
    fams = [("syn", c, None) for c in SYN] + [("red", c, None) for c in RED]
    conns = CONN if thorough else ["LinearDense", "LinearDirect"]
    syns = list(SYN) if thorough else ["DeltaCurrent", "SingleExponentialCurrent"]
    fams += [("con", c, s_) for c in conns for s_ in syns]
    for kind, cls, syn in fams:
        span = "duration" if kind == "red" else "delay"
        for dt1 in FLOAT_DTS:
            for k in range(1, 13 if not thorough else 31):
                d = round(k * dt1, 10)
                dt0 = rng.choice([x for x in FLOAT_DTS + [1.0, 0.5] if x != dt1])
                c = rand_cfg(rng, kind)
                c["dt"], c[span] = dt0, d
                lines = [head_line(kind, cls, c, 3, syn, True, q=ft)]
                if rng.random() < 0.3:
                    lines.append(f"step {rng.randrange(1000)}")
                if rng.random() < 0.35:
                    # reach the span by assignment too (from another multiple)
                    d0 = round(rng.randint(1, 12) * dt0, 10)
                    lines[0] = head_line(kind, cls, dict(c, **{span: d0}), 3, syn, True, q=ft)
                    lines.append(f"set {span} {ft(d)}")
                lines += [f"set dt {ft(dt1)}", "report", f"run {rng.randrange(10**6)} 3"]
                cases.append(lines)
    return cases


def inclusive_cases(rng, thorough):
    """RECORD-LEVEL assignments (relational only: the Lean driver has no request for them): the internal histories of
    a component are reachable through its public attributes (`reducer.data_`, `synapse.spike_` / `current_` / …), and
    `inclusive` is an assignable property of each.  Sequences of `<history>.inclusive = v` interleaved with the
    component's own setters (dt, delay / duration, batchsz, inplace, dtype) and simulation steps, over configurations in
    which HALF of the histories are undelayed (delay 0 / duration 0 — the clamped branch of the size formula).  After
    every assignment the instance is held against the closed form of the history size and (whenever a constructor
    can produce the configuration) against a freshly constructed instance; the case ends inclusive for synapses (their
    constructors create inclusive histories) with outputs from a cleared state"""
    cases = []
    fams = [("syn", c, None) for c in SYN] + [("red", c, None) for c in RED]
    conns = CONN if thorough else ["LinearDense", "Conv2D"]
    syns = list(SYN) if thorough else ["DeltaCurrent", "DoubleExponentialCurrent"]
    fams += [("con", c, s_) for c in conns for s_ in syns]
    reps = 8 if not thorough else 30
    for kind, cls, syn in fams:
        span = "duration" if kind == "red" else "delay"
        for r in range(reps):
            c = rand_cfg(rng, kind)
            if r % 2 == 0:
                c[span] = Fraction(0)
            hd = c[span] != 0 or rng.random() < 0.5
            cur = c["incl"] if kind == "red" else True
            lines = [head_line(kind, cls, c, 3, syn, hd), "report"]
            for _ in range(rng.randint(2, 6)):
                x = rng.random()
                if x < 0.2:
                    lines.append(f"step {rng.randrange(1000)}")
                    continue
                if x < 0.75:
                    cur = (not cur) if rng.random() < 0.8 else cur      # (re-assigning the same value is a setter call too)
                    lines += [f"set inclusive {b(cur)}", "report"]
                    continue
                c2 = dict(c)
                ln = rand_set(rng, kind, c2, 3, cls, malformed=False, hasdelay=hd)
                if ln.startswith("set synapse"):
                    continue
                c = c2
                lines += [ln, "report"]
            if kind != "red" and not cur:
                lines += ["set inclusive T", "report"]
            lines.append(f"run {rng.randrange(10**6)} {rng.randint(3, 6)}")
            cases.append(lines)
    return cases


def relational_only(case):
    """cases the Lean driver is not asked about: non-representable step times / spans and record-level assignments"""
    return (any("." in t for t in case[0].split() if not t.startswith(("cls=", "syn=")))
            or any(l.startswith("set inclusive") for l in case))


def random_case(rng):
    kind, cls, syn = rng.choice(families())
    P = rng.choice([2, 3])
    c = rand_cfg(rng, kind)
    hd = rng.random() < 0.7
    if kind == "con" and not hd:
        c["delay"] = Fraction(0)           # a connection built without delays gives its synapse delay 0
    lines = [head_line(kind, cls, c, P, syn, hd), "report"]
    for _ in range(rng.randint(2, 7)):
        r = rng.random()
        if r < 0.25:
            lines.append(f"step {rng.randrange(1000)}")
            continue
        lines.append(rand_set(rng, kind, c, P, cls, malformed=rng.random() < 0.08, hasdelay=hd))
        lines.append("report")
    lines.append(f"run {rng.randrange(10**6)} {rng.randint(4, 9)}")
    return lines


def corpus_cases():
    from pathlib import Path
    d = Path(__file__).resolve().parent.parent.parent / "corpus" / "C14"
    out = []
    if d.exists():
        for f in sorted(d.glob("*.ops")):
            out.append([l for l in f.read_text().splitlines() if l.strip() and not l.startswith("#")])
    return out


def key_of(case, d):
    head = case[0].split()
    meta = dict(t.split("=", 1) for t in head if t.startswith(("cls=", "syn=")))
    i = d[0]
    op = case[i].split()
    if op[0] in ("report", "run") and i > 0:
        j = i - 1
        while j > 0 and not case[j].startswith("set"):
            j -= 1
        op = case[j].split()
    what = op[1] if op[0] == "set" else op[0]
    return f"C14:{d[1]}:{head[0]}:{meta.get('cls', '?')}:{what}"


def explore(ctx) -> Exploration:
    ex = Exploration()
    import transval
    transval.validate(ctx, SPEC["translate"], ex, per_fn=60)   # generated pointer / size arithmetic vs the Python originals
    rng = ctx.rng
    thorough = ctx.tier == "thorough" or ctx.intensify
    STATS.clear()
    torch.manual_seed(ctx.seed)
    cases = corpus_cases()
    ncorpus = len(cases)
    grid = grid_cases(rng, thorough)
    rnd = [random_case(rng) for _ in range(500 if not thorough else 4000)]
    cases += grid + rnd
    for c in cases:
        h = c[0].split()
        meta = dict(t.split("=", 1) for t in h if t.startswith(("cls=", "syn=")))
        ex.count("class", meta.get("cls", "?") + ("+" + meta["syn"] if "syn" in meta else ""))
        for l in c:
            t = l.split()
            ex.count("ops", t[0] + (":" + t[1] if t[0] == "set" else ""))

    flat = [l for c in cases for l in c]
    reals = [seqcheck.exec_real(Real, c) for c in cases]
    resp = ctx.run_driver(DRIVER, flat)
    pos = 0
    nfound = 0
    for case, real in zip(cases, reals):
        r = resp[pos:pos + len(case)]
        pos += len(case)
        ex.evaluations += len(case)
        ex.traces_validated += 1
        if any(l.startswith("set") and x[0] == "ok" for l, x in zip(case, real)):
            ex.nontriv(tuple(case))
        d = compare_case(case, real, r)
        if d is None:
            continue
        if "harness-exception" in str(d) or "bad-op" in str(d[2]):
            raise RuntimeError(f"harness/driver protocol failure on {case[:d[0] + 1]}: {d}")
        nfound += 1
        if nfound > 8:
            continue
        small = shrink(ctx, case[:d[0] + 1], d[1])
        real2 = seqcheck.exec_real(Real, small)
        d2 = compare_case(small, real2, ctx.run_driver(DRIVER, small)) or d
        ex.findings.append(Finding(
            kind=d2[1], key=key_of(small, d2), what=f"op `{small[d2[0]]}`: expected `{d2[2]}` observed `{d2[3]}`",
            case={"ops": small, "index": d2[0], "expected": d2[2], "observed": d2[3],
                  "disagreement": ("setter-built vs freshly constructed instance (real code)" if d2[1] == "spec"
                                   else "real code vs model")}))
    # relational streams: real code only (setter-built vs fresh / closed form), no driver
    flt = float_cases(rng, thorough)
    inc = inclusive_cases(rng, thorough)
    nflt_found = 0
    ninc_found = 0
    for case in flt + inc:
        isinc = not any("." in t for t in case[0].split() if not t.startswith(("cls=", "syn=")))
        real = seqcheck.exec_real(Real, case)
        ex.evaluations += len(case)
        ex.traces_validated += 1
        ex.count("class_record_inclusive" if isinc else "class_nonrepresentable",
                 dict(t.split("=", 1) for t in case[0].split() if t.startswith("cls="))["cls"])
        if isinc:
            for l in case:
                t = l.split()
                ex.count("ops_record_inclusive", t[0] + (":" + t[1] if t[0] == "set" else ""))
        if any(l.startswith("set") and x[0] == "ok" for l, x in zip(case, real)):
            ex.nontriv(tuple(case))
        d = compare_relational(case, real)
        if d is None:
            continue
        if "harness-exception" in str(d):
            raise RuntimeError(f"harness failure on {case[:d[0] + 1]}: {d}")
        if isinc:
            ninc_found += 1
            if ninc_found > 4:
                continue
        else:
            nflt_found += 1
            if nflt_found > 4:
                continue
        small = list(case[:d[0] + 1])
        for i in range(len(small) - 2, 0, -1):          # greedy deletion keeping the relational difference
            cand = small[:i] + small[i + 1:]
            if compare_relational(cand, seqcheck.exec_real(Real, cand)) is not None:
                small = cand
        d2 = compare_relational(small, seqcheck.exec_real(Real, small)) or d
        ex.findings.append(Finding(
            kind="spec", key=key_of(small, d2) + (":record-level" if isinc else ":nonrepresentable"),
            what=f"op `{small[d2[0]]}`: expected `{d2[2]}` observed `{d2[3]}`",
            case={"ops": small, "index": d2[0], "expected": d2[2], "observed": d2[3],
                  "disagreement": ("setter-built vs freshly constructed instance / closed form of the history size (real code), "
                                   "record-level `inclusive` assignment" if isinc else
                                   "setter-built vs freshly constructed instance (real code), non-representable dt/duration")}))
    for k, v in sorted(STATS.items()):
        ex.count("real_side", k, v)
    ex.rule = (
        "cases = corpus + per class (4 synapse classes, 8 neuron classes, 5 reducer classes, 4 connection classes x synapse "
        "classes) every ordered pair of values of every assignable attribute (dt, delay, batchsz, duration) with the other "
        "attributes random, optionally after a few simulation steps + seeded random assignment sequences (dt, delay, batchsz, "
        "duration, inplace, dtype via .to, synapse replacement by a synapse that was itself reconfigured by assignment; 8% "
        "invalid arguments); after every assignment the setter-built instance is compared with a freshly constructed one "
        "(getters, dt/duration/inclusive/recordsz/batch dim of every internal RecordTensor, batch dims of ShapedTensors, dtype) "
        "and with both Lean machines; every case ends with clear() on both instances and an exact comparison of outputs on a "
        "seeded input sequence — values AND observable write mode (storage tensor reused or not per record, and for reducers fed "
        "grad-requiring observations whether peek()/storage keep the graph); + a NON-REPRESENTABLE relational stream (dt in "
        "{0.1,0.2,0.3,0.7} by assignment, delay/duration = k*dt as short decimals) on the real code only; + a RECORD-LEVEL "
        "relational stream: `inclusive` of every internal history assigned through the component's public attributes "
        "(reducer.data_, synapse.spike_/current_/…; connections through their synapse), interleaved with the component setters "
        "and steps, half of the configurations undelayed (delay / duration 0), held after every assignment against the closed "
        "form max(ceil(duration/dt)+[inclusive],1) and against a fresh instance wherever a constructor yields the configuration; "
        "a case is non-trivial when at least one assignment succeeded")
    ex.samples = [grid[0], grid[len(grid) // 2], rnd[0], rnd[-1]]
    ex.extra["streams"] = {"corpus": ncorpus, "attribute_pair_grid": len(grid), "random_sequences": len(rnd),
                           "nonrepresentable_relational_only": len(flt), "record_inclusive_relational_only": len(inc)}
    ex.extra["record_inclusive_stream"] = {
        "cases": len(inc), "relational_differences": ninc_found,
        "undelayed_heads": sum(1 for c_ in inc if " 0/1 " in c_[0]),
        "sample": inc[len(inc) // 2] if inc else []}
    ex.extra["nonrepresentable_stream"] = {
        "cases": len(flt), "relational_differences": nflt_found,
        "what": "dt in {0.1,0.2,0.3,0.7} reached by assignment, delay/duration = k*dt as short decimals (k=1..%d); "
                "setter-built vs freshly constructed instance compared on getters, every record's dt/duration/inclusive/"
                "recordsz/batch dim, outputs and write mode; not sent to the Lean driver (its arithmetic is exact)"
                % (12 if not thorough else 30),
        "sample": flt[len(flt) // 2] if flt else []}
    return ex


def replay(ctx, data) -> int:
    case = data.get("failing_input", {}).get("ops") or data.get("ops")
    if not case:
        print("replay file has no op sequence (proof/tie breakage without failing input):", data.get("broken"))
        return 1
    real = seqcheck.exec_real(Real, case)
    if relational_only(case):      # relational streams: real code only (setter-built vs fresh / closed form), no Lean driver
        for l, r in zip(case, real):
            print(f"{l}\n    real: setter-built {r[0]}\n          fresh        {r[1]}\n          relational   {r[2] if len(r) > 2 else []}")
        d = compare_relational(case, real)
        print("DISAGREEMENT" if d else "agrees", d or "")
        return 1 if d else 0
    resp = ctx.run_driver(DRIVER, case)
    for l, r, d in zip(case, real, resp):
        print(f"{l}\n    real: setter-built {r[0]}\n          fresh        {r[1]}\n          relational   {r[2] if len(r) > 2 else []}\n    lean: {d}")
    d = compare_case(case, real, resp)
    print("DISAGREEMENT" if d else "agrees", d or "")
    return 1 if d else 0
