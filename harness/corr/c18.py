"""C18 — delay-adjusted and kernel STDP agree with their formula and with each other.

Tie: the half kernels are GENERATED from /repo (`Gen/StdKernels{R,F}.lean`, validated against the Python
originals on every run); the trainers' `forward` (EventReducer fold, `t_delta`, branch masks, `nansum`,
clamp split, routing tables, signal handling) is hand-modelled in `Model/DelaySTDP.lean` (ℝ, theorems) /
`Model/DelaySTDPF.lean` (Float, executed by `drivers/C18.lean`; the two definition blocks are checked to
be textually identical) and compared with the REAL trainers on real `Serial` layers (post spikes forced
through `ExactNeuron(override=…)`, so the known finding D4 on `neuron.spike` does not interfere) after
every trainer step.
Search: (a) code vs the driver's `S` stream — the documented function of the TRUE most-recent spike
times; (b) cross-implementation differentials on the real code: DelayAdjustedKernelSTDP(D) with the
shipped exponential kernels vs DelayAdjustedSTDP(D) with the same rates / time constants, and, with all
delays zero, the delay-adjusted rules vs the unadjusted KernelSTDP (delayed and frozen modes); (c) configurations:
per-cell overrides given to register_cell (learning rates of either sign, time constants, batch reduction — the
constructor arguments are only defaults) and several cells of a multi-connection / multi-group Biclique layer trained
by one trainer, each cell judged against the `S` stream of its OWN spike trains and effective hyper-parameters (cells
sharing a connection: the sum of their documented updates); (d) episodes: the trainer cleared once or twice mid-run
(`clear()` / `clear(keepshape=True)`, which may replace the monitors' storage), on single cells and on the multi-cell
configurations, with `inplace` (records written in place — an implementation option that never changes the documented update)
off, given to the constructor, or overridden per cell either way round; every episode judged from the spikes since the last clear.
"""
from __future__ import annotations

import numpy as np
import torch

from inferno.extra import ExactNeuron
from inferno.functional import exp_stdp_post_kernel, exp_stdp_pre_kernel
from inferno.learn import (DelayAdjustedKernelSTDP, DelayAdjustedKernelSTDPD, DelayAdjustedMSTDP, DelayAdjustedMSTDPD,
                           DelayAdjustedSTDP, DelayAdjustedSTDPD, KernelSTDP)
from inferno.neural import Biclique, Conv2D, DeltaCurrent, LinearDense, LinearDirect, LinearLateral, Serial

import transval
from runner import Exploration, Finding
from transval import hx
from corr import c08 as base
from corr.c08 import bitrows, bits_tensor, close, flat, geom_sizes, parse_stream, trains, weight_fields

SPEC = {
    "prop": "C18",
    "lean_targets": ["InfernoVerif.Props.C18", "InfernoVerif.Props.C09Glue", "InfernoVerif.Props.C18Glue", "InfernoVerif.Props.C18GlueProg", "InfernoVerif.Model.DelaySTDPF", "InfernoVerif.Gen.Dispatch"],
    "prop_files": ["InfernoVerif/Props/C18.lean", "InfernoVerif/Props/C09Glue.lean", "InfernoVerif/Props/C18Glue.lean", "InfernoVerif/Props/C18GlueProg.lean"],
    "lemma_files": ["InfernoVerif/Lemmas/DelaySTDP.lean"],
    "model_files": ["InfernoVerif/Model/DelaySTDP.lean", "InfernoVerif/Model/DelaySTDPF.lean",
                    "InfernoVerif/Model/STDP.lean", "InfernoVerif/Model/STDPF.lean",
                    "InfernoVerif/Gen/StdKernelsR.lean", "InfernoVerif/Gen/StdKernelsF.lean"],
    "translate": ["StdKernels", "Trace", "Routes", "DelaySTDPSites", "DelaySTDPProg"],
    "driver_targets": ["InfernoVerif.Model.DelaySTDPF", "InfernoVerif.Gen.Dispatch"],
    "assumptions": [
        "theorems are over exact reals; the driver executes the same definitions over IEEE doubles; step times and externally set delays are dyadic so that "
        "event times and the branch decision t_delta >= 0 are exact; values are compared to 1e-9 relative — partial (float)",
        "post spikes are forced with ExactNeuron(override=…) (known finding D4 on neuron.spike with refrac_t == 0 is avoided, not excused)",
        "the delay in effect at each step is an input of the model (for the delay-learning variants it is read back from the real connection "
        "after update(), checked against previous delay + net update, and clamped into [0, delayedby] by the harness)",
        "batch reductions torch.sum and torch.mean; no parameter bounding on the updater; CPU, float64",
    ],
}
DRIVER = "drivers/C18.lean"
SIGNS = [(1, -1), (-1, 1), (1, 1), (-1, -1)]
# variant → (driver name, updater target, needs signal)
VARIANTS = {"da": ("da", "weight"), "dak": ("dak", "weight"), "dad": ("dad", "delay"), "dakd": ("dakd", "delay"),
            "k": ("k", "weight"), "kd": ("k", "weight"),          # KernelSTDP frozen / delayed mode (zero delays only)
            "dam-s": ("dam", "weight"), "dam-t": ("dam", "weight"), "damd-s": ("damd", "delay"), "damd-t": ("damd", "delay")}
KERNEL = {"dak", "dakd", "k", "kd"}        # always hand both parts to the updater: None ≡ 0


def defs_identical():
    a, b = base.defs_block("InfernoVerif/Model/DelaySTDP.lean"), base.defs_block("InfernoVerif/Model/DelaySTDPF.lean")
    return a is not None and a == b and base.defs_identical()


# --------------------------------------------------------------------------------------------------
def make_case(rng, variants, sign, conn, geom, B, T, red, mode, zero_delay=False, pre=None, post=None, signal_mode=None, dt=None):
    """mode: 'end' (accumulate, update at the end) | 'each' (update() after every step; the D variants then LEARN their delays)
             | 'sched' (delays reset by the harness before every step, update at the end)"""
    nin, nout, nw = geom_sizes(conn, geom)
    dt = rng.choice([0.5, 1.0, 2.0]) if dt is None else dt
    mag = lambda: rng.choice([0.125, 0.25, 0.5, 1.0, 0.75])
    tc = lambda: rng.choice([2.0, 4.0, 5.0, 10.0, 20.0])
    D = rng.choice([2, 3, 4])
    n = geom.get("n")

    def mask(v):
        return [0.0 if (conn == "lateral" and (i // n) == (i % n)) else x for i, x in enumerate(v)]

    def rand_delays():
        if zero_delay:
            return [0.0] * nw
        return mask([rng.randint(0, 2 * D) * dt / 2 for _ in range(nw)])       # half-step grid: off-grid delays included

    d0 = rand_delays()
    sched = [rand_delays() if mode == "sched" else d0 for _ in range(T)]
    sig = None
    if signal_mode:
        scale = rng.choice([1.0, 0.5, 2.0, -0.5])
        vals = [1.0, -1.0, 0.5, -0.5, 2.0, -0.25, 0.0]
        sig = ({"mode": "scalar", "scale": scale, "v": [rng.choice(vals) for _ in range(T)]} if signal_mode == "scalar"
               else {"mode": "tensor", "scale": scale, "v": [[rng.choice(vals) for _ in range(B)] for _ in range(T)]})
    return {"variants": variants, "params": dict(dt=dt, lrPos=sign[0] * mag(), lrNeg=sign[1] * mag(), tcPos=tc(), tcNeg=tc()),
            "conn": conn, "geom": geom, "B": B, "T": T, "D": D, "delays": sched, "red": red, "mode": mode,
            "pre": pre if pre is not None else bitrows(rng, T, B, nin, rng.choice([0.2, 0.4, 0.6])),
            "post": post if post is not None else bitrows(rng, T, B, nout, rng.choice([0.2, 0.4, 0.6])),
            "signal": sig}


def set_ktensor(rng, case, kind):
    """give the kernel trainers of the case their learning rates / time constants as tensors:
    '0d' = 0-d tensors, 'const' = weight-shaped (broadcastable) constant tensors, 'perw' = per-weight values"""
    case["ktensor"] = kind
    if kind == "perw":
        nw = geom_sizes(case["conn"], case["geom"])[2]
        p = case["params"]
        sgn = lambda x: 1.0 if x >= 0 else -1.0
        case["kparams"] = {"lrPos": [sgn(p["lrPos"]) * rng.choice([0.125, 0.25, 0.5, 1.0]) for _ in range(nw)],
                           "lrNeg": [sgn(p["lrNeg"]) * rng.choice([0.125, 0.25, 0.5, 1.0]) for _ in range(nw)],
                           "tcPos": [rng.choice([2.0, 4.0, 5.0, 10.0, 20.0]) for _ in range(nw)],
                           "tcNeg": [rng.choice([2.0, 4.0, 5.0, 10.0, 20.0]) for _ in range(nw)]}
    return case


def build_conn(case):
    """the connection of a case (default updater attached) and its output shape"""
    p, geom, conn, B = case["params"], case["geom"], case["conn"], case["B"]
    dt = p["dt"]
    delay = case["D"] * dt
    syn = DeltaCurrent.partialconstructor(1.0)
    if conn == "dense":
        c = LinearDense((geom["nin"],), (geom["nout"],), dt, synapse=syn, delay=delay, batch_size=B)
        outshape = (geom["nout"],)
    elif conn == "direct":
        c = LinearDirect((geom["n"],), dt, synapse=syn, delay=delay, batch_size=B)
        outshape = (geom["n"],)
    elif conn == "lateral":
        c = LinearLateral((geom["n"],), dt, synapse=syn, delay=delay, batch_size=B)
        outshape = (geom["n"],)
    else:
        c = Conv2D(geom["H"], geom["W"], geom["C"], geom["F"], dt, geom["K"], stride=geom["stride"],
                   synapse=syn, delay=delay, batch_size=B)
        outshape = tuple(c.outshape)
    c.updater = c.defaultupdater()
    return c, outshape


REDUCTIONS = {"sum": torch.sum, "mean": torch.mean}
HYPER = {"lrPos": "lr_pos", "lrNeg": "lr_neg", "tcPos": "tc_pos", "tcNeg": "tc_neg"}


def kernel_sides(variant, kpos, kneg):
    """the keyword names under which the kernel trainers take the causal ('pos') and acausal ('neg') parameter dicts"""
    if variant == "dakd":     # the causal branch of the delay rule carries lr_neg / tc_neg
        return {"kernel_post_kwargs": kneg, "kernel_pre_kwargs": kpos}
    return {"kernel_post_kwargs": kpos, "kernel_pre_kwargs": kneg}


INPLACE = [None, "trainer", "cell", "cell-off"]


def inplace_flags(mode):
    """how a cell comes to write its monitors' records in place (`inplace` is a constructor default that register_cell may
    override, like every other hyper-parameter; it is an implementation option and never changes the documented update):
    None = nowhere | 'trainer' = constructor default True | 'cell' = register_cell(inplace=True) under a default-False trainer
    | 'cell-off' = register_cell(inplace=False) under a default-True trainer   → (constructor value, register_cell kwargs)"""
    return {None: (False, {}), "trainer": (True, {}), "cell": (False, {"inplace": True}), "cell-off": (True, {"inplace": False})}[mode]


def make_trainer(variant, p, red, kpos=None, kneg=None, inplace=False):
    """the trainer of a variant with CONSTRUCTOR hyper-parameters p (the defaults of every cell registered without overrides)"""
    kw = dict(batch_reduction=REDUCTIONS[red])
    if inplace:
        kw["inplace"] = True
    rates = {HYPER[k]: p[k] for k in HYPER}
    kpos = kpos if kpos is not None else {"learning_rate": p["lrPos"], "time_constant": p["tcPos"]}
    kneg = kneg if kneg is not None else {"learning_rate": p["lrNeg"], "time_constant": p["tcNeg"]}
    if variant == "da":
        return DelayAdjustedSTDP(**rates, **kw)
    if variant == "dad":
        return DelayAdjustedSTDPD(**rates, **kw)
    if variant == "dak":
        return DelayAdjustedKernelSTDP(exp_stdp_post_kernel, exp_stdp_pre_kernel, **kernel_sides(variant, kpos, kneg), **kw)
    if variant == "dakd":
        return DelayAdjustedKernelSTDPD(exp_stdp_post_kernel, exp_stdp_pre_kernel, **kernel_sides(variant, kpos, kneg), **kw)
    if variant in ("k", "kd"):
        return KernelSTDP(exp_stdp_post_kernel, exp_stdp_pre_kernel, **kernel_sides(variant, kpos, kneg), delayed=(variant == "kd"), **kw)
    if variant.startswith("damd"):
        return DelayAdjustedMSTDPD(**rates, **kw)
    return DelayAdjustedMSTDP(**rates, **kw)


def build(case, variant):
    p = case["params"]
    c, outshape = build_conn(case)
    layer = Serial(c, ExactNeuron(outshape, p["dt"], rest_v=-60.0, thresh_v=-45.0, batch_size=case["B"]))
    kpos = kneg = None
    kt = case.get("ktensor")
    if kt and variant in KERNEL:       # kernel hyper-parameters given as TENSORS (registered as buffers by the trainers)
        wshape = tuple(c.weight.shape) + (1,)

        def tens(name):
            if kt == "0d":
                return torch.tensor(p[name], dtype=torch.float64)
            if kt == "const":
                return torch.full(wshape, p[name], dtype=torch.float64)
            return torch.tensor(case["kparams"][name], dtype=torch.float64).reshape(wshape)
        kpos = {"learning_rate": tens("lrPos"), "time_constant": tens("tcPos")}
        kneg = {"learning_rate": tens("lrNeg"), "time_constant": tens("tcNeg")}
    ctor_inplace, cell_kw = inplace_flags(case.get("inplace"))
    tr = make_trainer(variant, p, case["red"], kpos, kneg, inplace=ctor_inplace)
    tr.register_cell("cell", layer.cell, **cell_kw)
    return layer, tr, outshape


def run_real(case, variant):
    """→ {'steps': [(pos, neg, param_after_update|None)], 'p0', 'delays': per-step delay in effect} or {'exc', 'step'}"""
    torch.set_default_dtype(torch.float64)
    target = VARIANTS[variant][1]
    out = {"steps": [], "delays": []}
    t = -1
    try:
        with torch.no_grad():
            layer, tr, outshape = build(case, variant)
            conn = layer.connection
            inshape = tuple(conn.inshape)
            dmax = case["D"] * case["params"]["dt"]
            sig = case["signal"]
            learn = case["mode"] == "each" and target == "delay"
            conn.delay = torch.tensor(case["delays"][0], dtype=torch.float64).reshape(conn.delay.shape)
            out["p0"] = flat(getattr(conn, target))
            for t in range(case["T"]):
                for ct, keep in clears_of(case):    # next EPISODE: every event time must be NaN again
                    if ct == t:
                        tr.clear(keepshape=True) if keep else tr.clear()
                if not learn:
                    conn.delay = torch.tensor(case["delays"][t], dtype=torch.float64).reshape(conn.delay.shape)
                out["delays"].append(flat(conn.delay))
                layer(bits_tensor(case["pre"][t], inshape), neuron_kwargs={"override": bits_tensor(case["post"][t], outshape).bool()})
                if sig is None:
                    tr()
                elif sig["mode"] == "scalar":
                    tr(sig["v"][t], scale=sig["scale"])
                else:
                    tr(torch.tensor(sig["v"][t], dtype=torch.float64), scale=sig["scale"])
                acc = getattr(layer.cell.updater, target)
                pos, neg = flat(acc.pos), flat(acc.neg)
                par = None
                if case["mode"] == "each" or t == case["T"] - 1:
                    conn.update()
                    par = flat(getattr(conn, target))
                    if learn:       # keep learned delays inside what the connection supports
                        conn.delay = conn.delay.clamp(0.0, dmax)
                out["steps"].append((pos, neg, par))
    except Exception as e:
        out["exc"] = f"{type(e).__name__}: {e}"
        out["step"] = t
    return out


def clears_of(case):
    """[(step before which trainer.clear is called, keepshape)] in step order: `clear_at` / `clear_keep` (one clear) and / or
    `clears` (any number of them, each with its own keepshape)"""
    out = [(int(t), bool(k)) for t, k in (case.get("clears") or [])]
    if case.get("clear_at") is not None:
        out.append((int(case["clear_at"]), bool(case.get("clear_keep"))))
    return sorted(set(out))


def episode_bounds(case):
    cuts = sorted({t for t, _ in clears_of(case) if 0 < t < case["T"]})
    return list(zip([0] + cuts, cuts + [case["T"]]))


def clears_text(case):
    return "; ".join(f"trainer.clear({'keepshape=True' if k else ''}) before step {t}" for t, k in clears_of(case))


def inplace_text(case):
    m = case.get("inplace")
    return "" if not m else {"trainer": "; trainer constructed with inplace=True", "cell": "; cell registered with inplace=True",
                             "cell-off": "; trainer constructed with inplace=True, cell registered with inplace=False"}[m]


def episode_slice(case, a, b):
    c = dict(case)
    c.update({"T": b - a, "pre": case["pre"][a:b], "post": case["post"][a:b], "delays": case["delays"][a:b], "clear_at": None, "clears": None})
    if case["signal"] is not None:
        c["signal"] = dict(case["signal"], v=case["signal"]["v"][a:b])
    return c


def request_lines(case, variant, delays):
    """delays: per step, per weight, the delay in effect (from the real run).  A run cleared in the middle is sent
    episode by episode (all weights of the first, then all weights of the second, ...)."""
    eps = episode_bounds(case)
    if len(eps) == 1:
        return request_lines1(case, variant, delays)
    lines = []
    for a, b in eps:
        lines += request_lines1(episode_slice(case, a, b), variant, delays[a:b])[0]
    return lines, request_lines1(case, variant, delays)[1]


def request_lines1(case, variant, delays):
    p, T, B = case["params"], case["T"], case["B"]
    pre, post = trains(case)
    fields = weight_fields(case)
    name = VARIANTS[variant][0]
    sig = case["signal"] if variant.startswith("dam") else None
    if sig is None:
        sg = "-"
    elif sig["mode"] == "scalar":
        sg = f"s:{hx(sig['scale'])}:" + ",".join(hx(v) for v in sig["v"])
    else:
        sg = f"t:{hx(sig['scale'])}:" + "/".join(",".join(hx(v) for v in row) for row in sig["v"])
    perw = case.get("ktensor") == "perw" and variant in KERNEL
    lines, tstr = [], []
    for w, fld in enumerate(fields):
        pw = {k: case["kparams"][k][w] for k in ("lrPos", "lrNeg", "tcPos", "tcNeg")} if perw else p
        head = [name] + [hx(pw[k]) for k in ("lrPos", "lrNeg", "tcPos", "tcNeg")] + [hx(p["dt"]), case["red"], str(T)]
        tr = ";".join(",".join(f"{pre[b][i]}:{post[b][o]}" for i, o in fld) for b in range(B))
        tstr.append(tr)
        ds = ",".join(hx(delays[t][w]) for t in range(T))
        lines.append(" ".join(head + [tr, ds, sg]))
    return lines, tstr


def tables_for(case, resp):
    eps = episode_bounds(case)
    if len(eps) == 1:
        return tables_of(resp, case["T"])
    nw = len(resp) // len(eps)
    parts = [tables_of(resp[i * nw:(i + 1) * nw], b - a) for i, (a, b) in enumerate(eps)]
    return {k: [np.concatenate([pt[k][j] for pt in parts], axis=1) for j in range(4)] for k in parts[0]}


def tables_of(resp, T):
    out = {}
    for name in ("M", "S"):
        out[name] = [np.zeros((len(resp), T)), np.zeros((len(resp), T), bool), np.zeros((len(resp), T)), np.zeros((len(resp), T), bool)]
    for w, r in enumerate(resp):
        if not r.startswith("M ") or " || S " not in r:
            raise RuntimeError(f"driver rejected a C18 request: {r!r}")
        m, s = r[2:].split(" || S ", 1)
        for name, txt in (("M", m), ("S", s)):
            a = parse_stream(txt.strip(), T)
            for k in range(4):
                out[name][k][w] = a[k]
    return out


def judge(case, variant, real, tables):
    """first disagreement per stream: (stream, weight, step, what, expected, observed)"""
    kernel = variant in KERNEL
    target = VARIANTS[variant][1]
    nw = tables["M"][0].shape[0]
    diag = None
    if case["conn"] == "lateral":
        n = case["geom"]["n"]
        diag = np.array([(i // n) == (i % n) for i in range(nw)])
    problems = []
    for name in ("S", "M"):
        pos, pm, neg, nm = tables[name]
        found = None
        cpos, cneg = np.zeros(nw), np.zeros(nw)
        cpm, cnm = np.zeros(nw, bool), np.zeros(nw, bool)
        pexp = real["p0"].copy()
        for t in range(len(real["steps"])):
            rp, rn, rpar = real["steps"][t]
            if case["mode"] == "each":
                cpos, cneg, cpm, cnm = pos[:, t].copy(), neg[:, t].copy(), pm[:, t].copy(), nm[:, t].copy()
            else:
                cpos, cneg, cpm, cnm = cpos + pos[:, t], cneg + neg[:, t], cpm | pm[:, t], cnm | nm[:, t]
            for label, exp, em, obs in (("pos", cpos, cpm, rp), ("neg", cneg, cnm, rn)):
                if obs is None:
                    if em.any() and not kernel:
                        w = int(np.argmax(em))
                        found = (name, w, t, f"accumulator {label} is None", float(exp[w]), None)
                        break
                    if kernel:
                        found = (name, 0, t, f"accumulator {label} is None (kernel trainers always hand both parts)", None, None)
                        break
                    continue
                if obs.shape != exp.shape:
                    found = (name, 0, t, f"accumulator {label} has {obs.size} elements, the parameter has {nw}", None, None)
                    break
                if not kernel and not em.all():
                    w = int(np.argmin(em))
                    found = (name, w, t, f"accumulator {label} should be None", None, float(obs[w]))
                    break
                ok = close(exp, obs)
                if not ok.all():
                    w = int(np.argmin(ok))
                    found = (name, w, t, f"accumulator {label}", float(exp[w]), float(obs[w]))
                    break
            if found:
                break
            if rpar is not None:
                if target == "delay":
                    pexp = real["delays"][t] + (cpos - cneg)          # from the delay in effect at this step
                else:
                    pexp = pexp + (cpos - cneg)
                if diag is not None:
                    pexp = np.where(diag, 0.0, pexp)
                ok = close(pexp, rpar)
                if not ok.all():
                    w = int(np.argmin(ok))
                    found = (name, w, t, f"{target} after update()", float(pexp[w]), float(rpar[w]))
                    break
        if found:
            problems.append(found)
    return problems


def differential(case, a, b, ra, rb):
    """accumulators of two real trainers that must agree (None ≡ 0): first disagreement or None"""
    for t, (sa, sb) in enumerate(zip(ra["steps"], rb["steps"])):
        for label, xa, xb in (("pos", sa[0], sb[0]), ("neg", sa[1], sb[1])):
            if xa is None and xb is None:
                continue
            n = (xa if xa is not None else xb).shape
            va = xa if xa is not None else np.zeros(n)
            vb = xb if xb is not None else np.zeros(n)
            if va.shape != vb.shape:
                return (t, 0, label, None, None)
            ok = close(va, vb)
            if not ok.all():
                w = int(np.argmin(ok))
                return (t, w, label, float(va[w]), float(vb[w]))
    return None


NAMES = {"da": "DelayAdjustedSTDP", "dak": "DelayAdjustedKernelSTDP(exp kernels)", "dad": "DelayAdjustedSTDPD",
         "dakd": "DelayAdjustedKernelSTDPD(exp kernels)", "k": "KernelSTDP(exp kernels, frozen)", "kd": "KernelSTDP(exp kernels, delayed)",
         "dam-s": "DelayAdjustedMSTDP(scalar signal)", "dam-t": "DelayAdjustedMSTDP(per-sample signal)",
         "damd-s": "DelayAdjustedMSTDPD(scalar signal)", "damd-t": "DelayAdjustedMSTDPD(per-sample signal)"}
PAIRS = [("da", "dak", "kernel-vs-dedicated"), ("dad", "dakd", "kernel-vs-dedicated"),
         ("da", "k", "delay-zero-vs-unadjusted"), ("da", "kd", "delay-zero-vs-unadjusted"), ("dak", "k", "delay-zero-vs-unadjusted")]


def describe(case, w, tstr, delays):
    return {"params": case["params"], "connection": case["conn"], "geometry": case["geom"], "batch": case["B"], "reduction": case["red"],
            "mode": case["mode"], "signal": case["signal"], "weight_index": w, "kernel_kwargs_as": case.get("ktensor") or "floats",
            "kernel_params_of_this_weight": ({k: case["kparams"][k][w] for k in case["kparams"]} if case.get("ktensor") == "perw" else None),
            "trainer_cleared_before_step": case.get("clear_at"), "clear_keepshape": case.get("clear_keep"),
            "trainer_clears (before step, keepshape)": clears_of(case), "inplace_given_as": case.get("inplace"),
            "delay_of_this_weight_per_step_ms": [float(d[w]) for d in delays],
            "history(pre:post per field element, ';' between batch samples)": tstr}


def synapse_case(case, w, tstr):
    if len(weight_fields(case)[w]) != 1:
        return None
    T, B = case["T"], case["B"]
    per_b = [x.split(":") for x in tstr.split(";")]
    c = dict(case)
    if case.get("kparams"):
        c["kparams"] = {k: [v[w]] for k, v in case["kparams"].items()}
    c.update({"conn": "dense", "geom": {"nin": 1, "nout": 1}, "delays": [[d[w]] for d in case["delays"]],
              "pre": [[per_b[b][0][t] for b in range(B)] for t in range(T)],
              "post": [[per_b[b][1][t] for b in range(B)] for t in range(T)]})
    return c


# --------------------------------------------------------------------------------------------------
# SEVERAL CELLS UNDER ONE TRAINER, PER-CELL HYPER-PARAMETER OVERRIDES.  The property quantifies over configurations: a trainer
# holds any number of cells (of one layer that may own several connections and neuron groups), and its constructor arguments
# are defaults that register_cell(...) may override cell by cell.  Every cell must follow the documented rule of ITS OWN
# presynaptic / postsynaptic spike times, with ITS OWN (effective) learning rates — signs included —, time constants and batch
# reduction.  Cells that share a connection share its updater, whose accumulators then hold the sum of the cells' parts.
def make_multi(rng, variants, topo, mode, signal_mode=None, zero_delay=False, episodes=False):
    """topo: 'serial' (one Serial cell, registered with overrides) | 'biclique' (1-3 connections x 1-2 neuron groups, two or more
    of its cells registered — in random order — with one trainer)"""
    dt = rng.choice([0.5, 1.0, 2.0])
    B, T = rng.choice([1, 2, 3]), rng.randint(5, 10)
    nout = rng.randint(1, 3)
    if topo == "serial":
        nc, ng = 1, 1
    else:
        nc, ng = rng.choice([(2, 2), (2, 2), (2, 1), (1, 2), (3, 1), (3, 2)])
    same_in = rng.random() < 0.6            # connections of one shape (so that their monitors are interchangeable) or of different shapes
    nin0 = rng.randint(1, 3)
    proto = make_case(rng, variants, SIGNS[rng.randrange(4)], "dense", {"nin": 1, "nout": 1}, B, T, "sum", mode, zero_delay=zero_delay,
                      signal_mode=signal_mode, dt=dt)
    conns = []
    for _ in range(nc):
        kind = rng.choice(["dense", "dense", "dense", "direct", "lateral"]) if nout > 1 else "dense"
        geom = {"nin": nin0 if same_in else rng.randint(1, 3), "nout": nout} if kind == "dense" else {"n": nout}
        c = make_case(rng, variants, (1, 1), kind, geom, B, T, "sum", mode, zero_delay=zero_delay, dt=dt)
        conns.append({"conn": kind, "geom": geom, "D": c["D"], "delays": c["delays"], "pre": c["pre"]})
    groups = [{"post": bitrows(rng, T, B, nout, rng.choice([0.2, 0.4, 0.6]))} for _ in range(ng)]
    defaults = {"params": proto["params"], "red": rng.choice(["sum", "mean"])}
    pairs = [(i, j) for i in range(nc) for j in range(ng)]
    rng.shuffle(pairs)                       # registration order is part of the configuration
    pairs = pairs[:max(min(2, len(pairs)), rng.randint(1, len(pairs)))]
    cells = []
    for ci, gj in pairs:
        over = [k for k in ("lrPos", "lrNeg", "tcPos", "tcNeg", "red") if rng.random() < 0.4] if rng.random() < 0.75 else []
        if topo == "serial" and not any(k.startswith("lr") for k in over):
            over = sorted(set(over) | {rng.choice(["lrPos", "lrNeg"])})
        eff, red = dict(defaults["params"]), defaults["red"]
        for k in over:
            if k == "red":
                red = rng.choice(["sum", "mean"])
            elif k.startswith("lr"):        # either sign, whatever the sign of the trainer's default
                eff[k] = rng.choice([1.0, -1.0]) * rng.choice([0.125, 0.25, 0.5, 1.0, 0.75])
            else:
                eff[k] = rng.choice([2.0, 4.0, 5.0, 10.0, 20.0])
        cells.append({"connection": ci, "group": gj, "override": over, "params": eff, "red": red})
    mc = {"multi": topo, "variants": variants, "dt": dt, "B": B, "T": T, "mode": mode, "signal": proto["signal"],
          "trainer_defaults": defaults, "connections": conns, "groups": groups, "cells": cells}
    if episodes:
        # `inplace` is a constructor default / per-cell override like the others; the trainer is cleared once or twice mid-run
        defaults["inplace"] = rng.random() < 0.4
        for cell in cells:
            if rng.random() < 0.5:
                cell["inplace"] = rng.random() < 0.7
                cell["override"] = cell["override"] + ["inplace"]
        nclr = rng.choice([1, 1, 2])
        mc["clears"] = sorted((t, rng.random() < 0.4) for t in rng.sample(range(1, T - 1), nclr))
    return mc


def cell_case(mc, k):
    """cell k of a multi-cell configuration as a stand-alone single-cell case: its own connection, its own neuron group, its
    EFFECTIVE hyper-parameters (trainer defaults overlaid with its overrides) — what the property says it must behave like"""
    cell = mc["cells"][k]
    cc, g = mc["connections"][cell["connection"]], mc["groups"][cell["group"]]
    return {"variants": mc["variants"], "params": cell["params"], "conn": cc["conn"], "geom": cc["geom"], "B": mc["B"], "T": mc["T"],
            "D": cc["D"], "delays": cc["delays"], "red": cell["red"], "mode": mc["mode"], "pre": cc["pre"], "post": g["post"],
            "signal": mc["signal"], "clears": mc.get("clears")}


def override_kwargs(variant, cell):
    """register_cell keyword arguments of a cell: only what it overrides (the kernel trainers take a whole parameter dict per side)"""
    p, over = cell["params"], cell["override"]
    kw = {}
    if variant in KERNEL:
        sides = kernel_sides(variant, {"learning_rate": p["lrPos"], "time_constant": p["tcPos"]},
                             {"learning_rate": p["lrNeg"], "time_constant": p["tcNeg"]})
        inv = kernel_sides(variant, "pos", "neg")
        for name, side in inv.items():
            if any(k in over for k in (("lrPos", "tcPos") if side == "pos" else ("lrNeg", "tcNeg"))):
                kw[name] = sides[name]
    else:
        kw = {HYPER[k]: p[k] for k in over if k in HYPER}
    if "red" in over:
        kw["batch_reduction"] = REDUCTIONS[cell["red"]]
    if "inplace" in over:
        kw["inplace"] = bool(cell["inplace"])
    return kw


def run_real_multi(mc, variant):
    """→ {'conns': [per connection, run_real's format]} or {'exc', 'step'}"""
    torch.set_default_dtype(torch.float64)
    target = VARIANTS[variant][1]
    nc = len(mc["connections"])
    outs = [{"steps": [], "delays": []} for _ in range(nc)]
    res = {"conns": outs}
    t = -1
    try:
        with torch.no_grad():
            dt, B, sig = mc["dt"], mc["B"], mc["signal"]
            conns, outshape = [], None
            for cc in mc["connections"]:
                c, outshape = build_conn({"params": {"dt": dt}, "geom": cc["geom"], "conn": cc["conn"], "B": B, "D": cc["D"]})
                conns.append(c)
            neurons = [ExactNeuron(outshape, dt, rest_v=-60.0, thresh_v=-45.0, batch_size=B) for _ in mc["groups"]]
            if mc["multi"] == "serial":
                layer = Serial(conns[0], neurons[0])
                get = lambda ci, gj: layer.cell                                       # noqa: E731
            else:
                layer = Biclique([(f"c{i}", c) for i, c in enumerate(conns)], [(f"n{j}", n) for j, n in enumerate(neurons)])
                get = lambda ci, gj: layer.get_cell(f"c{ci}", f"n{gj}")               # noqa: E731
            tr = make_trainer(variant, mc["trainer_defaults"]["params"], mc["trainer_defaults"]["red"],
                              inplace=bool(mc["trainer_defaults"].get("inplace")))
            for k, cell in enumerate(mc["cells"]):
                tr.register_cell(f"cell{k}", get(cell["connection"], cell["group"]), **override_kwargs(variant, cell))
            learn = mc["mode"] == "each" and target == "delay"
            for cc, c, o in zip(mc["connections"], conns, outs):
                c.delay = torch.tensor(cc["delays"][0], dtype=torch.float64).reshape(c.delay.shape)
                o["p0"] = flat(getattr(c, target))
            for t in range(mc["T"]):
                for ct, keep in clears_of(mc):
                    if ct == t:
                        tr.clear(keepshape=True) if keep else tr.clear()
                for cc, c, o in zip(mc["connections"], conns, outs):
                    if not learn:
                        c.delay = torch.tensor(cc["delays"][t], dtype=torch.float64).reshape(c.delay.shape)
                    o["delays"].append(flat(c.delay))
                posts = [bits_tensor(g["post"][t], outshape).bool() for g in mc["groups"]]
                if mc["multi"] == "serial":
                    layer(bits_tensor(mc["connections"][0]["pre"][t], tuple(conns[0].inshape)), neuron_kwargs={"override": posts[0]})
                else:
                    layer({f"c{i}": (bits_tensor(cc["pre"][t], tuple(c.inshape)),) for i, (cc, c) in enumerate(zip(mc["connections"], conns))},
                          neuron_kwargs={f"n{j}": {"override": x} for j, x in enumerate(posts)})
                if sig is None:
                    tr()
                elif sig["mode"] == "scalar":
                    tr(sig["v"][t], scale=sig["scale"])
                else:
                    tr(torch.tensor(sig["v"][t], dtype=torch.float64), scale=sig["scale"])
                for cc, c, o in zip(mc["connections"], conns, outs):
                    acc = getattr(c.updater, target)
                    pos, neg = flat(acc.pos), flat(acc.neg)
                    par = None
                    if mc["mode"] == "each" or t == mc["T"] - 1:
                        c.update()
                        par = flat(getattr(c, target))
                        if learn:
                            c.delay = c.delay.clamp(0.0, cc["D"] * dt)
                    o["steps"].append((pos, neg, par))
    except Exception as e:
        res["exc"] = f"{type(e).__name__}: {e}"
        res["step"] = t
    return res


def cells_on(mc, ci):
    return [k for k, cell in enumerate(mc["cells"]) if cell["connection"] == ci]


def sum_tables(tabs):
    """accumulators of a connection shared by several cells: values add, a part is present when any cell hands it"""
    out = {}
    for name in ("M", "S"):
        pos, pm, neg, nm = (np.copy(x) for x in tabs[0][name])
        for tb in tabs[1:]:
            pos, pm, neg, nm = pos + tb[name][0], pm | tb[name][1], neg + tb[name][2], nm | tb[name][3]
        out[name] = [pos, pm, neg, nm]
    return out


def multi_requests(mc, variant, real):
    """driver requests of every registered cell (its own trains, effective hyper-parameters, the delays of its connection)"""
    lines, spans, tstrs = [], {}, {}
    for k, cell in enumerate(mc["cells"]):
        l, tstrs[k] = request_lines(cell_case(mc, k), variant, real["conns"][cell["connection"]]["delays"])
        spans[k] = (len(lines), len(lines) + len(l))
        lines += l
    return lines, spans, tstrs


def judge_multi(mc, variant, real, resp, spans, tstrs):
    """[(connection, stream, weight, step, what, expected, observed, per-cell history strings)] — each connection's accumulators and
    parameter against the sum of the documented updates of the cells registered on it"""
    out = []
    for ci in range(len(mc["connections"])):
        ks = cells_on(mc, ci)
        if not ks:
            continue
        tables = sum_tables([tables_for(cell_case(mc, k), resp[spans[k][0]:spans[k][1]]) for k in ks])
        for name, w, t, what, exp, obs in judge(cell_case(mc, ks[0]), variant, real["conns"][ci], tables):
            out.append((ci, name, w, t, what, exp, obs, {f"cell{k}": tstrs[k][w] for k in ks}))
    return out


def describe_multi(mc, ci, w, hist, delays):
    return {"layer": mc["multi"], "trainer_defaults": mc["trainer_defaults"], "connection_index": ci, "weight_index": w,
            "connection": mc["connections"][ci]["conn"], "geometry": mc["connections"][ci]["geom"],
            "cells_in_registration_order": [{"connection": c["connection"], "neuron_group": c["group"], "overrides": c["override"],
                                             "effective_params": c["params"], "effective_reduction": c["red"],
                                             "effective_inplace": bool(c.get("inplace", mc["trainer_defaults"].get("inplace", False)))}
                                            for c in mc["cells"]],
            "trainer_clears (before step, keepshape)": clears_of(mc),
            "delay_of_this_weight_per_step_ms": [float(d[w]) for d in delays],
            "history of this weight per cell on the connection (pre:post, ';' between batch samples)": hist}


class Runner:
    def __init__(self, ctx, ex):
        self.ctx, self.ex, self.cases = ctx, ex, []

    def add(self, case, family):
        self.cases.append((case, family))
        if len([s for s in self.ex.samples if s["family"] == family]) < 1 and geom_sizes(case["conn"], case["geom"])[2] <= 16:
            self.ex.samples.append({"family": family, **case})

    def add_multi(self, mc, family):
        self.cases.append((mc, family))
        if len([s for s in self.ex.samples if s.get("family") == family]) < 1:
            self.ex.samples.append({"family": family, **mc})

    def flush(self):
        ctx, ex = self.ctx, self.ex
        all_lines, plan = [], []
        for case, family in self.cases:
            multi = bool(case.get("multi"))
            reals = {v: (run_real_multi if multi else run_real)(case, v) for v in case["variants"]}
            spans = {}
            tstr = None
            for v, real in reals.items():
                if "exc" in real:
                    continue
                if multi:
                    lines, sp, tstr = multi_requests(case, v, real)
                    spans[v] = (len(all_lines), len(all_lines) + len(lines), sp, tstr)
                else:
                    lines, tstr = request_lines(case, v, real["delays"])
                    spans[v] = (len(all_lines), len(all_lines) + len(lines))
                all_lines += lines
            plan.append((case, family, reals, spans, tstr))
        resp = ctx.run_driver(DRIVER, all_lines) if all_lines else []
        for case, family, reals, spans, tstr in plan:
            if case.get("multi"):
                self.judge_case_multi(case, family, reals, {v: (resp[sp[0]:sp[1]], sp[2], sp[3]) for v, sp in spans.items()})
            else:
                self.judge_case(case, family, reals, {v: resp[a:b] for v, (a, b) in spans.items()}, tstr)
        self.cases = []

    def judge_case_multi(self, mc, family, reals, resps):
        ex = self.ex
        ex.traces_validated += 1
        ex.count("family", family)
        ex.count("mode", mc["mode"])
        ex.count("batch", str(mc["B"]))
        ex.count("layer", f"{mc['multi']} {len(mc['connections'])}x{len(mc['groups'])}, {len(mc['cells'])} cell(s) registered")
        dfl = mc["trainer_defaults"]
        dp = dfl["params"]
        for _, keep in clears_of(mc):
            ex.count("episodes", "clear(keepshape=True)" if keep else "clear()")
        if clears_of(mc):
            ex.count("clears_per_run", str(len(clears_of(mc))))
        for cell in mc["cells"]:
            eff_in = bool(cell.get("inplace", dfl.get("inplace", False)))
            ex.count("inplace", ("per-cell override " if "inplace" in cell else "trainer default ") + str(eff_in) if "inplace" in dfl else "no")
            ex.count("connection", mc["connections"][cell["connection"]]["conn"])
            ex.count("reduction", cell["red"])
            flips = [k for k in ("lrPos", "lrNeg") if k in cell["override"] and (cell["params"][k] >= 0) != (dp[k] >= 0)]
            ex.count("per_cell_override", ("sign of " + "+".join(flips) + " flipped") if flips else
                     ("same signs" if cell["override"] else "none"))
        shared = len({c["connection"] for c in mc["cells"]}) < len(mc["cells"])
        for v, real in reals.items():
            ex.count("variant", v)
            who = f"{NAMES[v]} on a {mc['multi']} layer ({len(mc['connections'])} connection(s) x {len(mc['groups'])} neuron group(s), cells " + \
                  ", ".join(f"(c{c['connection']}, n{c['group']})" + (f" overriding {'/'.join(c['override'])}" if c["override"] else "")
                            for c in mc["cells"]) + ")" + \
                  (f", trainer default inplace={bool(dfl.get('inplace'))}" if "inplace" in dfl else "") + (f", {clears_text(mc)}" if clears_of(mc) else "")
            if "exc" in real:
                self.add_finding("spec", f"C18:multi-cell:raises:{v}", f"{who} raised {real['exc']} at step {real['step']} instead of producing an update",
                                 {"case": dict(mc, variants=[v]), "raised": real["exc"], "step": real["step"]}, 2)
                continue
            resp, spans, tstrs = resps[v]
            for k, cell in enumerate(mc["cells"]):
                delays = real["conns"][cell["connection"]]["delays"]
                ex.evaluations += len(tstrs[k]) * mc["T"]
                cfgkey = (v, "multi", tuple(sorted(cell["params"].items())), cell["red"], mc["B"], repr(mc["signal"]) if v.startswith("dam") else "",
                          tuple(clears_of(mc)), bool(cell.get("inplace", dfl.get("inplace", False))))
                for w, s in enumerate(tstrs[k]):
                    if any("1" in x.split(":")[0] and "1" in x.split(":")[1] for f in s.split(";") for x in f.split(",")):
                        ex.nontriv((cfgkey, tuple(float(d[w]) for d in delays), s))
            for ci, name, w, t, what, exp, obs, hist in judge_multi(mc, v, real, resp, spans, tstrs):
                kindf = "spec" if name == "S" else "model"
                key = f"C18:multi-cell:{'formula' if name == 'S' else 'model'}:{v.split('-')[0]}"
                stream = ("documented formula from each cell's OWN true last-spike times and effective hyper-parameters (S)" if name == "S"
                          else "code-shaped model (M)")
                self.add_finding(kindf, key, f"{who}: connection c{ci} {what} after step {t}: real {obs} vs {stream} {exp}"
                                 f"{' (sum over the cells sharing the connection)' if shared else ''} [histories {hist} "
                                 f"delays {[float(d[w]) for d in real['conns'][ci]['delays']]}]",
                                 {"case": dict(mc, variants=[v]), "weight": describe_multi(mc, ci, w, hist, real["conns"][ci]["delays"]),
                                  "step": t, "expected": exp, "observed": obs, "stream": name, "variant": v})
        for a, b, rel in PAIRS:
            if a in reals and b in reals and "exc" not in reals[a] and "exc" not in reals[b]:
                for ci in range(len(mc["connections"])):
                    ks = cells_on(mc, ci)
                    if not ks:
                        continue
                    ex.count("differential", f"{a}~{b}")
                    ex.evaluations += len(reals[a]["conns"][ci]["steps"])
                    d = differential(None, a, b, reals[a]["conns"][ci], reals[b]["conns"][ci])
                    if d:
                        t, w, label, va, vb = d
                        tstrs = resps[a][2]
                        hist = {f"cell{k}": tstrs[k][w] for k in ks}
                        self.add_finding("spec", f"C18:multi-cell:differential:{rel}:{a}~{b}",
                                         f"{NAMES[a]} and {NAMES[b]}, same multi-cell configuration, disagree on accumulator {label} of connection c{ci} "
                                         f"after step {t}: {va} vs {vb} [histories {hist}]",
                                         {"case": dict(mc, variants=[a, b]), "weight": describe_multi(mc, ci, w, hist, reals[a]["conns"][ci]["delays"]),
                                          "step": t, "first": va, "second": vb, "relation": rel})

    def add_finding(self, kind, key, what, payload, limit=3):
        if len([f for f in self.ex.findings if f.key == key]) < limit:
            self.ex.findings.append(Finding(kind, key, what, payload))

    def judge_case(self, case, family, reals, resps, tstr):
        ex = self.ex
        ex.traces_validated += 1
        ex.count("family", family)
        ex.count("connection", case["conn"])
        ex.count("mode", case["mode"])
        ex.count("reduction", case["red"])
        ex.count("batch", str(case["B"]))
        ex.count("kernel_kwargs", case.get("ktensor") or "floats")
        for _, keep in clears_of(case):
            ex.count("episodes", "clear(keepshape=True)" if keep else "clear()")
        if clears_of(case):
            ex.count("clears_per_run", str(len(clears_of(case))))
        ex.count("inplace", case.get("inplace") or "no")
        p = case["params"]
        ex.count("sign_mode", {(True, False): "hebbian", (False, True): "anti-hebbian", (True, True): "potentiative",
                               (False, False): "depressive"}[(p["lrPos"] >= 0, p["lrNeg"] >= 0)])
        for v, real in reals.items():
            ex.count("variant", v)
            if "exc" in real:
                self.add_finding("spec", f"C18:raises:{v}", f"{NAMES[v]} raised {real['exc']} at step {real['step']} instead of producing an update",
                                 {"case": dict(case, variants=[v]), "raised": real["exc"], "step": real["step"]}, 2)
                continue
            nw = len(tstr)
            ex.evaluations += nw * len(real["steps"])
            cfgkey = (v, tuple(sorted(p.items())), case["red"], case["B"], repr(case["signal"]) if v.startswith("dam") else "",
                      tuple(clears_of(case)), case.get("inplace"), case.get("ktensor"), repr(case.get("kparams")) if v in KERNEL else "")
            for w, s in enumerate(tstr):
                if any("1" in x.split(":")[0] and "1" in x.split(":")[1] for f in s.split(";") for x in f.split(",")):
                    ex.nontriv((cfgkey, tuple(float(d[w]) for d in real["delays"]), s))
            tables = tables_for(case, resps[v])
            for name, w, t, what, exp, obs in judge(case, v, real, tables):
                kindf = "spec" if name == "S" else "model"
                key = f"C18:{'formula' if name == 'S' else 'model'}:{v.split('-')[0]}"
                if len([f for f in ex.findings if f.key == key]) >= 3:
                    continue
                stream = "documented formula from the true last-spike times (S)" if name == "S" else "code-shaped model (M)"
                rep = dict(case, variants=[v])
                small = synapse_case(rep, w, tstr[w])
                if small is not None and case["mode"] != "each":
                    r2 = run_real(small, v)
                    if "exc" not in r2:
                        l2, _ = request_lines(small, v, r2["delays"])
                        if any(q[0] == name for q in judge(small, v, r2, tables_for(small, self.ctx.run_driver(DRIVER, l2)))):
                            rep = small
                self.add_finding(kindf, key, f"{NAMES[v]}: {what} after step {t}: real {obs} vs {stream} {exp} "
                                 f"[{case['conn']} history {tstr[w]} delays {[float(d[w]) for d in real['delays']]}" +
                                 (f"; {clears_text(case)}" if clears_of(case) else "") + inplace_text(case) +
                                 (f"; kernel kwargs as {case['ktensor']} tensors" if case.get("ktensor") and v in KERNEL else "") + "]",
                                 {"case": rep, "weight": describe(case, w, tstr[w], real["delays"]), "step": t, "expected": exp,
                                  "observed": obs, "stream": name, "variant": v})
        # cross-implementation differentials on the real code
        for a, b, rel in PAIRS:
            if case.get("ktensor") == "perw" and (a in KERNEL) != (b in KERNEL):
                continue        # per-weight kernel parameters have no scalar-rate counterpart
            if a in reals and b in reals and "exc" not in reals[a] and "exc" not in reals[b]:
                ex.count("differential", f"{a}~{b}")
                ex.evaluations += len(reals[a]["steps"])
                d = differential(case, a, b, reals[a], reals[b])
                if d:
                    t, w, label, va, vb = d
                    self.add_finding("spec", f"C18:differential:{rel}:{a}~{b}",
                                     f"{NAMES[a]} and {NAMES[b]} disagree on accumulator {label} after step {t}: {va} vs {vb} "
                                     f"[{case['conn']} history {tstr[w] if tstr else '?'}" +
                                     (f"; kernel kwargs as {case['ktensor']} tensors" if case.get("ktensor") else "") +
                                     (f"; {clears_text(case)}" if clears_of(case) else "") + inplace_text(case) + "]",
                                     {"case": dict(case, variants=[a, b]), "weight": describe(case, w, tstr[w], reals[a]["delays"]),
                                      "step": t, "first": va, "second": vb, "relation": rel})


def explore(ctx) -> Exploration:
    torch.set_default_dtype(torch.float64)
    ex = Exploration()
    rng = ctx.rng
    thorough = ctx.tier == "thorough"
    heavy = thorough or ctx.intensify
    transval.validate(ctx, ["StdKernels", "DelaySTDPSites"], ex, per_fn=100 if not heavy else 400)
    if not defs_identical():
        ex.findings.append(Finding("model", "C18:defs-differ", "the DEFS blocks of the ℝ and Float model copies differ",
                                   {"files": ["InfernoVerif/Model/DelaySTDP.lean", "InfernoVerif/Model/DelaySTDPF.lean"]}))
    R = Runner(ctx, ex)

    # (1) exhaustive grid: dense 2^T x 2^T, synapse (i -> j) sees pre history i and post history j
    T1 = 6 if thorough else 4
    n1 = 2 ** T1
    pre = [["".join(format(i, f"0{T1}b")[t] for i in range(n1))] for t in range(T1)]
    post = [["".join(format(j, f"0{T1}b")[t] for j in range(n1))] for t in range(T1)]
    plans = []
    for sg in range(4):
        plans += [(["da", "dak", "k", "kd"], sg, "end", True, None), (["da", "dak"], sg, "sched", False, None),
                  (["dad", "dakd"], sg, "sched", False, None), (["dad", "dakd"], sg, "each", False, None),
                  (["dam-s", "damd-s"], sg, "sched", False, "scalar"), (["dam-t", "damd-t"], sg, "each", False, "tensor")]
    rng.shuffle(plans)
    if not heavy:
        plans = plans[:12]
    kinds = [None, "0d", "const", "perw"]
    for pi, (variants, sg, mode, zero, sm) in enumerate(plans):
        case = make_case(rng, variants, SIGNS[sg], "dense", {"nin": n1, "nout": n1}, 1, T1, "sum", mode, zero_delay=zero,
                         pre=pre, post=post, signal_mode=sm)
        if any(v in KERNEL for v in variants) and kinds[pi % 4]:
            set_ktensor(rng, case, kinds[pi % 4])
        R.add(case, f"exhaustive-grid-T{T1}")
        if len(R.cases) >= 6:
            R.flush()
    R.flush()
    ex.exhaustive = True

    # (2) random histories: connection kinds, batches, reductions, delays changing between steps, signals
    nrand = 240 if heavy else 70
    groups = [(["da", "dak"], None), (["dad", "dakd"], None), (["da", "dak", "k", "kd"], None), (["dam-s"], "scalar"),
              (["dam-t"], "tensor"), (["damd-s"], "scalar"), (["damd-t"], "tensor")]
    for r in range(nrand):
        variants, sm = groups[r % len(groups)]
        zero = "k" in variants
        conn = rng.choice(["dense", "dense", "direct", "lateral", "conv"])
        if conn == "dense":
            geom = {"nin": rng.randint(1, 4), "nout": rng.randint(1, 4)}
        elif conn == "conv":
            geom = {"H": rng.randint(2, 4), "W": rng.randint(2, 4), "C": rng.randint(1, 2), "F": rng.randint(1, 2),
                    "K": rng.choice([1, 2]), "stride": rng.choice([1, 1, 2])}
        else:
            geom = {"n": rng.randint(2, 4)}
        B = rng.choice([1, 2, 3, 4])
        mode = rng.choice(["end", "each", "sched"])
        case = make_case(rng, variants, SIGNS[rng.randrange(4)], conn, geom, B, rng.randint(5, 12), rng.choice(["sum", "mean"]), mode,
                         zero_delay=zero, signal_mode=sm)
        if any(v in KERNEL for v in variants) and rng.random() < 0.7:
            set_ktensor(rng, case, rng.choice(["0d", "const", "perw"]))
        if r % 4 == 3:
            case["inplace"] = INPLACE[1 + (r // 4) % 3]
        R.add(case, "random-population")
        if len(R.cases) >= 40:
            R.flush()
    R.flush()

    # (3) EPISODES: trainer.clear(keepshape=True | False) in the middle of a run — afterwards every "time since the last
    #     spike" is NaN again: no change until both sides have spiked AFTER the clear, t_delta from post-clear spikes only
    #     `inplace` (records written in place; a constructor default that register_cell may override) is an implementation option:
    #     with it, across one or two clears of either kind, the documented update is the same
    nep = 126 if heavy else 42
    for r in range(nep):
        variants, sm = groups[r % len(groups)]
        one = r % 3 == 0
        geom = {"nin": 1, "nout": 1} if one else {"nin": rng.randint(1, 3), "nout": rng.randint(1, 3)}
        T = rng.randint(6, 11)
        case = make_case(rng, variants, SIGNS[rng.randrange(4)], "dense", geom, 1 if one else rng.choice([1, 2, 3]), T,
                         rng.choice(["sum", "mean"]), rng.choice(["end", "each", "sched"]), zero_delay="k" in variants, signal_mode=sm)
        case["clear_at"] = rng.randint(2, T - 3)
        case["clear_keep"] = (r // len(groups)) % 2 == 0
        if any(v in KERNEL for v in variants) and rng.random() < 0.5:
            set_ktensor(rng, case, rng.choice(["0d", "const", "perw"]))
        case["inplace"] = INPLACE[(r // len(groups) + r % len(groups)) % 4] if r % 2 else rng.choice(INPLACE)
        if rng.random() < 0.3:         # a third episode
            case["clears"] = [(rng.choice([t for t in range(1, T) if t != case["clear_at"]]), rng.random() < 0.5)]
        R.add(case, "episodes")
    R.flush()

    # (4) CONFIGURATIONS: per-cell overrides of the trainer's defaults (either sign, whatever the sign of the default) on a Serial cell,
    #     and two or more cells of a multi-connection / multi-group Biclique layer registered with ONE trainer — every cell judged
    #     against the formula of its own spike times and effective hyper-parameters
    nmc = 126 if heavy else 42
    for r in range(nmc):
        variants, sm = groups[r % len(groups)]
        topo = "serial" if (r // len(groups)) % 3 == 0 else "biclique"
        R.add_multi(make_multi(rng, variants, topo, rng.choice(["end", "each", "sched"]), signal_mode=sm, zero_delay="k" in variants),
                    "per-cell-overrides" if topo == "serial" else "multi-cell-layer")
        if len(R.cases) >= 42:
            R.flush()
    R.flush()

    # (5) CONFIGURATIONS x EPISODES: the same layers, `inplace` as a trainer default and / or a per-cell override (either way round),
    #     the trainer cleared once or twice mid-run with either keepshape — every cell starts a new episode at every clear
    nme = 63 if heavy else 21
    for r in range(nme):
        variants, sm = groups[r % len(groups)]
        topo = "serial" if (r // len(groups)) % 3 == 0 else "biclique"
        R.add_multi(make_multi(rng, variants, topo, rng.choice(["end", "each", "sched"]), signal_mode=sm, zero_delay="k" in variants, episodes=True),
                    "per-cell-overrides-episodes" if topo == "serial" else "multi-cell-layer-episodes")
    R.flush()
    ex.rule = ("(1) a dense 2^T x 2^T layer (T = 4 quick / 6 thorough) in which synapse (i -> j) carries pre history i and post history j — every "
               "pre/post history of that length, all its prefixes compared step by step — per sign mode and trainer group, with delays on a "
               "half-step grid, fixed ('end'), reset before every step ('sched') or learned ('each', delay trainers); (2) random histories on dense / "
               "direct / lateral / conv cells, batches 1-4, sum / mean, scalar and per-sample signals; (3) two-episode runs with trainer.clear(keepshape=True|False) "
               "in the middle (one or two clears; trainers / cells with and without inplace=True, given to the constructor or to register_cell), every later episode "
               "judged from the spikes since the last clear only; the kernel trainers get their rates / time constants as floats, 0-d tensors, "
               "weight-shaped constant tensors or per-weight tensors; (4) configurations: a Serial cell registered with per-cell overrides of the trainer's "
               "learning rates (either sign) / time constants / batch reduction, and Biclique layers (1-3 connections x 1-2 neuron groups, dense / direct / lateral) "
               "with two or more cells registered in random order with one trainer, each with its own overrides, each connection's accumulators judged "
               "against the sum of the documented updates of the cells on it, computed from each cell's own spike trains; (5) the configurations of (4) with inplace as trainer default and / or per-cell override and "
               "one or two trainer.clear(keepshape=True|False) mid-run.  Each real trainer is compared with the "
               "model (M), the formula from true last-spike times (S) and its sibling implementation.  One case = one weight's run of one "
               "trainer; non-trivial = both neurons of some receptive-field element spike; distinct = distinct (trainer, configuration, delays, history)")
    return ex


def replay(ctx, data) -> int:
    torch.set_default_dtype(torch.float64)
    fi = data.get("failing_input")
    if not fi:
        print("no failing input recorded:", data.get("broken"))
        return 1
    case = fi["case"]
    bad = 0
    reals = {}
    if case.get("multi"):
        for v in case["variants"]:
            real = reals[v] = run_real_multi(case, v)
            if "exc" in real:
                print(f"{NAMES[v]} raised at step {real['step']}: {real['exc']}")
                bad = 1
                continue
            for ci, o in enumerate(real["conns"]):
                for t, (p, n, w) in enumerate(o["steps"]):
                    print(f"{v} connection c{ci} step {t}: delay {o['delays'][t].tolist()} real pos {None if p is None else p.tolist()} "
                          f"neg {None if n is None else n.tolist()} param {None if w is None else w.tolist()}")
            lines, spans, tstrs = multi_requests(case, v, real)
            for pr in judge_multi(case, v, real, ctx.run_driver(DRIVER, lines), spans, tstrs):
                print("DISAGREEMENT", v, pr)
                bad = 1
        for a, b, rel in PAIRS:
            if a in reals and b in reals and "exc" not in reals[a] and "exc" not in reals[b]:
                for ci in range(len(case["connections"])):
                    d = differential(None, a, b, reals[a]["conns"][ci], reals[b]["conns"][ci]) if cells_on(case, ci) else None
                    if d:
                        print("DIFFERENTIAL", rel, a, b, f"connection c{ci}", d)
                        bad = 1
        return bad
    for v in case["variants"]:
        real = run_real(case, v)
        reals[v] = real
        if "exc" in real:
            print(f"{NAMES[v]} raised at step {real['step']}: {real['exc']}")
            bad = 1
            continue
        lines, tstr = request_lines(case, v, real["delays"])
        tables = tables_for(case, ctx.run_driver(DRIVER, lines))
        for t, (p, n, w) in enumerate(real["steps"]):
            print(f"{v} step {t}: delay {real['delays'][t].tolist()} real pos {None if p is None else p.tolist()} neg {None if n is None else n.tolist()}"
                  f" param {None if w is None else w.tolist()}")
        for name in ("M", "S"):
            pos, pm, neg, nm = tables[name]
            print(v, name, "per-step pos", [[float(x) if m else None for x, m in zip(r, mr)] for r, mr in zip(pos, pm)],
                  "neg", [[float(x) if m else None for x, m in zip(r, mr)] for r, mr in zip(neg, nm)])
        for pr in judge(case, v, real, tables):
            print("DISAGREEMENT", v, pr)
            bad = 1
    for a, b, rel in PAIRS:
        if a in reals and b in reals and "exc" not in reals[a] and "exc" not in reals[b]:
            d = differential(case, a, b, reals[a], reals[b])
            if d:
                print("DIFFERENTIAL", rel, a, b, d)
                bad = 1
    return bad
