"""C01 — correspondence + search for the RecordTensor ring buffer.

Real side: a `RecordTensor` on a fresh `inferno.Module`; protocol lines are those of
`lean/drivers/C01.lean`.  Values cross the pipe as integers in eighths.
"""
from __future__ import annotations

import itertools
import zlib

import torch
import torch.nn as nn

import inferno
from inferno.core.infrastructure import RecordTensor

from runner import Exploration
import seqcheck

SPEC = {
    "prop": "C01",
    "lean_targets": ["InfernoVerif.Props.C01", "InfernoVerif.Props.C01Glue", "InfernoVerif.Props.C01Run", "InfernoVerif.Props.C13Glue", "InfernoVerif.Gen.Dispatch"],
    "translate": ["Infra", "RingProg"],
    "driver_targets": ["InfernoVerif.Model.RingOps", "InfernoVerif.Drv.Proto", "InfernoVerif.Gen.Dispatch"],
    "prop_files": ["InfernoVerif/Props/C01.lean", "InfernoVerif/Props/C01Glue.lean", "InfernoVerif/Props/C01Run.lean", "InfernoVerif/Props/C13Glue.lean"],
    "lemma_files": ["InfernoVerif/Lemmas/Ring.lean"],
    "model_files": ["InfernoVerif/Model/Ring.lean", "InfernoVerif/Model/RingOps.lean"],
    "driver": "drivers/C01.lean",
    "assumptions": [
        "offsets are Python ints or integer-valued tensors of dtype int64 / int32 / int16 / uint8 / float32 / float64 (fractional float offsets, truncated by int()/.long(), are not generated)",
        "align indices in [0, n) or >= n (negative indices, which the code accepts and stores as a negative pointer, are outside the modelled domain)",
        "readrange/writerange lengths 1..n (the property's quantifier); length 0 or > n on scalar readrange is not validated by the code and is not generated",
        "dtype classes: int64 vs float32; device CPU",
        "storage containers: plain tensor / buffer, nn.Parameter(requires_grad=False), nn.Parameter(requires_grad=True, float only); no backward pass is run",
    ],
}
DRIVER = "drivers/C01.lean"
ERRS = {"RuntimeError", "ValueError", "TypeError", "AttributeError", "IndexError", "KeyError"}


def shp(tok):
    return () if tok == "s" else tuple(int(x) for x in tok.split("x"))


def shp_s(shape):
    return "s" if len(shape) == 0 else "x".join(str(int(x)) for x in shape)


def ints(tok):
    return [] if tok in ("", "-") else [int(x) for x in tok.split(",")]


def dt_of(t):
    return "i" if not t.dtype.is_floating_point else "f"


def to_tensor(dt, shape, vals):
    if dt == "i":
        return torch.tensor([v // 8 for v in vals], dtype=torch.int64).reshape(shape)
    return (torch.tensor(vals, dtype=torch.float32) / 8).reshape(shape)


def row_s(t):
    v = (t.detach().to(torch.float64) * 8).reshape(-1).tolist()
    assert all(float(x).is_integer() for x in v), v
    return ",".join(str(int(x)) for x in v)


class Real:
    def __init__(self):
        self.owner = inferno.Module()
        self.rt = None
        self.n = 1

    def exec(self, line):
        tok = line.split()
        try:
            return self._exec(tok)
        except Exception as e:  # the real code raised: map to the closed error enum
            name = type(e).__name__
            return "err " + (name if name in ERRS else "Other")

    def _begin(self, n, store):
        self.n = n
        kind = store.split(":")
        # container of the storage: plain tensor / buffer (no prefix), `p` = nn.Parameter(requires_grad=False),
        # `g` = nn.Parameter(requires_grad=True); the property does not distinguish them (same list-of-observations history)
        box = None
        if kind[0][0] in "pg" and kind[0][1:] in ("empty", "uninit", "zeros"):
            box, kind[0] = kind[0][0] == "g", kind[0][1:]
        if kind[0] == "none":
            val = None
        elif kind[0] == "empty":
            val = torch.empty(0, dtype=torch.int64 if kind[1] == "i" else torch.float32)
        elif kind[0] == "uninit":
            val = nn.UninitializedBuffer(dtype=torch.int64 if kind[1] == "i" else torch.float32)
        elif kind[0] == "zeros":
            val = torch.zeros(shp(kind[2]), dtype=torch.int64 if kind[1] == "i" else torch.float32)
        else:
            raise AssertionError(store)
        if box is not None:
            if kind[0] == "uninit":
                val = nn.UninitializedParameter(requires_grad=box, dtype=val.dtype)
            else:
                val = nn.Parameter(val, box)
        self.owner = inferno.Module()
        RecordTensor.create(self.owner, "rec", 1.0, float(n), val, inclusive=False)
        self.rt = self.owner.rec
        assert self.rt.recordsz == n
        return "ok"

    def _obs(self, tok):
        d, sh, vs = tok.split(";")
        return to_tensor(d, shp(sh), ints(vs))

    def _range(self, tok):
        d, sh, rows = tok.split(";")
        rs = [to_tensor(d, shp(sh), ints(r)) for r in rows.split("|")]
        return torch.stack(rs, dim=-1)

    def _offs(self, tok):
        # `shape;values[;dtype]`: the SAME offsets handed over in another tensor dtype (uint8 / int16 / int32 / float) must be
        # read as the same step counts — `.long()` comes before any arithmetic
        parts = tok.split(";")
        sh, vs = parts[0], parts[1]
        dt = OFF_DTYPES[parts[2]] if len(parts) > 2 else torch.int64
        return torch.tensor(ints(vs), dtype=dt).reshape(shp(sh))

    def _handed(self, tok, x, inplace):
        """the tensor handed to a write: for some lines (chosen by a hash of the line, so that a replay repeats it) a float
        observation written out of place into buffer storage REQUIRES GRAD (the storage then carries a grad_fn, later in-place
        writes must still land); returns the tensor and whether the caller overwrites it in place after the call (the record
        must hold the observation, not a reference to the caller's tensor)"""
        h = zlib.crc32(" ".join(tok).encode())
        if x.is_floating_point() and not inplace and h % 3 == 0 and not isinstance(self.rt.value, nn.Parameter):
            x.requires_grad_(True)
        return x, h % 2 == 0

    @staticmethod
    def _scribble(x):
        with torch.no_grad():
            x.mul_(0).sub_(7)

    def _exec(self, tok):
        rt = self.rt
        op = tok[0]
        if op == "begin":
            return self._begin(int(tok[1]), tok[2])
        if op == "dump":
            return self._dump()
        if op == "push":
            x, scribble = self._handed(tok, self._obs(tok[1]), tok[2] == "T")
            rt.push(x, inplace=tok[2] == "T")
            if scribble:
                self._scribble(x)
            return "ok"
        if op == "pop":
            r = rt.pop()
            return "None" if r is None else "row " + row_s(r)
        if op == "peek":
            r = rt.peek()
            return "None" if r is None else "row " + row_s(r)
        if op == "latest":
            r = rt.latest
            return "None" if r is None else "row " + row_s(r)
        if op == "read":
            return "row " + row_s(rt.read(int(tok[1])))
        if op == "write":
            x, scribble = self._handed(tok, self._obs(tok[1]), tok[3] == "T")
            rt.write(x, offset=int(tok[2]), inplace=tok[3] == "T")
            if scribble:
                self._scribble(x)
            return "ok"
        if op == "readrange":
            r = rt.readrange(int(tok[1]), int(tok[2]), forward=tok[3] == "T")
            L = r.shape[-1]
            return "rows " + "|".join(row_s(r[..., j]) for j in range(L))
        if op == "readrangeT":
            r = rt.readrange(int(tok[1]), self._offs(tok[2]), forward=tok[3] == "T")
            L = r.shape[-1]
            flat = r.reshape(-1, L)
            return "cols " + "|".join(row_s(flat[p]) for p in range(flat.shape[0]))
        if op == "writerange":
            x, scribble = self._handed(tok, self._range(tok[1]), tok[4] == "T")
            rt.writerange(x, int(tok[2]), forward=tok[3] == "T", inplace=tok[4] == "T")
            if scribble:
                self._scribble(x)
            return "ok"
        if op == "writerangeT":
            x, scribble = self._handed(tok, self._range(tok[1]), tok[4] == "T")
            rt.writerange(x, self._offs(tok[2]), forward=tok[3] == "T", inplace=tok[4] == "T")
            if scribble:
                self._scribble(x)
            return "ok"
        if op == "incr":
            p = rt.incr(int(tok[1]))
            return (f"ptr {p}", "ok")
        if op == "decr":
            p = rt.decr(int(tok[1]))
            return (f"ptr {p}", "ok")
        if op == "align":
            rt.align(int(tok[1]))
            return "ok"
        if op == "reset":
            rt.reset(None if tok[1] == "N" else int(tok[1]) / 8)
            return "ok"
        if op == "initialize":
            rt.initialize(shp(tok[1]))
            return "ok"
        if op == "deinitialize":
            rt.deinitialize(tok[1] == "T")
            return "ok"
        raise AssertionError(tok)

    def _dump(self):
        rt = self.rt
        v = rt.value
        if v is None:
            return "none"
        if isinstance(v, (nn.UninitializedBuffer, nn.UninitializedParameter)):
            return "uninit:" + ("i" if not v.dtype.is_floating_point else "f")
        if v.numel() == 0 and v.ndim <= 1:
            return "empty:" + dt_of(v)
        head = f"init:{dt_of(v)}:{shp_s(v.shape[1:])}:"
        m = head + f"ptr={rt.pointer}:" + "|".join(row_s(v[i]) for i in range(v.shape[0]))
        s = head + "|".join(row_s(rt.read(k)) for k in range(v.shape[0]))
        if v.shape[0] != self.n:
            s += f" [storage has {v.shape[0]} slots, recordsz {self.n}]"
        return (m, s)


# ---------------------------------------------------------------------------------------------
# generators

def obs_tok(rng, dt, shape, lo=-40, hi=80):
    P = 1
    for s in shape:
        P *= s
    vals = [rng.randint(lo, hi) * (8 if dt == "i" else 1) for _ in range(P)]
    return f"{dt};{shp_s(shape)};" + ",".join(map(str, vals))


def range_tok(rng, dt, shape, L):
    P = 1
    for s in shape:
        P *= s
    rows = []
    for _ in range(L):
        rows.append(",".join(str(rng.randint(-40, 80) * (8 if dt == "i" else 1)) for _ in range(P)))
    return f"{dt};{shp_s(shape)};" + "|".join(rows)


OFF_DTYPES = {"u8": torch.uint8, "i16": torch.int16, "i32": torch.int32, "f32": torch.float32, "f64": torch.float64}


def offs_tok(rng, shape, lo, hi, const=None):
    P = 1
    for s in shape:
        P *= s
    vals = [const if const is not None else rng.randint(lo, hi) for _ in range(P)]
    tok = f"{shp_s(shape)};" + ",".join(map(str, vals))
    if rng.random() < 0.3:
        kinds = ["i16", "i32", "f32", "f64"] + (["u8", "u8"] if all(0 <= v <= 255 for v in vals) else [])
        tok += ";" + rng.choice(kinds)
    return tok


def _canon_line(line: str) -> str:
    """for the model an offset tensor is its integer values: drop the dtype tag; a record whose storage is an nn.Parameter is
    the same history as one whose storage is a buffer: drop the container prefix; `latest` is `peek`"""
    if line.startswith("begin "):
        toks = line.split(" ")
        if toks[2][0] in "pg" and toks[2].split(":")[0][1:] in ("empty", "uninit", "zeros"):
            toks[2] = toks[2][1:]
        return " ".join(toks)
    if line == "latest":
        return "peek"
    if line.startswith(("readrangeT ", "writerangeT ")):
        toks = line.split(" ")
        toks = [";".join(t.split(";")[:2]) if t.count(";") == 2 and t.split(";")[2] in OFF_DTYPES else t for t in toks]
        return " ".join(toks)
    return line


seqcheck.DRIVER_MAP["drivers/C01.lean"] = _canon_line


def b(x):
    return "T" if x else "F"


def setup(n, p, shape, dt="f", fill=None, box=""):
    """state with pointer p and pairwise distinct contents: n + p pushes onto zero storage (`box`: storage container prefix)."""
    P = 1
    for s in shape:
        P *= s
    lines = [f"begin {n} {box}zeros:{dt}:{shp_s(shape)}"]
    c = 8
    for i in range(n + p):
        vals = ",".join(str(c * (i * P + q + 1)) for q in range(P))
        lines.append(f"push {dt};{shp_s(shape)};{vals} {b(i % 2)}")
    return lines


def exhaustive_cases(maxn, shapes, rng):
    cases = []
    for n in range(1, maxn + 1):
        for shape in shapes:
            for p in range(n):
                pre = setup(n, p, shape)
                def add(op):
                    cases.append(pre + [op, "dump"])
                for o in range(0, 2 * n + 1):
                    add(f"read {o}")
                    for ip in (False, True):
                        add(f"write {obs_tok(rng, 'f', shape)} {o} {b(ip)}")
                    for L in range(1, n + 1):
                        for fwd in (False, True):
                            add(f"readrange {L} {o} {b(fwd)}")
                            add(f"readrangeT {L} {offs_tok(rng, shape, 0, 2 * n, const=o)} {b(fwd)}")
                            add(f"readrangeT {L} {offs_tok(rng, shape, 0, 2 * n)} {b(fwd)}")
                            for ip in (False, True):
                                add(f"writerange {range_tok(rng, 'f', shape, L)} {o} {b(fwd)} {b(ip)}")
                                add(f"writerangeT {range_tok(rng, 'f', shape, L)} {offs_tok(rng, shape, 0, 2 * n, const=o)} {b(fwd)} {b(ip)}")
                                add(f"writerangeT {range_tok(rng, 'f', shape, L)} {offs_tok(rng, shape, 0, 2 * n)} {b(fwd)} {b(ip)}")
                for q in range(0, n + 2):
                    add(f"incr {q}")
                    add(f"decr {q}")
                for i in range(0, n + 1):
                    add(f"align {i}")
                add("pop")
                add("peek")
                add("reset 0")
                add("reset 12")
                add("reset N")
    return cases


OBSERVERS = ["peek", "latest", "read 1"]


def observed_cases(maxn, shapes, rng):
    """every single MUTATING operation of the exhaustive stream, with the newest observation looked at (peek / latest / read 1)
    immediately before and immediately after it, on a record whose storage is a buffer, an nn.Parameter, or an nn.Parameter
    requiring grad: whatever a read returned earlier, the next read must return what the list model holds NOW."""
    cases = []
    for n in range(1, maxn + 1):
        for shape in shapes:
            for p in range(n):
                for box in ("", "p", "g"):
                    pre = setup(n, p, shape, box=box)

                    def add(op):
                        before = [rng.choice(OBSERVERS[:2])] + ([rng.choice(OBSERVERS)] if rng.random() < 0.3 else [])
                        after = rng.sample(OBSERVERS, 3)
                        cases.append(pre + before + [op] + after + ["dump"])
                    for o in range(0, 2 * n + 1):
                        add(f"write {obs_tok(rng, 'f', shape)} {o} F")
                        if o % n == 1 % n:
                            add(f"write {obs_tok(rng, 'f', shape)} {o} T")
                        for L in range(1, n + 1):
                            for fwd in (False, True):
                                ip = rng.random() < 0.2
                                add(f"writerange {range_tok(rng, 'f', shape, L)} {o} {b(fwd)} {b(ip)}")
                                add(f"writerangeT {range_tok(rng, 'f', shape, L)} {offs_tok(rng, shape, 0, 2 * n, const=o)} {b(fwd)} {b(ip)}")
                                add(f"writerangeT {range_tok(rng, 'f', shape, L)} {offs_tok(rng, shape, 0, 2 * n)} {b(fwd)} {b(ip)}")
                    for q in range(0, n + 2):
                        add(f"incr {q}")
                        add(f"decr {q}")
                    for i in range(0, n):
                        add(f"align {i}")
                    add("pop")
                    add(f"push {obs_tok(rng, 'f', shape)} F")
                    add(f"push {obs_tok(rng, 'f', shape)} T")
                    add("reset 0")
                    add("reset 12")
                    add("reset N")
    return cases


def with_observers(case, rng, box):
    """a random sequence re-run (a) on another storage container and (b) with reads of the newest observation interleaved after
    every operation (the list model is unaffected by reads, so the expectation is the driver's on the longer sequence)."""
    head = case[0].split(" ")
    kind = head[2].split(":")
    if box and kind[0] in ("empty", "uninit", "zeros") and not (box == "g" and kind[1] == "i"):
        head[2] = box + head[2]
    out = [" ".join(head)]
    for l in case[1:]:
        out.append(l)
        if l != "dump" and rng.random() < 0.7:
            out.append(rng.choice(OBSERVERS))
    return out


OPS = ["push", "push", "push", "pop", "peek", "read", "write", "readrange", "readrangeT", "writerange",
       "writerangeT", "incr", "decr", "align", "reset", "initialize", "deinitialize"]


def random_case(rng, big=False):
    n = rng.choice([1, 2, 3, 4, 5, 6] if not big else list(range(14, 28)))
    shape = rng.choice([(), (2,), (3,), (2, 2), (2, 3)])
    other = rng.choice([(), (2,), (3,), (1, 2)])
    store = rng.choice(["none", "none", "empty:f", "empty:i", "uninit:f", "uninit:i",
                        f"zeros:f:{shp_s(shape)}", f"zeros:f:{shp_s(shape)}", f"zeros:i:{shp_s(shape)}"])
    lines = [f"begin {n} {store}"]
    length = rng.randint(3, 30)
    malformed = rng.random() < 0.25
    for _ in range(length):
        op = rng.choice(OPS)
        if op in ("initialize", "deinitialize") and rng.random() < 0.7:
            op = "push"
        dt = rng.choice("ffi")
        sh = other if (malformed and rng.random() < 0.15) else shape
        o = rng.randint(0, 2 * n)
        L = rng.randint(1, n) if not (malformed and rng.random() < 0.1) else n + rng.randint(1, 2)
        fwd, ip = rng.random() < 0.5, rng.random() < 0.5
        if op == "push":
            lines.append(f"push {obs_tok(rng, dt, sh)} {b(ip)}")
        elif op in ("pop", "peek"):
            lines.append(op)
        elif op == "read":
            lines.append(f"read {o}")
        elif op == "write":
            lines.append(f"write {obs_tok(rng, dt, sh)} {o} {b(ip)}")
        elif op == "readrange":
            lines.append(f"readrange {min(L, n)} {o} {b(fwd)}")
        elif op == "readrangeT":
            osh = other if (malformed and rng.random() < 0.2) else shape
            lines.append(f"readrangeT {min(L, n)} {offs_tok(rng, osh, 0, 2 * n)} {b(fwd)}")
        elif op == "writerange":
            lines.append(f"writerange {range_tok(rng, dt, sh, L)} {o} {b(fwd)} {b(ip)}")
        elif op == "writerangeT":
            osh = other if (malformed and rng.random() < 0.2) else shape
            lines.append(f"writerangeT {range_tok(rng, dt, sh, L)} {offs_tok(rng, osh, 0, 2 * n)} {b(fwd)} {b(ip)}")
        elif op in ("incr", "decr"):
            lines.append(f"{op} {rng.randint(0, 2 * n)}")
        elif op == "align":
            lines.append(f"align {rng.randint(0, n - 1) if not malformed else rng.randint(0, n + 1)}")
        elif op == "reset":
            lines.append("reset " + rng.choice(["0", "N", "12", "-20"]))
        elif op == "initialize":
            lines.append(f"initialize {shp_s(shape)}")
        elif op == "deinitialize":
            lines.append(f"deinitialize {b(rng.random() < 0.5)}")
        lines.append("dump")
    return lines


def corpus_cases():
    from pathlib import Path
    d = Path(__file__).resolve().parent.parent.parent / "corpus" / "C01"
    out = []
    if d.exists():
        for f in sorted(d.glob("*.ops")):
            out.append([l for l in f.read_text().splitlines() if l.strip() and not l.startswith("#")])
    return out


def key_of(case, d):
    op = case[d[0]].split()[0]
    if op == "dump" and d[0] > 0:
        op = case[d[0] - 1].split()[0]
    n = case[0].split()[1] if case and case[0].startswith("begin") else "?"
    return f"C01:{d[1]}:{op}:n={n}"


def explore(ctx) -> Exploration:
    ex = Exploration()
    import transval
    transval.validate(ctx, SPEC["translate"], ex, per_fn=60)   # generated pointer / size arithmetic vs the Python originals
    rng = ctx.rng
    thorough = ctx.tier == "thorough" or ctx.intensify
    cases = corpus_cases()
    ncorpus = len(cases)
    shapes = [(), (2,)] if not thorough else [(), (2,), (2, 2)]
    exh = exhaustive_cases(4 if not thorough else 6, shapes, rng)
    cases += exh
    nrand = 400 if not thorough else 3000
    rnd = [random_case(rng) for _ in range(nrand)] + [random_case(rng, big=True) for _ in range(nrand // 8)]
    cases += rnd
    obs = observed_cases(3 if not thorough else 5, shapes, rng)
    nobs = nrand // 2
    robs = [with_observers(random_case(rng, big=i % 10 == 9), rng, ("", "p", "p", "g")[i % 4]) for i in range(nobs)]
    cases += obs + robs
    for c in cases:
        for l in c:
            ex.count("ops", l.split()[0])
        ex.count("recordsz", c[0].split()[1])
        ex.count("storage", c[0].split()[2].split(":")[0])

    def nontrivial(case, real):
        # non-trivial: storage initialised at some point and at least one op besides begin/dump succeeded
        return any(r[0].startswith(("row", "rows", "cols", "ok", "ptr")) and not l.startswith(("begin", "dump"))
                   for l, r in zip(case, real))

    seqcheck.run_cases(ctx, DRIVER, cases, Real, ex, key_of, "C01", nontrivial)
    ex.rule = ("cases = corpus + exhaustive single operations (every n<=%d, every pointer position, every offset in [0,2n], "
               "every length in [1,n], forward/backward, in-place/out-of-place, scalar and tensor offsets) applied to a ring with "
               "pairwise distinct contents + seeded random operation sequences (n in 1..6 and 14..27, five observation shapes, "
               "six storage kinds, int/float mixing, 25%% malformed) + every single mutating operation (n<=%d) with peek / latest / read(1) "
               "immediately before and after it, on buffer-, nn.Parameter- and grad-requiring nn.Parameter-backed storage + random "
               "sequences with such reads interleaved after every operation on the three storage containers; a case is non-trivial when at least one operation other than "
               "begin/dump succeeded on the real object; distinct = distinct protocol text" % (4 if not thorough else 6, 3 if not thorough else 5))
    ex.samples = [cases[ncorpus] if len(cases) > ncorpus else [], rnd[0], rnd[-1]]
    ex.extra["streams"] = {"corpus": ncorpus, "exhaustive_single_step": len(exh), "random_sequences": len(rnd),
                           "observed_single_step(buffer/Parameter/Parameter+grad)": len(obs),
                           "random_sequences_with_interleaved_reads_and_Parameter_storage": len(robs)}
    errs = {}
    return ex


def replay(ctx, data) -> int:
    case = data.get("failing_input", {}).get("ops") or data.get("ops")
    if not case:
        print("replay file has no op sequence (proof/tie breakage without failing input):", data.get("broken"))
        return 1
    real = seqcheck.exec_real(Real, case)
    resp = ctx.run_driver(DRIVER, seqcheck.to_driver(DRIVER, case))
    for l, r, d in zip(case, real, resp):
        print(f"{l}\n    real: M {r[0]} || S {r[1]}\n    lean: {d}")
    d = seqcheck.compare_case(case, real, resp)
    print("DISAGREEMENT" if d else "agrees", d or "")
    return 1 if d else 0
