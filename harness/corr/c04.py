"""C04 — synapse currents equal the impulse-response sum; delayed reads see the past.

Tie: the four real synapse classes (float64) are stepped on generated spike trains / injected
currents; after every step `forward`'s return value, `synapse.current`, `synapse.spike`,
`current_at(sel)` and `spike_at(sel)` are compared, per element, with
  (M) the code-shaped model `Model/Synapse.lean` (rings + `_synparam_at` + `selectTensor`, Float), and
  (S) the specification computed independently by `drivers/C04.lean`: closed-form impulse-response
      sums over the whole input history and plain "k steps ago" list lookups.
The interpolation kernels the model executes are GENERATED from /repo (`Gen/InterpolationF`) and
validated against the Python originals on every run (transval).
Relational search on the real code: the same case with `inplace` flipped must give bit-identical
observables.
Floats are compared with |a-b| <= 1e-9*max(1,|a|,|b|) (exp), spikes / error classes exactly.
"""
from __future__ import annotations

import math

import torch

from inferno.neural import DeltaCurrent, DeltaPlusCurrent, SingleExponentialCurrent, DoubleExponentialCurrent

from runner import Exploration, Finding
import transval
from transval import hx, unhx

SPEC = {
    "prop": "C04",
    "lean_targets": ["InfernoVerif.Props.C04", "InfernoVerif.Props.C04Glue", "InfernoVerif.Props.C04GlueProg", "InfernoVerif.Model.Synapse", "InfernoVerif.Drv.SynSpec", "InfernoVerif.Gen.Dispatch"],
    "prop_files": ["InfernoVerif/Props/C04.lean", "InfernoVerif/Props/C04Glue.lean", "InfernoVerif/Props/C04GlueProg.lean"],
    "lemma_files": ["InfernoVerif/Lemmas/Synapse.lean"],
    "model_files": ["InfernoVerif/Model/Synapse.lean", "InfernoVerif/Model/Select.lean", "InfernoVerif/Model/Ring.lean", "InfernoVerif/Drv/SynSpec.lean",
                    "InfernoVerif/Gen/InterpolationF.lean", "InfernoVerif/Gen/InterpolationR.lean"],
    "translate": ["Interpolation", "SynapseSites", "SynapseProg"],
    "driver_targets": ["InfernoVerif.Model.Synapse", "InfernoVerif.Drv.SynSpec", "InfernoVerif.Gen.Dispatch"],
    "assumptions": [
        "theorems are over exact reals; the driver executes the same definitions over IEEE doubles; dt, charges, delays, tolerances "
        "and selectors are dyadic so every grid / tolerance / range decision is exact, only exp() is rounded (1e-9 relative comparison)",
        "inputs[0] is a spike train (bool or 0/1 float64); injected currents (delta-plus) have the batched shape",
        "tolerance >= 0 (SpikeMixin/CurrentMixin do not validate it; negative tolerances are outside the property)",
        "per-element model: elements of the batched tensor do not interact (C11 checks that separately); CPU, float64",
    ],
}
DRIVER = "drivers/C04.lean"
KINDS = ["delta", "deltaplus", "singleexp", "doubleexp"]
CLS = {"delta": DeltaCurrent, "deltaplus": DeltaPlusCurrent, "singleexp": SingleExponentialCurrent,
       "doubleexp": DoubleExponentialCurrent}
ERRS = {"RuntimeError", "ValueError", "TypeError", "AttributeError", "IndexError", "KeyError"}


# ---------------------------------------------------------------------------------------------
# real side

def build(cfg):
    k = cfg["kind"]
    kw = dict(spike_charge=cfg["Q"], delay=cfg["delay"], interp_tol=cfg["tol"], current_overbound=cfg["curOver"],
              spike_overbound=cfg["spkOver"], batch_size=cfg["batch"], inplace=cfg["inplace"])
    mode = {"P": "previous", "N": "nearest"}[cfg["mode"]]
    if k in ("delta", "deltaplus"):
        kw["interp_mode"] = mode
    else:
        kw["spike_interp_mode"] = mode
    if k == "singleexp":
        kw["time_constant"] = cfg["tau"]
    if k == "doubleexp":
        kw["tc_decay"] = cfg["tau"]
        kw["tc_rise"] = cfg["tauR"]
    if cfg.get("ctor_dt") is not None and cfg["ctor_dt"] != cfg["dt"]:
        # the step time is ASSIGNED after construction (`synapse.dt = …`), then the synapse is cleared: whatever the constructor
        # derived from the step time (decay factors, pulse sizes, record lengths) must follow the assignment
        syn = CLS[k](tuple(cfg["shape"]), cfg["ctor_dt"], **dict(kw, delay=cfg["delay"] / cfg["dt"] * cfg["ctor_dt"]))
        syn.dt = cfg["dt"]
        syn.delay = cfg["delay"]
        syn.clear()
        return syn
    return CLS[k](tuple(cfg["shape"]), cfg["dt"], **kw)


def nelem(cfg):
    return cfg["batch"] * math.prod(cfg["shape"])


def run_real(cfg, inplace=None):
    """→ per step dict(out, cur, spk, cat, sat) of flat python lists (or 'err <Class>' strings), plus recordsz"""
    torch.set_default_dtype(torch.float64)
    c = dict(cfg)
    if inplace is not None:
        c["inplace"] = inplace
    syn = build(c)
    bshape = (c["batch"], *c["shape"])
    n = nelem(c)
    obs = []
    with torch.no_grad():
        for t, st in enumerate(c["steps"]):
            if st.get("clear"):
                syn.clear()
            x = torch.tensor(st["x"], dtype=torch.float64).reshape(bshape)
            if c["xbool"]:
                x = x.bool()
            inj = [torch.tensor(v, dtype=torch.float64).reshape(bshape) for v in st["inj"]] if c["kind"] == "deltaplus" else []
            o = {}
            out = syn(x, *inj)
            o["out"] = out.reshape(-1).tolist()
            o["cur"] = syn.current.reshape(-1).tolist()
            o["spk"] = syn.spike.reshape(-1).tolist()
            sels = st["sel"]        # list (per selector column d) of n floats, or [] for no query
            if sels:
                D = len(sels)
                if c["seldim"]:
                    sel = torch.tensor(sels, dtype=torch.float64).T.reshape(*bshape, D)
                else:
                    assert D == 1
                    sel = torch.tensor(sels[0], dtype=torch.float64).reshape(bshape)
                for name, fn in (("cat", syn.current_at), ("sat", syn.spike_at)):
                    try:
                        r = fn(sel)
                        if tuple(r.shape) != tuple(sel.shape):
                            o[name] = f"shape {tuple(r.shape)}"
                        else:
                            o[name] = r.reshape(n, D).T.tolist()      # [d][e]
                            if name == "sat" and r.dtype != torch.bool:
                                o[name] = f"dtype {r.dtype}"
                    except Exception as e:  # the real code raised
                        nm = type(e).__name__
                        o[name] = "err " + (nm if nm in ERRS else "Other")
            obs.append(o)
    return obs, syn.spike_.recordsz


# ---------------------------------------------------------------------------------------------
# driver side

def optf(v):
    return "N" if v is None else hx(v)


def optb(v):
    return "N" if v is None else ("T" if v else "F")


def begin_line(c):
    return " ".join(["begin", c["kind"], hx(c["dt"]), hx(c["delay"]), hx(c["Q"]), hx(c["tau"]), hx(c["tauR"]), c["mode"],
                     hx(c["tol"]), optf(c["curOver"]), optb(c["spkOver"]), "T" if c["inplace"] else "F"])


def element_lines(cfg, e):
    lines = [begin_line(cfg)]
    for st in cfg["steps"]:
        if st.get("clear"):
            lines.append("clear")
        inj = ",".join(hx(v[e]) for v in st["inj"]) if (cfg["kind"] == "deltaplus" and st["inj"]) else "-"
        lines.append(f"step {hx(st['x'][e])} {inj}")
        for col in st["sel"]:
            lines.append(f"at {hx(col[e])}")
    return lines


def approx(a, b, tol=1e-9):
    if a == b:
        return True
    if isinstance(a, bool) or isinstance(b, bool):
        return False
    if math.isnan(a) and math.isnan(b):
        return True
    if math.isinf(a) or math.isinf(b):
        return False
    return abs(a - b) <= tol * max(1.0, abs(a), abs(b))


def pf(tok):
    """driver float token → float or the literal token (ValueError / noSlot)"""
    return unhx(tok) if len(tok) == 16 and all(ch in "0123456789abcdef" for ch in tok) else tok


def pb(tok):
    return {"T": True, "F": False}.get(tok, tok)


def split(resp):
    m, s = resp[2:].split(" || S ", 1)
    return m.split(), s.split()


def sel_class(cfg, sel):
    dt, delay, tol = cfg["dt"], cfg["delay"], cfg["tol"]
    if sel < 0:
        return "negative"
    if sel > delay:
        return "beyond-range" if sel > delay + tol else "beyond-within-tol"
    k = round(sel / dt)
    return "grid" if abs(k * dt - sel) <= tol else "between"


def same(real, want):
    if isinstance(want, str) or isinstance(real, str):
        return real == want
    return approx(real, want)


def compare_element(cfg, e, obs, resp):
    """first disagreement for element e: (kind, step, observable, selector, expected, observed) or None.
    `resp` = driver answers to element_lines(cfg, e)."""
    i = 1
    for t, (st, o) in enumerate(zip(cfg["steps"], obs)):
        if st.get("clear"):
            i += 1
        m, s = split(resp[i])
        i += 1
        for which, toks in (("spec", s), ("model", m)):
            wc, ws = pf(toks[0]), pb(toks[1])
            for name in ("out", "cur"):
                if not same(o[name][e], wc):
                    return (which, t, "current" if name == "cur" else "forward", None, wc, o[name][e])
            if not same(o["spk"][e], ws):
                return (which, t, "spike", None, ws, o["spk"][e])
        for d, col in enumerate(st["sel"]):
            m, s = split(resp[i])
            i += 1
            for which, toks in (("spec", s), ("model", m)):
                wc, ws = pf(toks[0]), pb(toks[1])
                rc = o["cat"] if isinstance(o["cat"], str) else o["cat"][d][e]
                rs = o["sat"] if isinstance(o["sat"], str) else o["sat"][d][e]
                if isinstance(wc, str) and wc == "ValueError":
                    wc = "err ValueError"
                if isinstance(ws, str) and ws == "ValueError":
                    ws = "err ValueError"
                if not same(rc, wc):
                    return (which, t, "current_at", col[e], wc, rc)
                if not same(rs, ws):
                    return (which, t, "spike_at", col[e], ws, rs)
    return None


def check_case(ctx, cfg):
    """runs one case on both sides → list of disagreements (kind, element, step, observable, selector, expected, observed)"""
    obs, rsz = run_real(cfg)
    n = nelem(cfg)
    lines, spans = [], []
    for e in range(n):
        a = len(lines)
        lines += element_lines(cfg, e)
        spans.append((a, len(lines)))
    resp = ctx.run_driver(DRIVER, lines)
    return judge(cfg, obs, rsz, resp, spans)


def judge(cfg, obs, rsz, resp, spans):
    out = []
    for e, (a, b) in enumerate(spans):
        r = resp[a:b]
        if any(x == "bad-op" for x in r):
            raise RuntimeError(f"driver rejected a line of {cfg}")
        msz = int(r[0].split()[1])
        if msz != rsz and e == 0:
            out.append(("model", e, 0, "recordsz", None, msz, rsz))
        d = compare_element(cfg, e, obs, r)
        if d:
            out.append((d[0], e, *d[1:]))
    # spec disagreements first
    out.sort(key=lambda d: (d[0] != "spec", d[2], d[1]))
    return out


# ---------------------------------------------------------------------------------------------
# generators

def dy(rng, lo, hi, den):
    return rng.randint(lo * den, hi * den) / den


def selectors(rng, cfg, n, D, fam=None):
    """D selector columns of n values each, drawn from the families of the property's quantifier"""
    dt, delay, tol = cfg["dt"], cfg["delay"], cfg["tol"]
    K = math.ceil(delay / dt)
    cols = []
    for d in range(D):
        col = []
        for e in range(n):
            f = fam[(d + e) % len(fam)] if fam else rng.choice(
                ["grid", "grid", "between", "between", "near", "limit", "beyond", "beyond", "negative"])
            k = rng.randint(0, K)
            if f == "grid":
                v = k * dt
            elif f == "between":
                v = (max(k - 1, 0) + rng.choice([0.25, 0.5, 0.75, 0.125])) * dt
            elif f == "near":
                v = k * dt + rng.choice([-2, -1, -0.5, 0.5, 1, 2]) * (tol if tol > 0 else dt / 16)
            elif f == "limit":
                v = delay + rng.choice([0, 0.5, 1, -0.5]) * tol
            elif f == "beyond":
                v = delay + rng.choice([tol * 2 if tol > 0 else dt / 8, dt / 4, dt, 3 * dt, K * dt - delay + dt / 2, K * dt - delay])
            else:
                v = -rng.choice([tol / 2 if tol > 0 else dt / 8, tol, 2 * tol if tol > 0 else dt, dt])
            col.append(float(v))
        cols.append(col)
    return cols


def make_steps(rng, cfg, T, D, fam=None, clear_at=None, query_every=1):
    n = nelem(cfg)
    steps = []
    p = rng.choice([0.2, 0.5, 0.8])
    for t in range(T):
        st = {"x": [1.0 if rng.random() < p else 0.0 for _ in range(n)], "inj": [], "sel": []}
        if cfg["kind"] == "deltaplus":
            st["inj"] = [[dy(rng, -8, 8, 8) for _ in range(n)] for _ in range(cfg["ninj"])]
        if t % query_every == 0:
            st["sel"] = selectors(rng, cfg, n, D if cfg["seldim"] else 1, fam)
        if clear_at is not None and t == clear_at:
            st["clear"] = True
        steps.append(st)
    return steps


def base_cfg(rng, kind, dmul, mode, tolf, over_none, inplace, shape=(2,), batch=1, seldim=None):
    dt = rng.choice([0.25, 0.5, 1.0, 2.0])
    tau = rng.choice([2.0, 4.0, 5.0, 10.0, 20.0])
    cfg = {"kind": kind, "dt": dt, "delay": dmul * dt, "Q": rng.choice([1.0, 2.0, 0.5, -1.5, 25.0]),
           "tau": tau, "tauR": tau / rng.choice([2.0, 4.0, 1.25]), "mode": mode, "tol": tolf * dt,
           "curOver": None if over_none else rng.choice([0.0, -7.0, 3.5]),
           "spkOver": None if over_none else rng.choice([False, True]),
           "inplace": inplace, "shape": list(shape), "batch": batch, "xbool": rng.random() < 0.5,
           "ninj": rng.choice([0, 1, 2]),
           # selectors carry the documented trailing dimension [D] (B x N... x D) or have exactly the batched shape
           "seldim": (rng.random() < 0.75) if seldim is None else seldim}
    return cfg


FAMS = ["grid", "between", "near", "limit", "beyond", "negative"]


def boundary_cases(rng, T):
    cases = []
    i = 0
    for kind in KINDS:
        for dmul in (0.0, 1.0, 3.0, 2.5):
            for mode in "PN":
                for tolf in (0.0, 0.25, 0.125):
                    for over_none in (False, True):
                        cfg = base_cfg(rng, kind, dmul, mode, tolf, over_none, inplace=bool(i % 2), seldim=(i % 3 != 2))
                        i += 1
                        cfg["steps"] = make_steps(rng, cfg, T, 6, fam=FAMS)
                        cases.append(cfg)
    # every class once more with the step time ASSIGNED after construction (delay 0 and multi-step)
    for kind in KINDS:
        for dmul in (0.0, 3.0):
            cfg = base_cfg(rng, kind, dmul, rng.choice("PN"), 0.0, False, inplace=bool(i % 2), seldim=True)
            i += 1
            cfg["ctor_dt"] = 2.0 if cfg["dt"] != 2.0 else 0.5
            cfg["steps"] = make_steps(rng, cfg, T, 3, fam=FAMS)
            cases.append(cfg)
    return cases


def random_case(rng, T):
    kind = rng.choice(KINDS)
    shape = rng.choice([(1,), (3,), (2, 2), (2, 1, 2), (4,)])
    cfg = base_cfg(rng, kind, rng.choice([0.0, 1.0, 3.0, 2.5, 2.0, 0.5, 4.75]), rng.choice("PN"),
                   rng.choice([0.0, 0.0, 0.25, 0.125, 0.0625]), rng.random() < 0.35, rng.random() < 0.5,
                   shape=shape, batch=rng.choice([1, 2, 3]))
    if rng.random() < 0.2:      # mixed: overbound value for one, None for the other
        cfg["curOver"] = rng.choice([None, -2.0])
        cfg["spkOver"] = rng.choice([None, True, False])
    if rng.random() < 0.25:     # step time assigned after construction
        cfg["ctor_dt"] = rng.choice([d for d in (0.25, 0.5, 1.0, 2.0) if d != cfg["dt"]])
    cfg["steps"] = make_steps(rng, cfg, T, rng.choice([1, 2, 4]), clear_at=rng.randrange(T) if rng.random() < 0.3 else None,
                              query_every=rng.choice([1, 1, 2]))
    return cfg


# ---------------------------------------------------------------------------------------------
# shrinking, keys, exploration

def key_of(cfg, d):
    kind, e, t, what, sel = d[0], d[1], d[2], d[3], d[4]
    k = f"C04:{kind}:{cfg['kind']}:{what}"
    if sel is not None:
        k += ":" + sel_class(cfg, sel)
    return k


def shrink(ctx, cfg, d):
    """truncate to the failing step, keep only the failing selector, then try a single element"""
    kind, e, t, what, sel = d[0], d[1], d[2], d[3], d[4]

    def still(c):
        try:
            ds = check_case(ctx, c)
        except Exception:
            return None
        ds = [x for x in ds if x[0] == kind and x[3] == what]
        return ds[0] if ds else None

    best, bd = cfg, d
    c = dict(cfg, steps=[dict(s) for s in cfg["steps"][: t + 1]])
    for s in c["steps"][:-1]:
        s["sel"] = []
    if sel is not None:
        cols = [col for col in c["steps"][-1]["sel"] if col[e] == sel][:1]
        if cols:
            c["steps"][-1]["sel"] = cols
    r = still(c)
    if r:
        best, bd = c, r
        e = r[1]
        one = dict(c, shape=[1], batch=1, steps=[
            {"x": [s["x"][e]], "inj": [[v[e]] for v in s["inj"]], "sel": [[col[e]] for col in s["sel"]],
             **({"clear": True} if s.get("clear") else {})} for s in c["steps"]])
        r1 = still(one)
        if r1:
            best, bd = one, r1
            # drop leading steps while it still fails
            while len(best["steps"]) > 1:
                c2 = dict(best, steps=best["steps"][1:])
                r2 = still(c2)
                if not r2:
                    break
                best, bd = c2, r2
    return best, bd


def describe(cfg, d):
    kind, e, t, what, sel, want, got = d
    side = "specification (closed-form sums / k-steps-ago lookup)" if kind == "spec" else "code-shaped model"
    s = f"{CLS[cfg['kind']].__name__} element {e} step {t}: {what}"
    if sel is not None:
        s += f"(selector={sel}; delay={cfg['delay']}, dt={cfg['dt']}, tol={cfg['tol']}, overbound=({cfg['curOver']},{cfg['spkOver']}))"
    if isinstance(got, str) and got.startswith("err"):
        s += " (the call raised for the whole selector tensor)"
    return s + f" is {got}, the {side} gives {want}"


def corpus_cases():
    import json
    from pathlib import Path
    d = Path(__file__).resolve().parent.parent.parent / "corpus" / "C04"
    return [json.loads(f.read_text()) for f in sorted(d.glob("*.json"))] if d.exists() else []


def explore(ctx) -> Exploration:
    torch.set_default_dtype(torch.float64)
    ex = Exploration()
    rng = ctx.rng
    thorough = ctx.tier == "thorough" or ctx.intensify
    transval.validate(ctx, SPEC["translate"], ex, per_fn=60 if not thorough else 300)
    cases = corpus_cases()
    ncorpus = len(cases)
    cases += boundary_cases(rng, 8 if not thorough else 14)
    nb = len(cases) - ncorpus
    cases += [random_case(rng, rng.choice([6, 12, 20]) if not thorough else rng.choice([12, 30, 50]))
              for _ in range(150 if not thorough else 1200)]
    # one driver process for everything
    lines, plan = [], []
    for cfg in cases:
        obs, rsz = run_real(cfg)
        spans = []
        for e in range(nelem(cfg)):
            a = len(lines)
            lines += element_lines(cfg, e)
            spans.append((a, len(lines)))
        plan.append((cfg, obs, rsz, spans))
    resp = ctx.run_driver(DRIVER, lines)
    failing = []
    for cfg, obs, rsz, spans in plan:
        ex.traces_validated += len(spans)
        ex.count("class", cfg["kind"])
        ex.count("step time set by", "setter after construction" if cfg.get("ctor_dt") not in (None, cfg["dt"]) else "constructor")
        ex.count("delay/dt", str(cfg["delay"] / cfg["dt"]))
        ex.count("tolerance/dt", str(cfg["tol"] / cfg["dt"]))
        ex.count("overbound", f"cur={'None' if cfg['curOver'] is None else 'value'},spk={'None' if cfg['spkOver'] is None else 'value'}")
        ex.count("mode", cfg["mode"])
        ex.count("inplace", str(cfg["inplace"]))
        ex.count("batch", str(cfg["batch"]))
        ex.count("shape", "x".join(map(str, cfg["shape"])))
        ex.count("recordsz", str(rsz))
        ex.count("selector_shape", ("B x N x D" if cfg["seldim"] else "B x N") + (" (undelayed)" if rsz == 1 else ""))
        for st in cfg["steps"]:
            ex.evaluations += nelem(cfg) * (1 + 2 * len(st["sel"]))
            for col in st["sel"]:
                for v in col:
                    ex.count("selector", sel_class(cfg, v))
        for e in range(nelem(cfg)):
            if any(st["x"][e] for st in cfg["steps"]):
                ex.nontriv((begin_line(cfg), e, tuple(st["x"][e] for st in cfg["steps"]),
                            tuple(tuple(col[e] for col in st["sel"]) for st in cfg["steps"])))
        ds = judge(cfg, obs, rsz, resp, spans)
        if ds:
            failing.append((cfg, ds[0]))
        # relational: in-place vs out-of-place on the real code, bit for bit
        obs2, _ = run_real(cfg, inplace=not cfg["inplace"])
        ex.evaluations += len(obs)
        if obs2 != obs:
            t = next(i for i, (a, b) in enumerate(zip(obs, obs2)) if a != b)
            failing.append((cfg, ("spec", 0, t, "inplace-vs-out-of-place", None, obs[t], obs2[t])))
    seen = {}
    for cfg, d in failing:
        k = key_of(cfg, d)
        if k in seen or len(seen) >= 6:
            continue
        if d[3] == "inplace-vs-out-of-place":
            small, sd = cfg, d
        else:
            small, sd = shrink(ctx, cfg, d)
        seen[k] = True
        ex.findings.append(Finding(kind=sd[0], key=key_of(small, sd), what=describe(small, sd),
                                   case={"cfg": small, "element": sd[1], "step": sd[2], "observable": sd[3], "selector": sd[4],
                                         "expected": sd[5], "observed": sd[6],
                                         "disagreement": "code vs specification" if sd[0] == "spec" else "code vs code-shaped model"}))
    ex.rule = ("corpus (regression inputs of D5, D33) + boundary stream: every (class, delay in {0,dt,3dt,2.5dt}, interpolation mode, tolerance in {0,dt/4,dt/8}, overbound value/None) "
               "with selectors rotating through the families on-grid / between / within-tolerance / at-the-limit / beyond-range / negative; "
               "random stream: shapes up to 3 dims, batch 1-3, delays incl. 0.5dt, 2dt, 4.75dt, bool or 0/1-float spike trains, 0-2 injected "
               "currents, optional clear() mid-run, 1-4 selector columns; one case element = one trajectory (current, spike and all queries "
               "after every step); non-trivial = the element received at least one spike; distinct = distinct (config, spike train, selectors)")
    ex.samples = [{k: v for k, v in cases[ncorpus].items() if k != "steps"} | {"step0": cases[ncorpus]["steps"][0]},
                  {k: v for k, v in cases[-1].items() if k != "steps"} | {"step0": cases[-1]["steps"][0]}]
    ex.extra["streams"] = {"corpus": ncorpus, "boundary": nb, "random": len(cases) - nb - ncorpus, "driver_lines": len(lines)}
    return ex


def replay(ctx, data) -> int:
    torch.set_default_dtype(torch.float64)
    case = data.get("failing_input")
    if not case:
        print("no failing input recorded:", data.get("broken"))
        return 1
    cfg = case["cfg"]
    print({k: v for k, v in cfg.items() if k != "steps"})
    for t, st in enumerate(cfg["steps"]):
        print(" step", t, st)
    if case.get("observable") == "inplace-vs-out-of-place":
        a, _ = run_real(cfg)
        b, _ = run_real(cfg, inplace=not cfg["inplace"])
        print("DISAGREEMENT in-place vs out-of-place" if a != b else "agrees")
        return 1 if a != b else 0
    ds = check_case(ctx, cfg)
    for d in ds:
        print("DISAGREEMENT", describe(cfg, d))
    if not ds:
        print("agrees")
    return 1 if ds else 0
