"""C11 — batch samples never interact.

Relational (2-safety) comparison on the REAL code: a batch-B component versus B separately CONSTRUCTED batch-1
copies that receive the same parameters through `state_dict()` (never `copy.deepcopy`, never `batchsz = 1`), every
step of a seeded input sequence, every state attribute, `torch.equal` per sample:
  (N) the 8 neuron classes with adaptation frozen (adapt=False) — and the adaptations must not move;
  (S) the 4 synapse classes, with and without delay, incl. records + pointers and `current_at/spike_at` with
      per-sample selectors;
  (C) the 4 connection classes with and without heterogeneous learned delays;
  (L) Serial / Biclique / RecurrentSerial layers;
  (T) every trainer with `batch_reduction=torch.sum`: batched accumulator parts == sum over samples of the
      single-sample parts (1e-9 relative, float64);
  (S-long) the 4 synapse classes on LONG histories with per-sample activity windows (one sample silent after its first steps, one
      active throughout, the others starting late / stopping early), short time constants, float64 AND float32: samples whose
      state differs by the whole dynamic range of the dtype share the batched tensors;
  (C-wide) the 4 connection classes at presynaptic widths 24 … 1024 (conv: 8x8 … 32x32 images), batch sizes up to 5, with every
      sample independently blank on a step / starting late, so blank samples sit at any batch index.
  (C-large) dense / lateral / convolutional connections whose batch x inputs x outputs product (size of the delay selector and of the
      delay-selected currents) reaches 2^21, batch sizes up to 8 (implementations may split large selections);
  (T-grid) every trainer x every connection class with learned delays, the trainer in its delayed mode, convolutions with 2-4
      filters, batch 2-4, batch_reduction=sum: the combinations are enumerated instead of drawn;
  (A) adaptation ON: the four adaptive neuron classes with batch_reduction in {sum, mean, amax, amin, prod, a user-defined one}: per-sample
      spikes / voltages == the batch-1 copies started from the same adaptations, and the batched adaptation == the configured reduction
      of the copies' adaptations (the documented coupling), also for an unreduced tensor assigned through the public setter.
The Lean side (`Model/Batch.lean`, `Props/C11.lean`) is thin — see SPEC assumptions.
"""
from __future__ import annotations

import copy
import json
import math
import time

import torch

import inferno
import inferno.neural as snn

from runner import Exploration, Finding
from corr import netbuild as nb

SPEC = {
    "prop": "C11",
    "lean_targets": ["InfernoVerif.Props.C11", "InfernoVerif.Model.Batch"],
    "prop_files": ["InfernoVerif/Props/C11.lean"],
    "lemma_files": ["InfernoVerif/Lemmas/Batch.lean"],
    "model_files": ["InfernoVerif/Model/Batch.lean"],
    "driver_targets": ["InfernoVerif.Model.Batch"],
    "assumptions": [
        "THIN Lean content (by design, DESIGN §6 C11): the theorems are about the batch STRUCTURE — a batched step that maps a per-sample "
        "function over samples commutes with projection (one step and whole runs); gather/scatter with per-position offsets and the expanded "
        "selector act per column; a sum reduction is linear (per step and over runs).  That the real neuron / synapse / connection / layer / "
        "trainer classes have this structure is NOT proved in Lean: it is what the relational comparison on the real code checks, and the "
        "claim rests as much on that comparison as on the theorems; there is no driver (nothing of the real code is re-executed in Lean here)",
        "adaptation is frozen (adapt=False) in all streams but `neuron-adapt`; with adaptation on, samples are coupled by the documented batch "
        "reduction: `neuron-adapt` checks exactly that coupling — batched adaptation == batch_reduction(stack of the adaptations of batch-1 copies "
        "stepped from the same state, 0) to 1e-9 relative, for sum / mean / amax / amin / prod / a user-defined reduction that is the identity on a "
        "single sample — one step at a time (the copies are re-synchronised to the batched neuron's adaptations before every step)",
        "copies are constructed independently with batch_size=1 and receive the non-batched entries (weights, biases, delays, adaptations) "
        "through state_dict()/load_state_dict(strict=False); batched entries start from their constructor values on both sides",
        "trainer comparison: batch_reduction=torch.sum, accumulators cleared (not applied) after each step so that parameters stay identical; "
        "float64, 1e-9 relative (sums are re-associated)",
        "bit-exactness across batch sizes is demanded wherever the code performs no floating-point reduction over presynaptic elements "
        "(neurons, synapses, records, pointers, spikes, direct connections) and — in the exact-arithmetic half of the connection / layer / trainer "
        "cases (dyadic weights, delta-type synapses) — of everything; where F.linear / einsum / conv sum non-dyadic terms, torch picks different "
        "summation orders for different batch sizes, and floating-point entries downstream are compared to 1e-12 (outputs) / 1e-9 (state) relative",
        "CPU; float64 everywhere except the long-history synapse stream, which alternates float64 and float32 (default dtype at construction)",
        "wide stream: delayed lateral connections are capped at 64 units and delayed convolutions at 16x16 images (cost of the per-pair history reads); "
        "undelayed and dense-delayed connections go up to 1024 inputs",
    ],
}


def approx(a: torch.Tensor, b: torch.Tensor, tol=1e-9) -> bool:
    if a.shape != b.shape:
        return False
    d = (a - b).abs()
    lim = tol * torch.maximum(torch.ones_like(a), torch.maximum(a.abs(), b.abs()))
    return bool((d <= lim).all())


def copy_params(src, dst):
    """give `dst` (batch 1) the parameters of `src` (batch B): every state-dict entry that is not batch-shaped"""
    sd, td = src.state_dict(), dst.state_dict()
    sub = {k: v.detach().clone() for k, v in sd.items()
           if isinstance(v, torch.Tensor) and k in td and td[k].shape == v.shape}
    dst.load_state_dict(sub, strict=False)
    return sorted(sub)


def sample_of(name, xB, x1, b, B):
    """slice of the batched entry that corresponds to sample b, shaped like the single-sample entry; None if the
    entry is not batched (shapes equal)"""
    if xB.shape == x1.shape:
        return None
    if xB.ndim != x1.ndim:
        raise AssertionError(f"{name}: rank {tuple(xB.shape)} vs {tuple(x1.shape)}")
    dims = [d for d in range(xB.ndim) if xB.shape[d] != x1.shape[d]]
    if len(dims) != 1 or x1.shape[dims[0]] != 1 or xB.shape[dims[0]] != B:
        raise AssertionError(f"{name}: cannot locate the batch axis {tuple(xB.shape)} vs {tuple(x1.shape)}")
    return xB.narrow(dims[0], b, 1)


def compare_snapshots(snapB, snaps1, B, tol=None):
    """first per-sample disagreement between the batched snapshot and the single-sample snapshots.
    tol=None: torch.equal on everything.  tol=t: floating-point entries may differ by t (relative) — used ONLY downstream of a
    floating-point reduction over presynaptic elements (F.linear / einsum / conv pick different summation orders for different
    batch sizes, so sums of non-dyadic terms differ in the last bits); discrete entries (spikes, pointers, flags) stay exact"""
    for k in sorted(snapB):
        xB = snapB[k]
        for b in range(B):
            if k not in snaps1[b]:
                return (k, b, "entry missing in the single-sample copy")
            x1 = snaps1[b][k]
            if not isinstance(xB, torch.Tensor):
                if xB != x1:
                    return (k, b, f"{xB!r} vs {x1!r}")
                continue
            if x1 is None or not isinstance(x1, torch.Tensor):
                return (k, b, f"tensor vs {x1!r}")
            s = sample_of(k, xB, x1, b, B)
            s = xB if s is None else s
            if s.dtype != x1.dtype or not torch.equal(s, x1):
                if tol is not None and s.dtype == x1.dtype and s.is_floating_point() and s.shape == x1.shape and approx(s, x1, tol):
                    continue
                same_nan = s.shape == x1.shape and torch.equal(torch.isnan(s.double()), torch.isnan(x1.double())) and \
                    torch.equal(torch.nan_to_num(s.double()), torch.nan_to_num(x1.double()))
                if not same_nan:
                    idx = (s != x1).nonzero()[0].tolist() if s.shape == x1.shape else []
                    return (k, b, f"batched {s[tuple(idx)].item() if idx else tuple(s.shape)} vs single {x1[tuple(idx)].item() if idx else tuple(x1.shape)} at {idx}")
    return None


def add(ex, key, what, case, cap=2):
    if len([f for f in ex.findings if f.key == key]) < cap:
        ex.findings.append(Finding("spec", key, what, case))


def cat(name):
    for pat, c in (("pointer", "pointer"), ("adaptation", "adaptation"), ("voltage", "voltage"), ("refrac", "refrac"),
                   ("spike_", "spike-record"), ("current_", "current-record"), ("syncurrent", "syncurrent"),
                   ("current", "current"), ("spike", "spike"), ("weight", "weight"), ("feedback", "feedback"),
                   ("forward", "output"), ("output", "output")):
        if pat in name:
            return c
    return "other"


# ------------------------------------------------------------------------------------------ (N) neurons
def neuron_stream(ctx, ex, thorough):
    rng = ctx.rng
    T = 30 if thorough else 16
    for kind in nb.NEURON_KINDS:
        for rep in range(40 if thorough else 10):
            cfg = nb.neuron_cfg(rng, kind)
            shape = rng.choice([(3,), (2, 2), (4,)])
            B = rng.choice([2, 3, 4])
            lock = rng.random() < 0.7
            g = nb.gen(rng.randrange(2**31))
            big = nb.build_neuron(cfg, shape, B, cfg["dt"])
            ad = nb.adaptation_of(big)
            if ad is not None:     # non-trivial, non-uniform learned adaptations
                val = torch.rand(ad.shape, generator=g) * 2.0
                if hasattr(big, "threshold_adaptation_"):
                    big.threshold_adaptation = val
                else:
                    big.current_adaptation = val
            ad0 = None if ad is None else nb.adaptation_of(big).detach().clone()
            singles = [nb.build_neuron(cfg, shape, 1, cfg["dt"]) for _ in range(B)]
            copied = [copy_params(big, s) for s in singles][0]
            gap = (cfg["thresh"] - cfg["rest"]) / cfg["R"]
            case = {"stream": "neuron", "class": kind, "cfg": cfg, "shape": list(shape), "batch": B, "lock": lock, "steps": T}
            ex.count("neuron", kind)
            bad = None
            nsp = 0
            xs = []
            for t in range(T):
                x = (torch.rand(B, *shape, generator=g) * 6.0 - 1.0) * gap * (8.0 if rng.random() < 0.3 else 1.0)
                xs.append(x)
                kw = {"refrac_lock": lock}
                if kind in nb.ADAPTIVE:
                    kw["adapt"] = False
                with torch.no_grad():
                    sB = big(x, **kw)
                    s1 = [s(x[b:b + 1], **kw) for b, s in enumerate(singles)]
                nsp += int(sB.sum())
                ex.evaluations += 1
                for b in range(B):
                    if not torch.equal(sB[b:b + 1], s1[b]):
                        bad = (t, b, "output spikes", f"{sB[b].tolist()} vs {s1[b][0].tolist()}")
                        break
                if not bad:
                    d = compare_snapshots(nb.snapshot({"n": big}), [nb.snapshot({"n": s}) for s in singles], B)
                    if d:
                        bad = (t, d[1], d[0], d[2])
                if not bad and ad0 is not None and not torch.equal(nb.adaptation_of(big), ad0):
                    add(ex, f"C11:neuron:{kind}:adaptation-moved-with-adapt-false",
                        f"{kind}: adaptations changed at step {t} although adapt=False", dict(case, step=t, inputs=[v.tolist() for v in xs]))
                    break
                if bad:
                    add(ex, f"C11:neuron:{kind}:{cat(bad[2])}", f"{kind} batch {B}: sample {bad[1]} differs from its batch-1 copy at step {bad[0]}: "
                        f"{bad[2]}: {bad[3]}", dict(case, step=bad[0], sample=bad[1], entry=bad[2], inputs=[v.tolist() for v in xs]))
                    break
            ex.traces_validated += 1
            if nsp and not bad:
                ex.nontriv(("neuron", kind, json.dumps(cfg), B, lock))


# ------------------------------------------------------------------------------------------ (S) synapses
def synapse_stream(ctx, ex, thorough):
    rng = ctx.rng
    T = 24 if thorough else 12
    for kind in nb.SYNAPSES:
        for delayed in (False, True):
            for rep in range(30 if thorough else 8):
                sc = nb.synapse_cfg(rng, kind)
                dt = rng.choice([0.5, 1.0])
                delay = rng.choice([2.0, 3.0]) if delayed else 0.0
                shape = rng.choice([(3,), (2, 2)])
                B = rng.choice([2, 3])
                g = nb.gen(rng.randrange(2**31))
                big = nb.build_synapse(sc, shape, dt, delay, B)
                singles = [nb.build_synapse(sc, shape, dt, delay, 1) for _ in range(B)]
                for s in singles:
                    copy_params(big, s)
                case = {"stream": "synapse", "class": kind, "cfg": sc, "dt": dt, "delay": delay, "shape": list(shape), "batch": B}
                ex.count("synapse", kind + ("+delay" if delayed else ""))
                bad = None
                xs = []
                for t in range(T):
                    x = (torch.rand(B, *shape, generator=g) < 0.5).to(torch.float64)
                    xs.append(x)
                    D = rng.choice([1, 2])
                    sel = torch.randint(0, int(2 * max(delay, dt) / dt) + 2, (B, *shape, D), generator=g).to(torch.float64) * (dt / 2)
                    with torch.no_grad():
                        oB = big(x)
                        o1 = [s(x[b:b + 1]) for b, s in enumerate(singles)]
                        reads = {"forward": (oB, o1),
                                 "current_at": (big.current_at(sel), [s.current_at(sel[b:b + 1]) for b, s in enumerate(singles)]),
                                 "spike_at": (big.spike_at(sel), [s.spike_at(sel[b:b + 1]) for b, s in enumerate(singles)])}
                    ex.evaluations += 1
                    for nm, (rB, r1) in reads.items():
                        for b in range(B):
                            if rB[b:b + 1].shape != r1[b].shape or not torch.equal(rB[b:b + 1], r1[b]):
                                bad = (t, b, nm, f"{rB[b].flatten().tolist()[:6]} vs {r1[b].flatten().tolist()[:6]}")
                                break
                        if bad:
                            break
                    if not bad:
                        d = compare_snapshots(nb.snapshot({"s": big}), [nb.snapshot({"s": s}) for s in singles], B)
                        if d:
                            bad = (t, d[1], d[0], d[2])
                    if bad:
                        add(ex, f"C11:synapse:{kind}:{cat(bad[2])}", f"{kind} (delay {delay}) batch {B}: sample {bad[1]} differs from its batch-1 copy at "
                            f"step {bad[0]}: {bad[2]}: {bad[3]}", dict(case, step=bad[0], sample=bad[1], entry=bad[2], inputs=[v.tolist() for v in xs]))
                        break
                ex.traces_validated += 1
                if not bad:
                    ex.nontriv(("synapse", kind, delayed, json.dumps(sc), B))


def synapse_long_stream(ctx, ex, thorough):
    """long histories with per-sample ACTIVITY WINDOWS, in both floating-point precisions: one sample of the batch (at a random batch
    index) receives spikes during its first 1-3 steps only and is silent for the rest of the run, one is active throughout, the
    others have random windows (late start / early stop).  Time constants are short (0.5, 1 or 2 steps), so that over the run the
    quiet sample's state decays through the whole dynamic range of the dtype (down to denormals in float32) while its neighbours
    stay at full scale — samples of very different magnitude share the batched tensors.  Same observables as the short synapse
    stream: forward output, current_at / spike_at with per-sample selectors, records, pointers; torch.equal per sample"""
    rng = ctx.rng
    T = 112 if thorough else 80
    try:
        for kind in nb.SYNAPSES:
            for delayed in (False, True):
                for rep in range(10 if thorough else 4):
                    dtype = torch.float32 if rep % 2 else torch.float64
                    torch.set_default_dtype(dtype)
                    dt = rng.choice([0.5, 1.0])
                    ratio = [0.5, 1.0, 2.0][(rep // 2 + rng.randrange(3)) % 3]
                    sc = nb.synapse_cfg(rng, kind)
                    sc["tc"] = ratio * dt              # singleexp: time constant; doubleexp: decay 2·tc, rise tc/2 (see netbuild.synapse_constructor)
                    sc["tc_rise"] = ratio * dt / 2
                    delay = rng.choice([2.0, 3.0]) if delayed else 0.0
                    shape = rng.choice([(3,), (2, 2)])
                    B = rng.choice([2, 3, 4])
                    g = nb.gen(rng.randrange(2**31))
                    order = list(range(B))
                    rng.shuffle(order)
                    windows = [None] * B
                    windows[order[0]] = (0, rng.choice([1, 2, 3]))            # the quiet sample
                    windows[order[1]] = (0, T)                                 # the busy sample
                    for b in order[2:]:
                        a = rng.randrange(0, T // 2)
                        windows[b] = (a, rng.randrange(a + 1, T + 1))
                    big = nb.build_synapse(sc, shape, dt, delay, B)
                    singles = [nb.build_synapse(sc, shape, dt, delay, 1) for _ in range(B)]
                    for s in singles:
                        copy_params(big, s)
                    case = {"stream": "synapse-long", "class": kind, "cfg": sc, "dt": dt, "delay": delay, "shape": list(shape), "batch": B,
                            "dtype": str(dtype), "steps": T, "activity_windows": windows}
                    ex.count("synapse-long", kind + ("+delay" if delayed else ""))
                    ex.count("synapse-long-dtype", str(dtype))
                    ex.count("synapse-long-time-constant-in-steps", str(ratio))
                    bad = None
                    xs = []
                    fed = False
                    for t in range(T):
                        x = (torch.rand(B, *shape, generator=g) < 0.6).to(dtype)
                        for b in range(B):
                            if not windows[b][0] <= t < windows[b][1]:
                                x[b] = 0
                        fed = fed or bool(x[order[0]].any())
                        xs.append(x)
                        D = rng.choice([1, 2])
                        sel = torch.randint(0, int(2 * max(delay, dt) / dt) + 2, (B, *shape, D), generator=g).to(dtype) * (dt / 2)
                        with torch.no_grad():
                            o1 = [s(x[b:b + 1]) for b, s in enumerate(singles)]
                            r1 = {"current_at": [s.current_at(sel[b:b + 1]) for b, s in enumerate(singles)],
                                  "spike_at": [s.spike_at(sel[b:b + 1]) for b, s in enumerate(singles)]}
                            try:
                                reads = {"forward": (big(x), o1), "current_at": (big.current_at(sel), r1["current_at"]),
                                         "spike_at": (big.spike_at(sel), r1["spike_at"])}
                            except Exception as e:  # noqa: BLE001 - the batch-1 copies ran
                                add(ex, f"C11:synapse:{kind}:batched-raises", f"{kind} (delay {delay}, {dtype}) batch {B}: the batched synapse raises "
                                    f"{type(e).__name__} at step {t} ({str(e)[:160]}) while its batch-1 copies run",
                                    dict(case, step=t, inputs=[v.tolist() for v in xs]))
                                bad = (t, 0, "raises", "")
                                break
                        ex.evaluations += 1
                        for nm, (rB, rs) in reads.items():
                            for b in range(B):
                                if rB[b:b + 1].shape != rs[b].shape or rB.dtype != rs[b].dtype or not torch.equal(rB[b:b + 1], rs[b]):
                                    i = (rB[b:b + 1] != rs[b]).flatten().nonzero().flatten().tolist()[:1] if rB[b:b + 1].shape == rs[b].shape else []
                                    bad = (t, b, nm, (f"batched {rB[b:b + 1].flatten()[i[0]].item()!r} vs single {rs[b].flatten()[i[0]].item()!r} at flat index {i[0]}"
                                                      if i else f"{tuple(rB[b:b + 1].shape)}/{rB.dtype} vs {tuple(rs[b].shape)}/{rs[b].dtype}"))
                                    break
                            if bad:
                                break
                        if not bad:
                            d = compare_snapshots(nb.snapshot({"s": big}), [nb.snapshot({"s": s}) for s in singles], B)
                            if d:
                                bad = (t, d[1], d[0], d[2])
                        if bad:
                            add(ex, f"C11:synapse:{kind}:{cat(bad[2])}", f"{kind} (delay {delay}, {dtype}, time constant {sc['tc']}, dt {dt}) batch {B}, activity "
                                f"windows {windows}: sample {bad[1]} differs from its batch-1 copy at step {bad[0]}: {bad[2]}: {bad[3]}",
                                dict(case, step=bad[0], sample=bad[1], entry=bad[2], inputs=[v.tolist() for v in xs]))
                            break
                    ex.traces_validated += 1
                    if not bad and fed:
                        ex.nontriv(("synapse-long", kind, delayed, json.dumps(sc), B, str(dtype), json.dumps(windows)))
    finally:
        torch.set_default_dtype(torch.float64)


# ------------------------------------------------------------------------------------------ (C) connections
WIDTHS = [24, 96, 320, 512, 768, 1024]      # presynaptic widths of the wide stream: small to "large enough that a library switches code paths"
CONV_SIDES = [8, 16, 23, 32]
LATERAL_DELAYED_WIDTHS = [16, 24, 48, 64]
CONV_DELAYED_SIDES = [8, 10, 12, 16]
# the large stream: (inputs, outputs) of dense connections, (units, units) of lateral ones, (image side, filters) of convolutions; the
# LAST entry of each pool is part of every run
LARGE_KINDS = ["dense", "lateral", "conv"]
LARGE_SIZES = {"dense": [(128, 128), (640, 96), (256, 256), (384, 200), (1024, 300), (512, 512)],
               "lateral": [(128, 128), (192, 192), (256, 256), (384, 384), (512, 512)],
               "conv": [(16, 4), (20, 6), (24, 8), (32, 8)]}


def active_indices(x):
    """compact record of a wide spike tensor: per sample, the flat indices of the active inputs"""
    return [x[b].flatten().nonzero().flatten().tolist() for b in range(x.shape[0])]


def connection_stream(ctx, ex, thorough, wide=False):
    """wide=False: the small connections (3-5 inputs).  wide=True (run as the separate stream `connection-wide`, with its own PRNG):
    the same comparison on connections whose presynaptic width ranges over two orders of magnitude (implementations may switch
    code paths by size), batch sizes up to 5, and per-sample activity patterns — every sample is independently blank on a step
    with probability 0.35 and may start late, so blank samples occur at ANY batch index, before and after active ones"""
    rng = ctx.rng
    large = wide == "large"
    T = (6 if thorough else 4) if large else (12 if thorough else 8) if wide else (20 if thorough else 10)
    sname = "connection-large" if large else "connection-wide" if wide else "connection"
    for kind in (LARGE_KINDS if large else nb.CONNECTIONS):
        for delayed in (False, True):
            nrep = (8 if thorough else 4) if wide else (30 if thorough else 8)
            if large:
                # the per-pair / per-patch-element selector of a delayed connection has batch x inputs x outputs elements: sizes are
                # drawn so that this product ranges over 2^15 .. 2^21 (every run includes the largest size of the pool), batch sizes
                # up to 8; undelayed connections of the same sizes get one case (two in the thorough tier)
                nrep = (6 if thorough else 3) if delayed else (2 if thorough else 1)
                pool = LARGE_SIZES[kind]
                widths = [pool[-1]] + rng.sample(pool[:-1], min(nrep - 1, len(pool) - 1))
                widths = widths + [rng.choice(pool) for _ in range(nrep - len(widths))]
            elif wide:
                # delayed all-to-all lateral connections read a (batch x n x n) history per step, delayed convolutions one entry per
                # (patch, kernel element): both are capped to keep the quick tier quick
                pool = ((CONV_DELAYED_SIDES if delayed else CONV_SIDES) if kind == "conv"
                        else LATERAL_DELAYED_WIDTHS if (kind == "lateral" and delayed) else WIDTHS)
                widths = rng.sample(pool, min(nrep, len(pool)))      # without replacement: every run covers small AND large
                widths = widths + [rng.choice(pool) for _ in range(nrep - len(widths))]
            for rep in range(nrep):
                exact = rep % 2 == 0 or kind == "direct"
                # exact mode: dyadic weights and delta-type synapses make every sum exact, so torch.equal is demanded of the outputs
                # too; otherwise (exponential synapses, arbitrary weights) the reduced output is compared to 1e-12 relative
                dy = rep % 2 == 0
                cc = nb.connection_cfg(rng, kind, nb.synapse_cfg(rng, rng.choice(["delta", "deltaplus"] if dy else nb.SYNAPSES)), delayed, dyadic=dy,
                                       **({"n_in": widths[rep][0] if large else widths[rep]} if wide and kind != "conv" else {}))
                if large and kind == "conv":
                    cc["h"] = cc["w"] = widths[rep][0]
                    cc["f"] = widths[rep][1]
                elif large and kind == "dense":
                    cc["out"] = widths[rep][1]
                elif wide and kind == "conv":
                    cc["h"] = cc["w"] = widths[rep]
                dt = rng.choice([0.5, 1.0])
                B = rng.choice([3, 4, 5, 6, 8] if large else [2, 3, 4, 5] if wide else [2, 3])
                g = nb.gen(rng.randrange(2**31))
                # resized: the batched connection is built (and used for a step) at ANOTHER batch size, then brought to B through
                # the public `batchsz` setter and cleared — anything cached per batch size must follow
                resized = rep % 4 in (1, 2)
                if resized:
                    B0 = rng.choice([b0 for b0 in (1, 2, 4) if b0 != B])
                    big = nb.build_connection(cc, dt, B0)
                    with torch.no_grad():
                        big((torch.rand(B0, *big.inshape, generator=g) < 0.5).to(torch.float64))
                        _ = big.syncurrent, big.synspike
                    big.batchsz = B
                    big.clear()
                else:
                    big = nb.build_connection(cc, dt, B)
                singles = []
                for b in range(B):
                    c1 = nb.build_connection(dict(cc, wseed=cc["wseed"] + 1 + b), dt, 1)    # constructed with OTHER weights
                    copy_params(big, c1)
                    singles.append(c1)
                case = {"stream": sname, "class": kind, "cfg": cc, "dt": dt, "batch": B, "exact": exact, "resized_from": B0 if resized else None}
                ex.count(sname, kind + ("+delay" if delayed else ""))
                if large:
                    ex.count("connection-large-log2-of-batch-x-inputs-x-outputs", str(int(math.log2(B * math.prod(big.inshape) * math.prod(big.outshape)))))
                if wide:
                    ex.count(sname + "-inputs", str(math.prod(big.inshape)))
                    start = [rng.choice([0, 0, 1, 2, 3]) for _ in range(B)]      # per-sample late start
                    case["start"] = start
                pack = (lambda vs: {"active_indices_per_step_per_sample": [active_indices(v) for v in vs]}) if wide else \
                    (lambda vs: {"inputs": [v.tolist() for v in vs]})
                ex.count("connection-batch", "resized-by-setter" if resized else "constructed")
                ex.count("comparison", "connection:" + ("torch.equal" if exact else "1e-12 on the reduced output"))
                bad = None
                xs = []
                dens = rng.choice([0.5, 0.5, 0.15])
                for t in range(T):
                    x = (torch.rand(B, *big.inshape, generator=g) < dens).to(torch.float64)
                    # silent frames: the WHOLE batch silent (spikes of earlier steps still in flight through the delays),
                    # or one sample silent while the others are active
                    u = float(torch.rand(1, generator=g))
                    if u < 0.25:
                        x = torch.zeros_like(x)
                    elif u < 0.45:
                        x[int(torch.randint(0, B, (1,), generator=g))] = 0
                    if wide:
                        blank = torch.rand(B, generator=g) < 0.35
                        for b in range(B):
                            if bool(blank[b]) or t < start[b]:
                                x[b] = 0
                        act = [bool(x[b].any()) for b in range(B)]
                        if any((not act[i]) and any(act[i + 1:]) for i in range(B)):
                            ex.count(sname + "-pattern", "blank sample below an active one")
                        if any((not act[i]) and any(act[:i]) for i in range(B)):
                            ex.count(sname + "-pattern", "blank sample above an active one")
                    xs.append(x)
                    with torch.no_grad():
                        o1 = [c(x[b:b + 1]) for b, c in enumerate(singles)]
                        try:
                            oB = big(x)
                            snapB = {**nb.snapshot({"c": big}), "x.synspike": big.synspike.detach().clone(),
                                     "x.syncurrent": big.syncurrent.detach().clone()}
                        except Exception as e:  # noqa: BLE001 - the batch-1 copies ran: a batched run that raises is not "the same result"
                            add(ex, f"C11:connection:{kind}:batched-raises", f"{kind}{'+delay' if delayed else ''} batch {B}"
                                f"{' (resized from ' + str(B0) + ' by the batchsz setter)' if resized else ''}: the batched connection raises "
                                f"{type(e).__name__} at step {t} ({str(e)[:160]}) while its batch-1 copies run",
                                dict(case, step=t, **pack(xs)))
                            bad = (t, 0, "raises", "")
                            break
                    ex.evaluations += 1
                    for b in range(B):
                        if oB[b:b + 1].shape != o1[b].shape or not torch.equal(oB[b:b + 1], o1[b]):
                            if not exact and oB[b:b + 1].shape == o1[b].shape and approx(oB[b:b + 1], o1[b], 1e-12):
                                ex.count("rounding", "connection-output-within-1e-12")
                                continue
                            bad = (t, b, "output", (f"batched output has shape {tuple(oB.shape)}, batch-1 copies {tuple(o1[b].shape)}" if oB.shape[0] != B
                                                    else f"{oB[b].flatten().tolist()[:6]} vs {o1[b].flatten().tolist()[:6]}"))
                            break
                    if not bad:
                        extra = lambda c: {"x.synspike": c.synspike.detach().clone(), "x.syncurrent": c.syncurrent.detach().clone()}
                        d = compare_snapshots(snapB, [{**nb.snapshot({"c": c}), **extra(c)} for c in singles], B)
                        if d:
                            bad = (t, d[1], d[0], d[2])
                    if bad and bad[2] != "raises":
                        add(ex, f"C11:connection:{kind}:{cat(bad[2])}", f"{kind}{'+delay' if delayed else ''}{' (' + str(math.prod(big.inshape)) + ' inputs)' if wide else ''} "
                            f"batch {B}: sample {bad[1]} differs from its "
                            f"batch-1 copy at step {bad[0]}: {bad[2]}: {bad[3]}", dict(case, step=bad[0], sample=bad[1], entry=bad[2], **pack(xs)))
                        break
                ex.traces_validated += 1
                if not bad:
                    ex.nontriv((sname, kind, delayed, json.dumps(cc), B))


# ------------------------------------------------------------------------------------------ (L) layers / (T) trainers
def build_pair(cfg, B):
    big = nb.Net(cfg, batch=B)
    singles = []
    for b in range(B):
        c1 = copy.deepcopy(cfg)              # the CONFIGURATION dict is copied; the modules are constructed afresh
        for c in c1["conns"]:
            c["wseed"] = c["wseed"] + 101 * (b + 1)
        n1 = nb.Net(c1, batch=1)
        copy_params(big.layer, n1.layer)
        singles.append(n1)
    return big, singles


def randomise_adaptations(net, g):
    for n in net.neurons:
        ad = nb.adaptation_of(n)
        if ad is not None:
            val = torch.rand(ad.shape, generator=g)
            if hasattr(n, "threshold_adaptation_"):
                n.threshold_adaptation = val
            else:
                n.current_adaptation = val


def layer_stream(ctx, ex, thorough):
    rng = ctx.rng
    T = 20 if thorough else 10
    plan = [(lk, ck) for lk in nb.LAYERS for ck in (["dense", "direct", "lateral", "conv"] if lk != "recurrent" else ["dense", "direct"])]
    plan = plan * (16 if thorough else 4)
    for idx, (lk, ck) in enumerate(plan):
        for attempt in range(4):
            dy = idx % 2 == 0
            cfg = nb.layer_cfg(rng, lk, conn_kind=ck, neuron_kind=nb.NEURON_KINDS[(idx + attempt) % 8], batch=rng.choice([2, 3]), dyadic=dy)
            tol = None if dy else 1e-9
            B = cfg["batch"]
            g = nb.gen(rng.randrange(2**31))
            big = nb.Net(cfg, batch=B)
            randomise_adaptations(big, g)
            singles = []
            for b in range(B):
                c1 = copy.deepcopy(cfg)
                for c in c1["conns"]:
                    c["wseed"] += 101 * (b + 1)
                n1 = nb.Net(c1, batch=1)
                copy_params(big.layer, n1.layer)
                singles.append(n1)
            X = big.gen_inputs(g, T, rng.choice([0.3, 0.5, 0.7]))
            # biclique: on some steps only ONE connection is driven (the other input keys are omitted), so the combine step sees a
            # single connection output
            if lk == "biclique" and len(cfg["conns"]) > 1 and idx % 2 == 1:
                for t in range(T):
                    if rng.random() < 0.4:
                        keep = rng.randrange(len(cfg["conns"]))
                        X[t] = [x if i == keep else None for i, x in enumerate(X[t])]
                ex.count("layer-inputs", "biclique:some-steps-drive-one-connection-only")
            case = {"stream": "layer", "cfg": cfg, "batch": B, "steps": T, "exact": dy}
            bad, nsp = None, 0
            for t in range(T):
                with torch.no_grad():
                    oB = big.step(X[t], adapt=False)
                    o1 = [n1.step([None if x is None else x[b:b + 1] for x in X[t]], adapt=False) for b, n1 in enumerate(singles)]
                ex.evaluations += 1
                nsp += sum(int(o.sum()) for o in oB)
                for j, o in enumerate(oB):
                    for b in range(B):
                        if not torch.equal(o[b:b + 1], o1[b][j]):
                            bad = (t, b, f"output spikes {j}", f"{o[b].flatten().tolist()[:8]} vs {o1[b][j].flatten().tolist()[:8]}")
                            break
                    if bad:
                        break
                if not bad:
                    d = compare_snapshots(nb.snapshot({"l": big.layer}), [nb.snapshot({"l": n1.layer}) for n1 in singles], B, tol)
                    if d:
                        bad = (t, d[1], d[0], d[2])
                if bad:
                    add(ex, f"C11:layer:{lk}:{cat(bad[2])}", f"{lk} layer ({[c['kind'] for c in cfg['conns']]}, {[n['kind'] for n in cfg['neurons']]}) batch {B}: "
                        f"sample {bad[1]} differs from its batch-1 copy at step {bad[0]}: {bad[2]}: {bad[3]}",
                        dict(case, step=bad[0], sample=bad[1], entry=bad[2], xseed=None, inputs=[[None if x is None else x.tolist() for x in xs] for xs in X]))
                    break
            if nsp or bad or attempt == 3:
                break
        ex.count("layer", lk)
        ex.count("comparison", "layer:" + ("torch.equal" if dy else "spikes/pointers exact, floats 1e-9"))
        for c in cfg["conns"]:
            ex.count("layer-connection", c["kind"] + ("+delay" if c["delay"] else ""))
        ex.traces_validated += 1
        if nsp and not bad:
            ex.nontriv(("layer", idx, json.dumps(cfg)))


def acc_parts(net, param):
    out = {}
    for i, c in enumerate(net.conns):
        acc = getattr(c.updater, param, None) if hasattr(c.updater, param) else None
        if acc is None:
            continue
        out[f"conn{i}.{param}.pos"] = None if acc.pos is None else acc.pos.detach().clone()
        out[f"conn{i}.{param}.neg"] = None if acc.neg is None else acc.neg.detach().clone()
    return out


def trainer_stream(ctx, ex, thorough):
    rng = ctx.rng
    T = 16 if thorough else 8
    for tk in nb.TRAINERS:
        for rep in range(16 if thorough else 4):
            for attempt in range(4):
                lk = rng.choice(["serial", "serial", "biclique"])
                dy = rep % 2 == 0
                cfg = nb.layer_cfg(rng, lk, delayed=True if tk in nb.NEEDS_DELAY else None, batch=rng.choice([2, 3]), dyadic=dy)
                B = cfg["batch"]
                tc = nb.trainer_cfg(rng, tk)
                tc["reduction"] = "sum"
                if "Kernel" in tk and rep % 2 == 1:
                    # a user kernel whose sign depends on the spike-time difference: samples then contribute to ONE synapse with
                    # opposite signs, which a reduce-before-split would cancel
                    tc["kernel"] = "biphasic"
                    ex.count("trainer-kernel", f"{tk}:biphasic")
                if rep % 4 in (1, 2) and tk not in nb.NEEDS_DELAY:
                    # the trainer's delayed mode on a connection that really has delays (both are non-default; left to
                    # chance the combination is rare): presynaptic history is then read per sample through the selector
                    tc["delayed"] = True
                    cfg = nb.layer_cfg(rng, lk, delayed=True, batch=B, dyadic=dy)
                g = nb.gen(rng.randrange(2**31))
                big = nb.Net(cfg, batch=B)
                randomise_adaptations(big, g)
                singles = []
                for b in range(B):
                    c1 = copy.deepcopy(cfg)
                    for c in c1["conns"]:
                        c["wseed"] += 101 * (b + 1)
                    n1 = nb.Net(c1, batch=1)
                    copy_params(big.layer, n1.layer)
                    singles.append(n1)
                trB = nb.build_trainer(tc, big, batch_reduction=torch.sum)
                tr1 = [nb.build_trainer(tc, n1, batch_reduction=torch.sum) for n1 in singles]
                X = big.gen_inputs(g, T, rng.choice([0.4, 0.6]))
                per_sample_reward = rng.random() < 0.5
                param = "delay" if tk in nb.DELAY_PARAM else "weight"
                case = {"stream": "trainer", "trainer": tc, "cfg": cfg, "batch": B, "steps": T, "per_sample_reward": per_sample_reward}
                bad, nonzero = None, 0
                for t in range(T):
                    rew = torch.randint(-2, 3, (B,), generator=g).to(torch.float64) / 2
                    if not per_sample_reward:
                        rew = rew[:1].expand(B).clone()
                    with torch.no_grad():
                        big.step(X[t], adapt=False)
                        for b, n1 in enumerate(singles):
                            n1.step([None if x is None else x[b:b + 1] for x in X[t]], adapt=False)
                        if tk in nb.REWARDED:
                            # a (B,)-shaped signal is one reward per sample (broadcast over the synapse dims by the trainer)
                            trB(rew if per_sample_reward else float(rew[0]))
                            for b, tr in enumerate(tr1):
                                tr(rew[b:b + 1] if per_sample_reward else float(rew[0]))
                        else:
                            trB()
                            for tr in tr1:
                                tr()
                        pB = acc_parts(big, param)
                        p1 = [acc_parts(n1, param) for n1 in singles]
                        for n in [big] + singles:
                            for c in n.conns:
                                c.updater.clear()
                    ex.evaluations += 1
                    for k, vB in pB.items():
                        vs = [p[k] for p in p1]
                        if vB is None or any(v is None for v in vs):
                            if not (vB is None and all(v is None for v in vs)):
                                bad = (t, k, f"batched part is {'None' if vB is None else 'a tensor'}, single parts: {[v is None for v in vs]}")
                            continue
                        tot = torch.stack(vs, 0).sum(0)
                        nonzero += int(bool((vB != 0).any()))
                        if not approx(vB, tot):
                            i = ((vB - tot).abs()).flatten().argmax().item()
                            bad = (t, k, f"batched {vB.flatten()[i].item()} vs sum of per-sample {tot.flatten()[i].item()} (per sample {[v.flatten()[i].item() for v in vs]})")
                        if bad:
                            break
                    if not bad:
                        # the forward state stays per-sample identical while training is attached
                        d = compare_snapshots(nb.snapshot({"l": big.layer}), [nb.snapshot({"l": n1.layer}) for n1 in singles], B,
                                              None if dy else 1e-9)
                        if d:
                            bad = (t, d[0], f"sample {d[1]}: {d[2]}")
                    if bad:
                        add(ex, f"C11:trainer:{tk}:{'sum-reduction' if '.pos' in bad[1] or '.neg' in bad[1] else cat(bad[1])}",
                            f"{tk} (batch_reduction=sum) on {lk} batch {B}, step {bad[0]}: {bad[1]}: {bad[2]}",
                            dict(case, step=bad[0], entry=bad[1], inputs=[[x.tolist() for x in xs] for xs in X]))
                        break
                if nonzero or bad or attempt == 3:
                    break
            ex.count("trainer", tk)
            ex.traces_validated += 1
            if nonzero and not bad:
                ex.nontriv(("trainer", tk, json.dumps(tc), json.dumps(cfg)))


def connection_wide_stream(ctx, ex, thorough):
    connection_stream(ctx, ex, thorough, wide=True)


def connection_large_stream(ctx, ex, thorough):
    """dense / lateral / convolutional connections whose batch x inputs x outputs product (the size of the delay selector and of the
    delay-selected currents) reaches 2^21, batch sizes up to 8: same comparison as the other connection streams"""
    connection_stream(ctx, ex, thorough, wide="large")


def trainer_grid_stream(ctx, ex, thorough):
    """EVERY trainer on EVERY connection class (dense, direct, lateral, conv) with learned heterogeneous delays, the trainer in its
    delayed mode wherever it has one (presynaptic history read per sample through the connection's selector and reshaped by the
    connection), convolutions with 2-4 filters and 1-2 channels, batch sizes 2-4, batch_reduction=sum: batched accumulator parts ==
    sum over samples of the batch-1 parts.  The (trainer x connection class x delayed) combinations are enumerated, not drawn"""
    rng = ctx.rng
    T = 10 if thorough else 6
    for tk in nb.TRAINERS:
        for ck in nb.CONNECTIONS:
            for rep in range(2 if thorough else 1):
                for attempt in range(3):
                    dy = (rep + attempt) % 2 == 0
                    B = rng.choice([2, 3, 4])
                    cfg = nb.layer_cfg(rng, "serial", conn_kind=ck, delayed=True, batch=B, dyadic=dy)
                    if ck == "conv":
                        cfg["conns"][0]["f"] = rng.choice([2, 3, 4])
                    tc = nb.trainer_cfg(rng, tk)
                    tc["reduction"] = "sum"
                    tc["delayed"] = True
                    g = nb.gen(rng.randrange(2**31))
                    big, singles = build_pair(cfg, B)
                    randomise_adaptations(big, g)
                    for n1 in singles:
                        copy_params(big.layer, n1.layer)
                    per_sample_reward = rng.random() < 0.5
                    param = "delay" if tk in nb.DELAY_PARAM else "weight"
                    case = {"stream": "trainer-grid", "trainer": tc, "cfg": cfg, "batch": B, "steps": T, "per_sample_reward": per_sample_reward}
                    X = big.gen_inputs(g, T, rng.choice([0.4, 0.6]))
                    bad, nonzero = None, 0
                    try:
                        trB = nb.build_trainer(tc, big, batch_reduction=torch.sum)
                        tr1 = [nb.build_trainer(tc, n1, batch_reduction=torch.sum) for n1 in singles]
                    except Exception as e:  # noqa: BLE001
                        add(ex, f"C11:trainer:{tk}:raises", f"{tk} cannot be registered on a delayed {ck} cell: {type(e).__name__}: {str(e)[:160]}", case)
                        bad = (0, "raises", "")
                    for t in range(T if not bad else 0):
                        rew = torch.randint(-2, 3, (B,), generator=g).to(torch.float64) / 2
                        if not per_sample_reward:
                            rew = rew[:1].expand(B).clone()
                        with torch.no_grad():
                            for b, n1 in enumerate(singles):
                                n1.step([x[b:b + 1] for x in X[t]], adapt=False)
                            for b, tr in enumerate(tr1):
                                if tk in nb.REWARDED:
                                    tr(rew[b:b + 1] if per_sample_reward else float(rew[0]))
                                else:
                                    tr()
                            try:
                                big.step(X[t], adapt=False)
                                if tk in nb.REWARDED:
                                    trB(rew if per_sample_reward else float(rew[0]))
                                else:
                                    trB()
                            except Exception as e:  # noqa: BLE001 - the batch-1 runs went through
                                add(ex, f"C11:trainer:{tk}:batched-raises", f"{tk} (delayed mode, batch_reduction=sum) on a delayed {ck} cell, batch {B}: the "
                                    f"batched step raises {type(e).__name__} at step {t} ({str(e)[:160]}) while the batch-1 runs go through",
                                    dict(case, step=t, inputs=[[x.tolist() for x in xs] for xs in X]))
                                bad = (t, "raises", "")
                                break
                            pB = acc_parts(big, param)
                            p1 = [acc_parts(n1, param) for n1 in singles]
                            for n in [big] + singles:
                                for c in n.conns:
                                    c.updater.clear()
                        ex.evaluations += 1
                        for k, vB in pB.items():
                            vs = [p[k] for p in p1]
                            if vB is None or any(v is None for v in vs):
                                if not (vB is None and all(v is None for v in vs)):
                                    bad = (t, k, f"batched part is {'None' if vB is None else 'a tensor'}, single parts: {[v is None for v in vs]}")
                                    break
                                continue
                            tot = torch.stack(vs, 0).sum(0)
                            nonzero += int(bool((vB != 0).any()))
                            if not approx(vB, tot):
                                i = ((vB - tot).abs()).flatten().argmax().item() if vB.shape == tot.shape else 0
                                bad = (t, k, (f"batched {vB.flatten()[i].item()} vs sum of per-sample {tot.flatten()[i].item()} (per sample "
                                              f"{[v.flatten()[i].item() for v in vs]}) at flat index {i}") if vB.shape == tot.shape
                                       else f"shape {tuple(vB.shape)} vs {tuple(tot.shape)}")
                                break
                        if not bad:
                            d = compare_snapshots(nb.snapshot({"l": big.layer}), [nb.snapshot({"l": n1.layer}) for n1 in singles], B,
                                                  None if dy else 1e-9)
                            if d:
                                bad = (t, d[0], f"sample {d[1]}: {d[2]}")
                        if bad:
                            add(ex, f"C11:trainer:{tk}:{'sum-reduction' if '.pos' in bad[1] or '.neg' in bad[1] else cat(bad[1])}",
                                f"{tk} (delayed mode, batch_reduction=sum) on a delayed {ck} cell"
                                f"{' with ' + str(cfg['conns'][0]['f']) + ' filters' if ck == 'conv' else ''}, batch {B}, step {bad[0]}: {bad[1]}: {bad[2]}",
                                dict(case, step=bad[0], entry=bad[1], inputs=[[x.tolist() for x in xs] for xs in X]))
                            break
                    if nonzero or bad or attempt == 2:
                        break
                ex.count("trainer-grid", f"{tk}:{ck}")
                ex.traces_validated += 1
                if nonzero and not bad:
                    ex.nontriv(("trainer-grid", tk, ck, json.dumps(tc), json.dumps(cfg)))


# ------------------------------------------------------------------------------------------ (A) the documented batch reduction of adaptations
def _sqrt_sum(x, dim):
    """a user-defined reduction: the sum scaled by 1/sqrt(count)"""
    return x.sum(dim) / x.shape[dim] ** 0.5


REDUCTIONS = {"sum": torch.sum, "mean": torch.mean, "amax": torch.amax, "amin": torch.amin, "prod": torch.prod, "sqrt-sum": _sqrt_sum}


def build_adaptive(cfg, shape, batch, red):
    """the four adaptive neuron classes with an explicit batch_reduction (same arguments as the shared builder otherwise)"""
    k, c = cfg["kind"], cfg
    common = dict(refrac_t=c["refracT"], resistance=c["R"], batch_size=batch, batch_reduction=red)
    if k == "ALIF":
        return snn.ALIF(shape, c["dt"], rest_v=c["rest"], reset_v=c["reset"], thresh_eq_v=c["thresh"], tc_membrane=c["tau"],
                        tc_adaptation=tuple(c["tcA"]), spike_increment=tuple(c["incA"]), **common)
    if k == "GLIF2":
        return snn.GLIF2(shape, c["dt"], rest_v=c["rest"], reset_v_add=c["icpt"], reset_v_mul=c["slope"], thresh_eq_v=c["thresh"],
                         tc_membrane=c["tau"], rc_adaptation=tuple(1.0 / t for t in c["tcA"]), spike_increment=tuple(c["incA"]), **common)
    if k == "Izhikevich":
        return snn.Izhikevich(shape, c["dt"], rest_v=c["rest"], crit_v=c["a"], affinity=c["b"], reset_v=c["reset"], thresh_v=c["thresh"],
                              tc_membrane=c["tau"], tc_adaptation=tuple(c["tcA"]), voltage_coupling=tuple(c["vcA"]),
                              spike_increment=tuple(c["incA"]), **common)
    if k == "AdEx":
        return snn.AdEx(shape, c["dt"], rest_v=c["rest"], rheobase_v=c["a"], sharpness=c["b"], reset_v=c["reset"], thresh_v=c["thresh"],
                        tc_membrane=c["tau"], tc_adaptation=tuple(c["tcA"]), voltage_coupling=tuple(c["vcA"]),
                        spike_increment=tuple(c["incA"]), **common)
    raise AssertionError(k)


def set_adaptation(neuron, val):
    if hasattr(neuron, "threshold_adaptation_"):
        neuron.threshold_adaptation = val
    else:
        neuron.current_adaptation = val


def neuron_adapt_stream(ctx, ex, thorough):
    """adaptation ON: the one documented cross-sample coupling.  The four adaptive neuron classes are constructed with every
    reduction of REDUCTIONS (the library's default mean, the other torch reductions its documentation names, and a user-defined
    one), batch sizes 2-4, and stepped with adaptation enabled (adapt=True, or adapt=None in training mode).  Before every step the
    batch-1 copies receive the batched neuron's present (non-zero, non-uniform) adaptations, so all start the step from the same
    state; after it
      * spikes / voltages / refractory periods of sample b == those of copy b (torch.equal), and
      * the batched adaptation == reduction(stack of the copies' adaptations, 0)  (1e-9 relative; the documented reduction),
    and an unreduced (B x ...) tensor assigned through the public adaptation setter must leave reduction(value, 0) (closed form)"""
    rng = ctx.rng
    T = 12 if thorough else 6
    for kind in sorted(nb.ADAPTIVE):
        for rname in REDUCTIONS:
            for rep in range(4 if thorough else 2):
                red = REDUCTIONS[rname]
                cfg = nb.neuron_cfg(rng, kind)
                shape = rng.choice([(3,), (2, 2), (4,)])
                B = rng.choice([2, 3, 4])
                lock = rng.random() < 0.7
                via_mode = rep % 2 == 1          # adapt=None + training mode instead of adapt=True
                g = nb.gen(rng.randrange(2**31))
                big = build_adaptive(cfg, shape, B, red)
                singles = [build_adaptive(cfg, shape, 1, red) for _ in range(B)]
                for m in [big] + singles:
                    m.train(via_mode)
                nk = int(nb.adaptation_of(big).shape[-1])
                case = {"stream": "neuron-adapt", "class": kind, "cfg": cfg, "shape": list(shape), "batch": B, "lock": lock, "steps": T,
                        "batch_reduction": rname, "adapt": None if via_mode else True, "training_mode": via_mode}
                ex.count("neuron-adapt", f"{kind}:{rname}")
                gap = (cfg["thresh"] - cfg["rest"]) / cfg["R"]
                bad, nsp, moved, setter_bad = None, 0, False, False
                xs, priors = [], []
                # (i) the setter on an unreduced batch of adaptations
                val = torch.rand(B, *shape, nk, generator=g) * 2.0 - 0.5
                set_adaptation(big, torch.rand(*shape, nk, generator=g) + 0.25)       # a non-zero present state
                before = nb.adaptation_of(big).detach().clone()
                try:
                    set_adaptation(big, val.clone())
                    got = nb.adaptation_of(big).detach().clone()
                    want = red(val, 0)
                    ex.evaluations += 1
                    if got.shape != want.shape or not approx(got, want):
                        i = (got - want).abs().flatten().argmax().item() if got.shape == want.shape else 0
                        add(ex, f"C11:neuron:{kind}:adaptation-batch-reduction", f"{kind} (batch_reduction={rname}): assigning an unreduced {tuple(val.shape)} "
                            f"tensor through the adaptation setter (present state non-zero) leaves "
                            f"{got.flatten()[i].item() if got.shape == want.shape else tuple(got.shape)} where {rname}(value, 0) is "
                            f"{want.flatten()[i].item() if got.shape == want.shape else tuple(want.shape)} (flat index {i}; present state there "
                            f"{before.flatten()[i].item() if before.shape == want.shape else '?'}, per-sample values {val.reshape(B, -1)[:, i].tolist() if got.shape == want.shape else '?'})",
                            dict(case, op="setter", present=before.tolist(), value=val.tolist()))
                        setter_bad = True
                except Exception as e:  # noqa: BLE001
                    add(ex, f"C11:neuron:{kind}:adaptation-setter-raises", f"{kind} (batch_reduction={rname}): assigning an unreduced {tuple(val.shape)} tensor "
                        f"through the adaptation setter raises {type(e).__name__}: {str(e)[:160]}", dict(case, op="setter", present=before.tolist(), value=val.tolist()))
                    setter_bad = True
                # (ii) stepping with adaptation enabled
                for t in range(T if not bad else 0):
                    cur = nb.adaptation_of(big).detach()
                    if t == 0 or not bool(torch.isfinite(cur).all()) or float(cur.abs().max()) > 8.0 or float(cur.abs().max()) < 1e-3:
                        set_adaptation(big, torch.rand(*shape, nk, generator=g) * 2.0 + 0.125)     # (re)start from a moderate non-zero state
                    prev = nb.adaptation_of(big).detach().clone()
                    priors.append(prev.tolist())
                    for s in singles:
                        set_adaptation(s, prev.clone())
                    x = (torch.rand(B, *shape, generator=g) * 6.0 - 1.0) * gap * (8.0 if rng.random() < 0.3 else 1.0)
                    xs.append(x)
                    kw = {"refrac_lock": lock, "adapt": None if via_mode else True}
                    with torch.no_grad():
                        s1 = [s(x[b:b + 1], **kw) for b, s in enumerate(singles)]
                        try:
                            sB = big(x, **kw)
                        except Exception as e:  # noqa: BLE001
                            add(ex, f"C11:neuron:{kind}:batched-raises", f"{kind} (batch_reduction={rname}) batch {B}: the adapting batched step raises "
                                f"{type(e).__name__} at step {t} ({str(e)[:160]}) while its batch-1 copies run",
                                dict(case, step=t, inputs=[v.tolist() for v in xs], adaptations_before_each_step=priors))
                            bad = (t, 0, "raises", "")
                            break
                    nsp += int(sB.sum())
                    ex.evaluations += 1
                    for b in range(B):
                        if not torch.equal(sB[b:b + 1], s1[b]):
                            bad = (t, b, "output spikes", f"{sB[b].tolist()} vs {s1[b][0].tolist()}")
                            break
                    if not bad:
                        strip = lambda sn: {k: v for k, v in sn.items() if "adaptation" not in k}
                        d = compare_snapshots(strip(nb.snapshot({"n": big})), [strip(nb.snapshot({"n": s})) for s in singles], B)
                        if d:
                            bad = (t, d[1], d[0], d[2])
                    if bad:
                        add(ex, f"C11:neuron:{kind}:{cat(bad[2])}", f"{kind} (adapting, batch_reduction={rname}) batch {B}: sample {bad[1]} differs from its "
                            f"batch-1 copy at step {bad[0]}: {bad[2]}: {bad[3]}",
                            dict(case, step=bad[0], sample=bad[1], entry=bad[2], inputs=[v.tolist() for v in xs], adaptations_before_each_step=priors))
                        break
                    got = nb.adaptation_of(big).detach().clone()
                    per = torch.stack([nb.adaptation_of(s).detach() for s in singles], 0)
                    want = red(per, 0)
                    moved = moved or not torch.equal(got, prev)
                    if got.shape != want.shape or not approx(got, want):
                        i = (got - want).abs().flatten().argmax().item() if got.shape == want.shape else 0
                        add(ex, f"C11:neuron:{kind}:adaptation-batch-reduction", f"{kind} (adapting, batch_reduction={rname}) batch {B}, step {t}: the batched "
                            f"adaptation is {got.flatten()[i].item() if got.shape == want.shape else tuple(got.shape)} where {rname} over the per-sample "
                            f"adaptations {per.reshape(B, -1)[:, i].tolist() if got.shape == want.shape else ''} (batch-1 copies stepped from the same state "
                            f"{prev.flatten()[i].item() if got.shape == want.shape else ''}) is {want.flatten()[i].item() if got.shape == want.shape else tuple(want.shape)} "
                            f"(flat index {i})",
                            dict(case, step=t, entry="adaptation", inputs=[v.tolist() for v in xs], adaptations_before_each_step=priors))
                        bad = (t, 0, "adaptation", "")
                        break
                ex.traces_validated += 1
                if moved and not bad and not setter_bad:
                    ex.nontriv(("neuron-adapt", kind, rname, json.dumps(cfg), B, lock, via_mode))


# new streams are APPENDED: each stream's PRNG is drawn in this order from the run's PRNG, so earlier streams keep their cases
STREAMS = [("neuron", neuron_stream), ("synapse", synapse_stream), ("connection", connection_stream),
           ("layer", layer_stream), ("trainer", trainer_stream), ("synapse-long", synapse_long_stream),
           ("connection-wide", connection_wide_stream), ("connection-large", connection_large_stream),
           ("trainer-grid", trainer_grid_stream), ("neuron-adapt", neuron_adapt_stream)]


class Sub:
    """per-stream context: its own PRNG drawn (in a fixed order) from the run's seeded PRNG, so that one stream can be replayed alone"""

    def __init__(self, rng):
        self.rng = rng


def sub_contexts(master):
    import random
    return {name: Sub(random.Random(master.getrandbits(64))) for name, _ in STREAMS}


def explore(ctx) -> Exploration:
    torch.set_default_dtype(torch.float64)
    ex = Exploration()
    thorough = ctx.tier == "thorough" or ctx.intensify
    subs = sub_contexts(ctx.rng)
    for name, fn in STREAMS:
        t0 = time.time()
        fn(subs[name], ex, thorough)
        ex.extra.setdefault("stream_wall_s", {})[name] = round(time.time() - t0, 1)
    ex.rule = ("for every neuron class (adapt=False, random non-uniform adaptations), synapse class (± delay, per-sample selectors), connection class "
               "(± heterogeneous delays on and off the step grid), layer kind and trainer (batch_reduction=sum): a batch-B instance and B separately "
               "constructed batch-1 instances with the same parameters (state_dict) are stepped on the same seeded per-sample inputs; after EVERY "
               "step outputs and all state (buffers, parameters, extras = pointers, derived reads) are compared per sample with torch.equal; trainer "
               "accumulator parts are compared with the sum of the per-sample parts (1e-9 relative). Two further streams use the same comparison: "
               "synapse-long (80-step histories, time constants of 0.5-2 steps, float64 and float32, per-sample activity windows: one sample silent "
               "after its first 1-3 steps at a random batch index, one active throughout, others late-start / early-stop) and connection-wide "
               "(presynaptic widths drawn without replacement from 24..1024, conv images 8..32 square, batch 2-5, each sample independently blank "
               "on a step with probability 0.35 or starting late); connection-large (dense / lateral / conv, with and without delays, batch x inputs x "
               "outputs from 2^15 to 2^21 — the largest size of each pool in every run — batch 3-8); trainer-grid (every trainer x every connection "
               "class with learned delays, trainer in delayed mode, conv with 2-4 filters, batch 2-4, enumerated). neuron-adapt: the four adaptive "
               "classes x batch_reduction in {sum, mean, amax, amin, prod, sqrt-sum} with adaptation ON (adapt=True / training mode): per-sample spikes "
               "and state == batch-1 copies started from the same adaptations, batched adaptation == reduction of the copies' adaptations (1e-9), "
               "and reduction(value, 0) after assigning an unreduced tensor through the setter. One evaluation = one compared step; "
               "non-trivial = activity occurred (spikes / non-zero update parts) and the whole run agreed")
    ex.samples = [{k: v for k, v in f.case.items() if k != "inputs"} for f in ex.findings[:2]] or [{"streams": [n for n, _ in STREAMS]}]
    return ex


def replay(ctx, data) -> int:
    import random
    torch.set_default_dtype(torch.float64)
    case = data.get("failing_input")
    if not case:
        print("no failing input recorded:", data.get("broken"))
        return 1
    print("recorded failing configuration:", json.dumps({k: v for k, v in case.items() if k != "inputs"}, default=str)[:2000])
    # re-run the recorded stream with the recorded seed (same PRNG derivation as runner.Ctx + sub_contexts)
    master = random.Random(int(data.get("seed", 0)) * 1000003 + 11)
    subs = sub_contexts(master)
    ex = Exploration()
    dict(STREAMS)[case["stream"]](subs[case["stream"]], ex, data.get("tier") == "thorough")
    for f in ex.findings:
        print("FINDING", f.key, f.what)
    return 1 if ex.findings else 0
