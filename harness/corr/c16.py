"""C16 — correspondence + search for Hook / StateHook firing and the Clamping / Normalization
post-conditions.

Real side: probe `Hook`s (plain callables) and probe `StateHook` subclasses on a fresh
`inferno.Module` whose `forward` logs itself and adds a constant to the watched attribute;
`Clamping` / `Normalization` hooks on a (possibly nested) tensor attribute.  Protocol lines are
those of `lean/drivers/C16.lean`.  After EVERY operation the harness compares

  code-shaped model (M): op result (ordered module-call trace, error class, …), the lengths of
                         `module._forward_pre_hooks` / `_forward_hooks`, the attribute values;
  specification   (S):   per-hook run counts of a module call, the manual-call rule, the number of
                         handles the specification allows, and how many Clamping / Normalization
                         runs happened — each of which is checked against its post-condition
                         on the real tensor (bounds exactly; p-norms at 1e-6).
"""
from __future__ import annotations

import gc
import math
import struct
import weakref

import torch

import inferno
from inferno import Hook, Module, StateHook
from inferno.neural import Clamping, Normalization

from runner import Exploration, Finding
import seqcheck

SPEC = {
    "prop": "C16",
    "lean_targets": ["InfernoVerif.Props.C16", "InfernoVerif.Props.C16GlueProg", "InfernoVerif.Props.C16Run", "InfernoVerif.Props.C16GlueNHook"],
    "translate": ["HookProg", "NHookProg"],
    "driver_targets": ["InfernoVerif.Model.Hooks", "InfernoVerif.Drv.Proto"],
    "prop_files": ["InfernoVerif/Props/C16.lean", "InfernoVerif/Props/C16GlueProg.lean", "InfernoVerif/Props/C16Run.lean", "InfernoVerif/Props/C16GlueNHook.lean"],
    "lemma_files": ["InfernoVerif/Lemmas/Hooks.lean", "InfernoVerif/Lemmas/HooksReal.lean"],
    "model_files": ["InfernoVerif/Model/Hooks.lean"],
    "driver": "drivers/C16.lean",
    "assumptions": [
        "CPython's collector is modelled as: the weakref.finalize callback runs when the last strong reference to the hook "
        "object is dropped (the harness drops it and calls gc.collect()); reference cycles created by user code are out of scope",
        "one module; torch's hook dictionaries are modelled as ordered association lists (insertion at the end, at the front with "
        "prepend=True); global forward hooks, backward hooks and always_call are not modelled",
        "post-conditions are proved over the reals (Mathlib rpow) for the definitions the driver executes on Float; real tensors "
        "are float64 (p-norms compared at 1e-6) or float32 (magnitude programs only; p-norms compared at 1e-4, model values at "
        "2e-5); float16 / bfloat16 targets and complex scales are not generated",
        "integer / boolean targets are generated for Clamping only (a p-norm normalisation of an integer tensor is not "
        "representable in its type; torch's vector_norm rejects it); fault sequences inject an exception into a probe hook's body "
        "or remove the target tensor for the duration of one module call, the caller catches it and reinstates the attribute",
        "magnitude programs keep |x|**p inside the normal range of the tensor's type (|p| * (|log2 magnitude| + 6) <= 100 for "
        "float32, 900 for float64): underflow / overflow of the intermediate power sum inside torch's vector_norm is not exercised",
        "normalisation: the property speaks about vectors with norm >= eps and about zero vectors; 0 < norm < eps is reported in the "
        "evidence histogram and only compared against the model (theorem normalize_small gives the value)",
        "negative norm orders: initial vectors have no zero entries; a vector that acquires a zero entry later has IEEE norm 0 "
        "(0**p = inf) and falls in the 0 <= norm < eps gap the property does not speak about (Mathlib reads 0**p = 0)",
    ],
}
DRIVER = "drivers/C16.lean"
ERRS = {"RuntimeError", "ValueError", "TypeError", "AttributeError", "IndexError", "KeyError"}
TOL_MODEL = 1e-9
TOL_NORM = 1e-6
# per floating-point type of the watched tensor: torch dtype, tolerance of the comparison with the (binary64) model,
# tolerance of the p-norm post-condition (both relative to max(1, |value|)), and the bound on |p| * |log2 magnitude| that
# keeps |x|**p away from the type's underflow / overflow thresholds (2**-126 / 2**-1022)
DTYPES = {"f64": (torch.float64, TOL_MODEL, TOL_NORM, 900.0),
          "f32": (torch.float32, 2e-5, 1e-4, 100.0)}
# integer / boolean targets (counts, step-valued delays, masks): Clamping only; python-float bounds and forward's constant
# promote to the default floating type (float64 during the check), so the binary64 model applies unchanged
INT_DTYPES = {"i64": torch.int64, "i32": torch.int32, "i16": torch.int16, "i8": torch.int8, "u8": torch.uint8, "b": torch.bool}
for _k, _v in INT_DTYPES.items():
    DTYPES[_k] = (_v, TOL_MODEL, TOL_NORM, 900.0)
# how the module's own forward updates the watched attribute: re-assignment (a new tensor object), an ordinary in-place
# operation, or an in-place operation through `.data` (legacy manual-update style; invisible to autograd's version counter)
FWD_STYLES = ("assign", "inplace", "data")


class InjectedFault(Exception):
    """raised by a probe hook body on a designated module call (fault sequences); the caller handles it and carries on"""
NORM_DECADES = {}
STATS = {"norm_runs": 0, "norm_fibres_checked_at_1e-6": 0, "norm_fibres_checked_f32_at_0.0001": 0, "zero_fibres": 0, "fibres_with_0<=norm<eps (not covered)": 0,
         "clamp_runs": 0}


def f2h(x: float) -> str:
    return struct.pack(">d", float(x)).hex()


def h2f(s: str) -> float:
    return struct.unpack(">d", bytes.fromhex(s))[0]


def vals_s(vals) -> str:
    vals = list(vals)
    return "-" if not vals else ",".join(f2h(v) for v in vals)


def b(x) -> str:
    return "T" if x else "F"


def tb(s: str) -> bool:
    assert s in ("T", "F"), s
    return s == "T"


# ---------------------------------------------------------------------------------------------
# real side

class Leaf(Module):
    def __init__(self):
        Module.__init__(self)


class Host(Module):
    """module under test: logs its forward, adds `delta` to the watched attribute"""

    def __init__(self, log, delta, path, style="assign"):
        Module.__init__(self)
        self.sub = Leaf()
        self.sub.inner = Leaf()
        self._log = log
        self._delta = delta
        self._path = path
        self._style = style

    def forward(self, x=None):
        self._log.append("F")
        if self._path is not None:
            owner = self
            parts = self._path.split(".")
            for a in parts[:-1]:
                owner = getattr(owner, a)
            if self._style == "inplace":
                getattr(owner, parts[-1]).add_(self._delta)
            elif self._style == "data":
                getattr(owner, parts[-1]).data.add_(self._delta)
            else:
                setattr(owner, parts[-1], getattr(owner, parts[-1]) + self._delta)
        return x


def make_state_probe(log, armed=None):
    armed = set() if armed is None else armed

    class Probe(StateHook):
        def __init__(self, idx, pos, *a, **k):
            StateHook.__init__(self, *a, **k)
            self.idx, self.pos = idx, pos

        def hook(self, module):
            if self.idx in armed:               # fault sequence: this run of the body fails (once)
                armed.discard(self.idx)
                raise InjectedFault(f"hook {self.idx}")
            log.append(f"{self.idx}:{self.pos}")
    return Probe


def _probe_fn(log, armed, idx, pos, nargs):
    def fn(*args):
        assert len(args) == nargs
        if idx in armed:
            armed.discard(idx)
            raise InjectedFault(f"hook {idx}")
        log.append(f"{idx}:{pos}")
    return fn


def pynorm(xs, p):
    if p == math.inf:
        return max([abs(x) for x in xs] + [0.0])
    if p < 0 and any(x == 0.0 for x in xs):
        return 0.0                          # IEEE: 0**p = inf, inf**(1/p) = 0
    s = math.fsum(abs(x) ** p for x in xs)
    return s ** (1.0 / p) if s > 0 else 0.0


class Real:
    def __init__(self):
        self._reset(0.0, [], (0,), None, "plain")

    def _reset(self, delta, vals, shape, path, kind, dtype="f64", style="assign"):
        self.log = []
        self.armed = set()     # probe hooks whose next run raises (fault sequences)
        self.dtname = dtype
        self.dtype = DTYPES[dtype][0]
        self.path = path
        self.shape = shape
        self.kindattr = kind
        self.mod = Host(self.log, delta, path, style)
        self.hooks = {}        # idx -> hook object (the ONLY strong reference the harness keeps)
        self.kinds = {}        # idx -> 'p' | 's'
        self.n = 0
        self.snaps = []        # (idx, before, after) of value-hook runs during the current op
        self.checks = {}       # idx -> post-condition checker
        self.Probe = make_state_probe(self.log, self.armed)
        self.small = 0
        if path is not None:
            t = torch.tensor(vals, dtype=self.dtype).reshape(shape)
            owner = self._owner()
            if kind == "buf":
                owner.register_buffer(path.split(".")[-1], t)
            else:
                setattr(owner, path.split(".")[-1], t)

    def _owner(self):
        owner = self.mod
        for a in self.path.split(".")[:-1]:
            owner = getattr(owner, a)
        return owner

    def _attr(self):
        return getattr(self._owner(), self.path.split(".")[-1])

    def _vals(self):
        if self.path is None:
            return []
        return self._attr().detach().reshape(-1).double().tolist()

    # -- views --------------------------------------------------------------------------------
    def _view(self, mout, sout):
        npre, npost = len(self.mod._forward_pre_hooks), len(self.mod._forward_hooks)
        posts = 0
        bad = []
        for (idx, before, after) in self.snaps:
            posts += 1
            msg = self.checks[idx](before, after)
            if msg:
                bad.append(f"hook{idx}:{msg}")
        self.snaps.clear()
        s_posts = f"posts {posts}" + ("" if not bad else " VIOLATED " + ";".join(bad))
        return (f"{mout} | {npre} {npost} | v {vals_s(self._vals())}",
                f"{sout} | {npre} {npost} | {s_posts}")

    def exec(self, line):
        tok = line.split()
        try:
            r = self._exec(tok)
        except Exception as e:  # the real code raised: map to the closed error enum
            name = type(e).__name__
            r = "err " + (name if name in ERRS else "Other")
        if r == "ok-begin":
            return "ok"
        if isinstance(r, str):
            r = (r, r)
        return self._view(*r)

    def _counts(self):
        pre = {i: 0 for i in range(self.n)}
        post = {i: 0 for i in range(self.n)}
        seen_f = 0
        order_ok = True
        for ev in self.log:
            if ev == "F":
                seen_f += 1
                continue
            i, pos = ev.split(":")
            (pre if pos == "pre" else post)[int(i)] += 1
            # position as configured: pre events before forward, post events after
            if (pos == "pre") != (seen_f == 0):
                order_ok = False
        c = ",".join(f"{pre[i]}/{post[i]}" for i in range(self.n)) if self.n else "-"
        if seen_f != 1:
            c += f" [forward ran {seen_f} times]"
        if not order_ok:
            c += " [a hook ran on the wrong side of forward]"
        return c

    def _get(self, i):
        return self.hooks.get(i)

    def _wrap(self, idx, h):
        """snapshot the watched attribute around every run of a value hook"""
        orig = h.hook
        me = weakref.ref(self)

        def wrapped(module):
            before = me()._attr().detach().clone().double()     # exact for every floating-point type generated
            orig(module)
            me().log.append(f"{idx}:{'pre' if idx in me().pre_set else 'post'}")
            me().snaps.append((idx, before, me()._attr().detach().clone().double()))
        object.__setattr__(h, "hook", wrapped)   # instance attribute shadows the method

    def _exec(self, tok):
        op = tok[0]
        if op == "begin":
            delta = h2f(tok[1])
            vals = [] if tok[2] == "-" else [h2f(x) for x in tok[2].split(",")]
            shape = tuple(int(x) for x in tok[3].split("x")) if len(tok) > 3 and tok[3] != "s" else (len(vals),)
            path = tok[4] if len(tok) > 4 and tok[4] != "-" else None
            kind = tok[5] if len(tok) > 5 else "plain"
            dtype = tok[6] if len(tok) > 6 else "f64"
            style = tok[7] if len(tok) > 7 else "assign"
            assert style in FWD_STYLES, style
            self._reset(delta, vals, shape, path, kind, dtype, style)
            self.pre_set = set()
            return "ok-begin"
        if op == "set":
            vals = [h2f(x) for x in tok[1].split(",")]
            t = torch.tensor(vals, dtype=self.dtype).reshape(self.shape)
            setattr(self._owner(), self.path.split(".")[-1], t)
            return "ok"
        if op == "swap":
            # replace the object that OWNS the watched attribute (an intermediate object on the dotted path)
            # by a fresh one carrying the new value; for the specification this is just an assignment
            vals = [h2f(x) for x in tok[1].split(",")]
            t = torch.tensor(vals, dtype=self.dtype).reshape(self.shape)
            parts = self.path.split(".")
            if len(parts) == 1:
                setattr(self.mod, parts[0], t)
                return "ok"
            holder = self.mod
            for a in parts[:-2]:
                holder = getattr(holder, a)
            fresh = Leaf()
            if parts[-2] == "sub":
                fresh.inner = Leaf()
            if self.kindattr == "buf":
                fresh.register_buffer(parts[-1], t)
            else:
                setattr(fresh, parts[-1], t)
            setattr(holder, parts[-2], fresh)
            return "ok"
        if op in ("iset", "dset", "nset"):
            # update the SAME tensor object: ordinary in-place copy, in-place copy through `.data`, or a write through a
            # NumPy view of its storage; for the specification each of them is just an assignment
            vals = [h2f(x) for x in tok[1].split(",")]
            cur = self._attr()
            t = torch.tensor(vals, dtype=torch.float64).reshape(self.shape)
            if op == "iset":
                cur.copy_(t)
            elif op == "dset":
                cur.data.copy_(t)
            else:
                cur.numpy()[...] = t.numpy()
            return "ok"
        if op == "fcall":
            # fault sequence: switch to the given mode, call the module once while (a) the body of probe hook <i> raises or
            # (b, `N`) the watched attribute holds no tensor (every value hook that runs, and forward, raise); the caller
            # handles the exception, reinstates the attribute and carries on.  For the specification: a mode switch.
            self.mod.train(tb(tok[2]))
            name = self.path.split(".")[-1] if self.path is not None else None
            saved = None
            if tok[1] == "N":
                if name is not None:
                    saved = self._attr()
                    setattr(self._owner(), name, None)
            else:
                self.armed.add(int(tok[1]))
                if name is not None:
                    saved = self._attr().detach().clone()
            self.log.clear()
            raised = None
            try:
                self.mod(None)
            except Exception as e:  # noqa: BLE001
                raised = e
            self.armed.clear()
            self.log.clear()
            if saved is not None:
                setattr(self._owner(), name, saved)
            bad = []
            for (idx, before, after) in self.snaps:
                msg = self.checks[idx](before, after)
                if msg:
                    bad.append(f"hook{idx}:{msg}")
            self.snaps.clear()
            if tok[1] != "N" and raised is not None and not isinstance(raised, InjectedFault):
                raise raised
            return ("ok", "ok" + ("" if not bad else " VIOLATED " + ";".join(bad)))
        if op == "mk":
            kind, hp, hq, pp, pq, tr, ev = tok[1], tb(tok[2]), tb(tok[3]), tb(tok[4]), tb(tok[5]), tb(tok[6]), tb(tok[7])
            idx = self.n
            log = self.log
            if kind == "p":
                pre = _probe_fn(log, self.armed, idx, "pre", 2) if hp else None
                post = _probe_fn(log, self.armed, idx, "post", 3) if hq else None
                h = Hook(prehook=pre, posthook=post, prehook_kwargs={"prepend": pp},
                         posthook_kwargs={"prepend": pq}, train_update=tr, eval_update=ev)
            else:
                if hp == hq:
                    return "unsupported"
                h = self.Probe(idx, "pre" if hp else "post", self.mod, tr, ev, as_prehook=hp,
                               prepend=pp if hp else pq)
            self.hooks[idx] = h
            self.kinds[idx] = kind
            self.n += 1
            return f"idx {idx}"
        if op == "vmk":
            idx = self.n
            if tok[1] == "clamp":
                lo = None if tok[2] == "N" else h2f(tok[2])
                hi = None if tok[3] == "N" else h2f(tok[3])
                a, pp, tr, ev = tb(tok[4]), tb(tok[5]), tb(tok[6]), tb(tok[7])
                h = Clamping(self.mod, self.path, lo, hi, train_update=tr, eval_update=ev, as_prehook=a, prepend=pp)

                def check(before, after, lo=lo, hi=hi):
                    STATS["clamp_runs"] += 1
                    if lo is not None and bool((after < lo).any()):
                        return f"below-min({float(after.min())}<{lo})"
                    if hi is not None and bool((after > hi).any()):
                        return f"above-max({float(after.max())}>{hi})"
                    return ""
            else:
                p = math.inf if tok[2] == "inf" else h2f(tok[2])
                sc, eps = h2f(tok[3]), h2f(tok[4])
                groups = [[int(i) for i in g.split(",")] for g in tok[5].split(";")]
                dim = None if tok[6] == "N" else tuple(int(x) for x in tok[6].split(","))
                if dim is not None and len(dim) == 1 and dim[0] % 2 == 0:
                    dim = dim[0]           # an int and a 1-tuple are both accepted
                a, pp, tr, ev = tb(tok[7]), tb(tok[8]), tb(tok[9]), tb(tok[10])
                h = Normalization(self.mod, self.path, p, sc, dim, eps, train_update=tr, eval_update=ev,
                                  as_prehook=a, prepend=pp)

                def check(before, after, p=p, sc=sc, eps=eps, groups=groups, dtname=self.dtname):
                    bf, af = before.reshape(-1).tolist(), after.reshape(-1).tolist()
                    tol = DTYPES[dtname][2]
                    STATS["norm_runs"] += 1
                    for g in groups:
                        x, y = [bf[i] for i in g], [af[i] for i in g]
                        n = pynorm(x, p)
                        if all(v == 0.0 for v in x):
                            STATS["zero_fibres"] += 1
                            if any(v != 0.0 for v in y):
                                return f"zero-vector-moved({y})"
                        elif n >= eps and n > 0:
                            m = pynorm(y, p)
                            STATS["norm_fibres_checked_at_1e-6" if dtname == "f64" else f"norm_fibres_checked_{dtname}_at_{tol:g}"] += 1
                            dec = f"{dtname} 1e{10 * math.floor(math.log10(n) / 10):+d}"
                            NORM_DECADES[dec] = NORM_DECADES.get(dec, 0) + 1
                            if not abs(m - abs(sc)) <= tol * max(1.0, abs(sc)):
                                return f"norm({m})!=|scale|({abs(sc)})[{dtname},norm-before={n:.6g},eps={eps:g}]"
                        else:
                            STATS["fibres_with_0<=norm<eps (not covered)"] += 1
                    return ""
            if a:
                self.pre_set.add(idx)
            self._wrap(idx, h)
            self.checks[idx] = check
            self.hooks[idx] = h
            self.kinds[idx] = "s"
            self.n += 1
            del h
            return f"idx {idx}"
        if op == "mode":
            self.mod.train(tb(tok[1]))
            return "ok"
        if op == "call":
            self.log.clear()
            self.mod(None)
            tr = "trace " + ",".join(self.log)
            c = "counts " + self._counts()
            self.log.clear()
            return (tr, c)
        i = int(tok[1])
        h = self._get(i)
        if h is None:
            return "noref"
        if op == "register":
            if self.kinds[i] == "p":
                h.register(self.mod)
            else:
                h.register()
            return "ok"
        if op == "deregister":
            h.deregister()
            return "ok"
        if op == "manual":
            if self.kinds[i] == "p":
                return "unsupported"
            self.log.clear()
            h(force=tb(tok[2]), ignore_mode=tb(tok[3]))
            fired = len([e for e in self.log if e != "F"])
            self.log.clear()
            return f"fired {b(fired == 1)}" + ("" if fired <= 1 else f" [{fired} runs]")
        if op == "trainexec":
            h.trainexec = tb(tok[2])
            return "ok"
        if op == "evalexec":
            h.evalexec = tb(tok[2])
            return "ok"
        if op == "delete":
            ref = weakref.ref(h)
            del h
            del self.hooks[i]
            gc.collect()
            return "ok" if ref() is None else "ok [object still alive after dropping the last reference]"
        raise AssertionError(tok)


# ---------------------------------------------------------------------------------------------
# comparison with tolerance on the value part

def close(a: float, c: float, tol: float = TOL_MODEL) -> bool:
    if a == c:
        return True
    if math.isnan(a) or math.isnan(c):
        return math.isnan(a) and math.isnan(c)
    return abs(a - c) <= tol * max(1.0, abs(a), abs(c))


def case_dtype(case) -> str:
    """floating-point type of the watched tensor: 7th token of the `begin` line (real-side information)"""
    t = case[0].split() if case else []
    return t[6] if len(t) > 6 and t[0] == "begin" else "f64"


def m_equal(real_m: str, drv_m: str, tol: float = TOL_MODEL) -> bool:
    if real_m == drv_m:
        return True
    rp, dp = real_m.split(" | "), drv_m.split(" | ")
    if len(rp) != 3 or len(dp) != 3 or rp[:2] != dp[:2]:
        return False
    rv, dv = rp[2].split(), dp[2].split()
    if len(rv) != 2 or len(dv) != 2 or rv[0] != "v" or dv[0] != "v":
        return False
    if rv[1] == "-" or dv[1] == "-":
        return rv[1] == dv[1]
    ra, da = rv[1].split(","), dv[1].split(",")
    return len(ra) == len(da) and all(close(h2f(x), h2f(y), tol) for x, y in zip(ra, da))


def compare_case(case, real, resp):
    """first disagreement with the specification stream if there is one (the specification stream does not depend on the
    attribute values, so it stays meaningful after the code-shaped model has diverged), else the first with the model"""
    tol = DTYPES[case_dtype(case)][1]
    first_model = None
    for i, ((rm, rs), line) in enumerate(zip(real, resp)):
        dm, ds = seqcheck.split_resp(line)
        if rs != ds:
            return (i, "spec", ds, rs)
        if first_model is None and not m_equal(rm, dm, tol):
            first_model = (i, "model", dm, rm)
    return first_model


def shrink_case(ctx, case, kind, max_tries=80):
    tries = 0

    def fails(c):
        real = seqcheck.exec_real(Real, c)
        resp = ctx.run_driver(DRIVER, drv_lines(c))
        d = compare_case(c, real, resp)
        if d is None or d[1] != kind:
            return False
        return not (any(x.startswith("harness-exception") for x in (d[2], d[3])) or "bad-op" in d[2])

    cur = list(case)
    changed = True
    while changed and tries < max_tries:
        changed = False
        for i in range(len(cur) - 2, 0, -1):
            cand = cur[:i] + cur[i + 1:]
            tries += 1
            if tries > max_tries:
                break
            if fails(cand):
                cur = cand
                changed = True
    return cur


def drv_lines(lines):
    """`swap` (replace the owner object on the attribute path) and the same-object updates `iset` / `dset` / `nset` are
    assignments for the model; `fcall <who> <mode>` (a module call that fails and is handled by the caller) is a mode switch"""
    out = []
    for l in lines:
        t = l.split()
        if t and t[0] in ("swap", "iset", "dset", "nset"):
            out.append("set " + t[1])
        elif t and t[0] == "fcall":
            out.append("mode " + t[2])
        else:
            out.append(l)
    return out


def run_cases(ctx, cases, ex: Exploration, max_findings=8):
    flat = [l for c in cases for l in c]
    reals = [seqcheck.exec_real(Real, c) for c in cases]
    resp = ctx.run_driver(DRIVER, drv_lines(flat))
    pos = 0
    nfound = {"spec": 0, "model": 0}
    for case, real in zip(cases, reals):
        r = resp[pos:pos + len(case)]
        pos += len(case)
        ex.evaluations += len(case)
        ex.traces_validated += 1
        if nontrivial(case, real):
            ex.nontriv(tuple(case))
        for (rm, rs) in real:
            if rm.startswith("err "):
                ex.count("error_kinds", rm.split(" | ")[0])
        d = compare_case(case, real, r)
        if d is None:
            continue
        if any(x.startswith("harness-exception") for x in (d[2], d[3])) or "bad-op" in d[2]:
            raise RuntimeError(f"harness/driver protocol failure on {case[:d[0] + 1]}: {d}")
        nfound[d[1]] += 1                  # capped per kind: model-only disagreements must not crowd out failing inputs
        if nfound[d[1]] > max_findings:
            continue
        small = shrink_case(ctx, case[: d[0] + 1], d[1])
        real2 = seqcheck.exec_real(Real, small)
        resp2 = ctx.run_driver(DRIVER, drv_lines(small))
        d2 = compare_case(small, real2, resp2) or d
        ex.findings.append(Finding(
            kind=d2[1], key=key_of(small, d2),
            what=f"op `{small[d2[0]]}`: expected `{d2[2]}` observed `{d2[3]}`",
            case={"ops": small, "index": d2[0], "expected": d2[2], "observed": d2[3],
                  "disagreement": "code vs specification" if d2[1] == "spec" else "code vs code-shaped model"}))


def nontrivial(case, real):
    # non-trivial: at least one hook ran (module call with a hook event, or a manual call that fired)
    for l, r in zip(case, real):
        if isinstance(r, tuple) and (("trace" in r[0] and ":" in r[0].split(" | ")[0]) or r[0].startswith("fired T")):
            return True
    return False


def key_of(case, d):
    op = case[d[0]].split()[0]
    return f"C16:{d[1]}:{op}"


# ---------------------------------------------------------------------------------------------
# generators

def mk_line(rng, kind=None):
    kind = kind or rng.choice("ps")
    tr, ev = rng.random() < 0.7, rng.random() < 0.6
    if kind == "p":
        hp, hq = rng.choice([(True, False), (False, True), (True, True)])
        if rng.random() < 0.03:
            hp = hq = False                # malformed: the constructor must raise RuntimeError
    else:
        hp = rng.random() < 0.5
        hq = not hp
    return f"mk {kind} {b(hp)} {b(hq)} {b(rng.random() < 0.4)} {b(rng.random() < 0.4)} {b(tr)} {b(ev)}"


OPS_A = ["register"] * 5 + ["deregister"] * 3 + ["mode"] * 4 + ["call"] * 8 + ["manual"] * 4 + \
        ["trainexec"] * 2 + ["evalexec"] * 2 + ["delete"] * 2 + ["mk"] * 2


def rand_op(rng, n_made, alive, kinds):
    """one operation line over the hooks made so far; mostly addressed to live objects"""
    op = rng.choice(OPS_A)
    if op == "mk" or n_made == 0:
        return mk_line(rng)
    if op == "mode":
        return f"mode {b(rng.random() < 0.5)}"
    if op == "call":
        return "call"
    r = rng.random()
    if alive and r < 0.93:
        i = rng.choice(sorted(alive))
    elif r < 0.97:
        i = rng.randrange(n_made)          # possibly a collected object
    else:
        i = n_made + rng.randrange(2)      # never existed
    if op == "manual":
        if kinds.get(i) == "p" and rng.random() < 0.9:
            cand = [j for j in alive if kinds.get(j) == "s"]
            if cand:
                i = rng.choice(cand)
        return f"manual {i} {b(rng.random() < 0.4)} {b(rng.random() < 0.4)}"
    if op in ("trainexec", "evalexec"):
        return f"{op} {i} {b(rng.random() < 0.5)}"
    return f"{op} {i}"


def random_program(rng, maxlen=40):
    lines = ["begin " + f2h(0.0) + " -"]
    n_made, alive, kinds = 0, set(), {}
    length = rng.randint(4, maxlen)
    for k in range(length):
        line = mk_line(rng) if k < rng.choice([1, 2, 3]) and k == n_made else rand_op(rng, n_made, alive, kinds)
        tok = line.split()
        if tok[0] == "mk":
            ok = (tok[1] == "p" and (tok[2] == "T" or tok[3] == "T")) or (tok[1] == "s" and tok[2] != tok[3])
            if ok:
                kinds[n_made] = tok[1]
                alive.add(n_made)
                n_made += 1
        elif tok[0] == "delete":
            alive.discard(int(tok[1]))
        lines.append(line)
    return lines


def exhaustive_single_hook():
    """every configuration of ONE hook x enable flags x module mode x registered? x {call, manual(force, ignore)}"""
    cases = []
    cfgs = [("p", True, False), ("p", False, True), ("p", True, True), ("s", True, False), ("s", False, True)]
    for kind, hp, hq in cfgs:
        for prepend in (False, True):
            for tr in (False, True):
                for ev in (False, True):
                    for mode in (False, True):
                        for state in ("fresh", "registered", "deregistered", "reregistered", "deleted"):
                            pre = ["begin " + f2h(0.0) + " -",
                                   f"mk {kind} {b(hp)} {b(hq)} {b(prepend)} {b(prepend)} {b(tr)} {b(ev)}",
                                   f"mode {b(mode)}"]
                            if state != "fresh":
                                pre.append("register 0")
                            if state in ("deregistered", "reregistered"):
                                pre.append("deregister 0")
                            if state == "reregistered":
                                pre += ["register 0", "register 0"]
                            if state == "deleted":
                                pre.append("delete 0")
                            tail = ["call"]
                            if kind == "s":
                                tail += [f"manual 0 {b(f)} {b(g)}" for f in (False, True) for g in (False, True)]
                            tail += [f"mode {b(not mode)}", "call"]
                            cases.append(pre + tail)
    return cases


def pairs_order_cases():
    """two or three hooks in the same position with every prepend combination: torch's ordering"""
    cases = []
    for k1 in "ps":
        for k2 in "ps":
            for pos_pre in (False, True):
                for p1 in (False, True):
                    for p2 in (False, True):
                        for p3 in (False, True):
                            c = ["begin " + f2h(0.0) + " -"]
                            for (k, pp) in ((k1, p1), (k2, p2), ("s", p3)):
                                c.append(f"mk {k} {b(pos_pre)} {b(not pos_pre)} {b(pp)} {b(pp)} T T")
                            c += ["register 1", "register 0", "register 2", "call", "deregister 0", "call", "register 0",
                                  "call", "delete 2", "call", "delete 1", "delete 0", "call"]
                            cases.append(c)
    return cases


SHAPES = [(4,), (2, 3), (3, 2), (2, 2, 2), (1, 5), (2, 1, 3)]
PATHS = ["w", "sub.w", "sub.inner.w"]
ORDERS = [1.0, 2.0, 3.0, 0.5, 1.5, 8.0, math.inf, -1.0, -2.0]


def groups_for(shape, dim):
    numel = 1
    for s in shape:
        numel *= s
    idx = torch.arange(numel).reshape(shape)
    if dim is None:
        return [idx.reshape(-1).tolist()]
    dims = sorted(d % len(shape) for d in dim)
    rest = [d for d in range(len(shape)) if d not in dims]
    t = idx.permute(*rest, *dims)
    k = 1
    for d in dims:
        k *= shape[d]
    return t.reshape(-1, k).tolist()


def rand_vals(rng, shape, nonzero=False):
    numel = 1
    for s in shape:
        numel *= s
    mode = rng.random()
    out = []
    for _ in range(numel):
        if nonzero:
            v = rng.choice([-1, 1]) * rng.randint(1, 40) / 8
        elif mode < 0.12:
            v = 0.0
        elif mode < 0.3:
            v = rng.choice([0, 0, 0, 1, -2]) * rng.randint(0, 24) / 8
        else:
            v = rng.randint(-40, 40) / 8
        out.append(float(v))
    return out


def value_program(rng, maxlen=16):
    shape = rng.choice(SHAPES)
    path = rng.choice(PATHS)
    kind = rng.choice(["plain", "buf"])
    delta = rng.choice([0.0, 1.0, -0.5, 2.0])
    nhooks = rng.choice([1, 1, 2])
    specs = []
    neg = False
    for _ in range(nhooks):
        a, pp, tr, ev = rng.random() < 0.5, rng.random() < 0.5, rng.random() < 0.8, rng.random() < 0.7
        if rng.random() < 0.45:
            lo = rng.randint(-24, 16) / 8
            hi = lo + rng.randint(1, 24) / 8
            r = rng.random()
            lo_s = "N" if r < 0.2 else f2h(lo)
            hi_s = "N" if 0.2 <= r < 0.4 else f2h(hi)
            specs.append(f"vmk clamp {lo_s} {hi_s} {b(a)} {b(pp)} {b(tr)} {b(ev)}")
        else:
            p = rng.choice(ORDERS)
            neg = neg or p < 0
            sc = rng.choice([1.0, 2.0, 0.5, -1.5, 3.25, 10.0])
            eps = rng.choice([1e-12, 1e-12, 1e-6, 0.25, 4.0])
            nd = rng.choice([None, 1, 1, 2]) if len(shape) > 1 else rng.choice([None, 1])
            if nd is None:
                dim = None
            else:
                dim = tuple(sorted(rng.sample(range(len(shape)), min(nd, len(shape)))))
                if rng.random() < 0.3:
                    dim = tuple(d - len(shape) for d in dim)
            gs = ";".join(",".join(map(str, g)) for g in groups_for(shape, dim))
            dim_s = "N" if dim is None else ",".join(map(str, dim))
            p_s = "inf" if p == math.inf else f2h(p)
            specs.append(f"vmk norm {p_s} {f2h(sc)} {f2h(eps)} {gs} {dim_s} {b(a)} {b(pp)} {b(tr)} {b(ev)}")
    if any(x.startswith("vmk norm") for x in specs):
        # forward's constant must not cancel a normalised component (±|scale|, 0) up to rounding noise, which a later
        # normalisation would amplify: the comparison with the Float model would then be ill-conditioned
        delta = rng.choice([0.0, 0.375, -0.8125, 2.75])
    shp = "x".join(map(str, shape))
    lines = [f"begin {f2h(delta)} {vals_s(rand_vals(rng, shape, nonzero=neg))} {shp} {path} {kind}"]
    lines += specs
    if rng.random() < 0.4:
        lines.append(mk_line(rng))
    n = len(lines) - 1
    for i in range(n):
        if rng.random() < 0.85:
            lines.append(f"register {i}")
    alive = set(range(n))
    for _ in range(rng.randint(3, maxlen)):
        r = rng.random()
        if r < 0.35:
            lines.append("call")
        elif r < 0.5:
            lines.append(f"{'swap' if rng.random() < 0.4 else 'set'} {vals_s(rand_vals(rng, shape, nonzero=neg))}")
        elif r < 0.6:
            lines.append(f"mode {b(rng.random() < 0.5)}")
        elif r < 0.72 and alive:
            i = rng.choice(sorted(alive))
            if i < len(specs):
                lines.append(f"manual {i} {b(rng.random() < 0.5)} {b(rng.random() < 0.5)}")
            else:
                lines.append("call")
        elif r < 0.8 and alive:
            lines.append(f"{rng.choice(['register', 'deregister'])} {rng.choice(sorted(alive))}")
        elif r < 0.88 and alive:
            lines.append(f"{rng.choice(['trainexec', 'evalexec'])} {rng.choice(sorted(alive))} {b(rng.random() < 0.5)}")
        elif r < 0.92 and alive:
            i = rng.choice(sorted(alive))
            alive.discard(i)
            lines.append(f"delete {i}")
        else:
            lines.append("call")
    return lines


# log2 of the element magnitude, per floating-point type: from far below to far above 1, all well inside the type's normal
# range (binary32: 2**-126; binary64: 2**-1022)
MAG_EXPS = {"f32": [-34, -30, -27, -24, -20, -14, -7, 0, 0, 10, 20],
            "f64": [-80, -60, -45, -34, -27, -20, -7, 0, 0, 10, 30]}
MAG_EPS = [1e-12, 1e-12, 1e-12, 2.0 ** -40, 2.0 ** -60, 2.0 ** -100, 1e-6]


def scaled_vals(rng, shape, exps, nonzero=False):
    """dyadic values k/8 * 2**e (exact in binary32 and binary64), e drawn per element from `exps`; some zero vectors"""
    numel = 1
    for s in shape:
        numel *= s
    mode = rng.random()
    out = []
    for _ in range(numel):
        e = rng.choice(exps)
        if nonzero:
            k = rng.choice([-1, 1]) * rng.randint(1, 40)
        elif mode < 0.08:
            k = 0
        elif mode < 0.2:
            k = rng.choice([0, 0, 1, -2]) * rng.randint(0, 24)
        else:
            k = rng.randint(-40, 40)
        out.append(float(k) / 8 * 2.0 ** e)
    return out


def magnitude_program(rng, maxlen=10):
    """Normalization (sometimes with a Clamping hook) on a tensor of either floating-point type whose vectors have norms on
    every scale between the hook's epsilon and the type's range: the post-condition speaks about EVERY vector with norm >= eps"""
    dt = rng.choice(["f32", "f32", "f64"])
    limit = DTYPES[dt][3]
    shape = rng.choice(SHAPES)
    path = rng.choice(PATHS)
    kind = rng.choice(["plain", "buf"])
    e0 = rng.choice(MAG_EXPS[dt])
    # one magnitude for the whole tensor, or two magnitudes mixed element by element
    exps = [e0] if rng.random() < 0.7 else [e0, e0, rng.choice(MAG_EXPS[dt])]
    worst = max(abs(e) for e in exps) + 6          # k/8 lies in [2**-3, 2**2.4]; sums of up to 8 elements
    orders = [p for p in ORDERS if p == math.inf or abs(p) * worst <= limit]
    p = rng.choice(orders)
    neg = p < 0
    sc = rng.choice([1.0, 2.0, 0.5, -1.5, 3.25, 10.0])
    eps = rng.choice(MAG_EPS)
    a, pp, tr, ev = rng.random() < 0.5, rng.random() < 0.5, rng.random() < 0.85, rng.random() < 0.8
    nd = rng.choice([None, 1, 1, 2]) if len(shape) > 1 else rng.choice([None, 1])
    if nd is None:
        dim = None
    else:
        dim = tuple(sorted(rng.sample(range(len(shape)), min(nd, len(shape)))))
        if rng.random() < 0.3:
            dim = tuple(d - len(shape) for d in dim)
    gs = ";".join(",".join(map(str, g)) for g in groups_for(shape, dim))
    dim_s = "N" if dim is None else ",".join(map(str, dim))
    p_s = "inf" if p == math.inf else f2h(p)
    specs = [f"vmk norm {p_s} {f2h(sc)} {f2h(eps)} {gs} {dim_s} {b(a)} {b(pp)} {b(tr)} {b(ev)}"]
    if not neg and rng.random() < 0.25:
        # a Clamping hook on the same tensor, bounds on the scale of the data or of the normalised result (not with a negative
        # order: a clamped-to-zero entry has IEEE norm 0, the gap the property does not speak about, and x / eps may then
        # leave the range of float32)
        u = 2.0 ** rng.choice([e0, 0])
        lo = rng.randint(-24, 16) / 8 * u
        hi = lo + rng.randint(1, 24) / 8 * u
        r = rng.random()
        lo_s = "N" if r < 0.2 else f2h(lo)
        hi_s = "N" if 0.2 <= r < 0.4 else f2h(hi)
        specs.append(f"vmk clamp {lo_s} {hi_s} {b(rng.random() < 0.5)} {b(rng.random() < 0.5)} T T")
    # forward's constant.  float64: as in value_program.  float32: the real tensor and the binary64 model round differently, so
    # a constant that cancels normalised components (all elements ~delta -> components -|scale|/k**(1/p)) would make the
    # comparison with the model ill-conditioned; the constant is 0 or lies on the (small) scale of the data, where it can
    # only cancel exactly (dyadic values) and is absorbed by normalised components
    if neg:
        delta = 0.0
    elif dt == "f64":
        delta = rng.choice([0.0, 0.0, 0.0, 0.375, -0.8125, 2.75])
    elif e0 <= -14 and rng.random() < 0.4:
        delta = rng.choice([-1, 1]) * rng.randint(1, 24) / 8 * 2.0 ** e0
    else:
        delta = 0.0
    shp = "x".join(map(str, shape))
    lines = [f"begin {f2h(delta)} {vals_s(scaled_vals(rng, shape, exps, nonzero=neg))} {shp} {path} {kind} {dt}"]
    lines += specs
    n = len(specs)
    for i in range(n):
        if rng.random() < 0.9:
            lines.append(f"register {i}")
    for _ in range(rng.randint(3, maxlen)):
        r = rng.random()
        if r < 0.35:
            lines.append("call")
        elif r < 0.6:
            lines.append(f"{'swap' if rng.random() < 0.3 else 'set'} {vals_s(scaled_vals(rng, shape, exps, nonzero=neg))}")
        elif r < 0.68:
            lines.append(f"mode {b(rng.random() < 0.5)}")
        elif r < 0.86:
            lines.append(f"manual {rng.randrange(n)} {b(rng.random() < 0.6)} {b(rng.random() < 0.6)}")
        elif r < 0.92:
            lines.append(f"{rng.choice(['register', 'deregister'])} {rng.randrange(n)}")
        else:
            lines.append(f"{rng.choice(['trainexec', 'evalexec'])} {rng.randrange(n)} {b(rng.random() < 0.5)}")
    return lines


def _norm_spec(rng, shape):
    p = rng.choice(ORDERS)
    sc = rng.choice([1.0, 2.0, 0.5, -1.5, 3.25, 10.0])
    eps = rng.choice([1e-12, 1e-12, 1e-12, 1e-6, 0.25])
    a, pp, tr, ev = rng.random() < 0.5, rng.random() < 0.5, rng.random() < 0.85, rng.random() < 0.8
    nd = rng.choice([None, 1, 1, 2]) if len(shape) > 1 else rng.choice([None, 1])
    if nd is None:
        dim = None
    else:
        dim = tuple(sorted(rng.sample(range(len(shape)), min(nd, len(shape)))))
        if rng.random() < 0.3:
            dim = tuple(d - len(shape) for d in dim)
    gs = ";".join(",".join(map(str, g)) for g in groups_for(shape, dim))
    dim_s = "N" if dim is None else ",".join(map(str, dim))
    p_s = "inf" if p == math.inf else f2h(p)
    return p, f"vmk norm {p_s} {f2h(sc)} {f2h(eps)} {gs} {dim_s} {b(a)} {b(pp)} {b(tr)} {b(ev)}"


def _clamp_spec(rng):
    lo = rng.randint(-24, 16) / 8
    hi = lo + rng.randint(1, 24) / 8
    r = rng.random()
    lo_s = "N" if r < 0.2 else f2h(lo)
    hi_s = "N" if 0.2 <= r < 0.4 else f2h(hi)
    return (f"vmk clamp {lo_s} {hi_s} {b(rng.random() < 0.5)} {b(rng.random() < 0.5)} {b(rng.random() < 0.85)} "
            f"{b(rng.random() < 0.8)}")


def history_program(rng, maxlen=18):
    """Histories in which state is reached EARLIER than the call that is judged: the watched tensor object stays in place and
    is updated between hook runs the ways PyTorch code updates state (forward re-assigns / updates in place / updates through
    `.data`; the caller copies in place, through `.data`, through a NumPy view, or re-assigns), and fault sequences: module
    calls during which a hook body raises (an injected fault in a probe hook, or the value hooks finding no tensor at their
    target) with the caller handling the exception and carrying on.  Every later call is held to the same specification."""
    shape = rng.choice(SHAPES)
    path = rng.choice(PATHS)
    kind = rng.choice(["plain", "buf"])
    style = rng.choice(["assign", "inplace", "data", "data"])
    specs = []
    neg = False
    nval = rng.choice([1, 1, 2])
    for _ in range(nval):
        if rng.random() < 0.65:
            p, line = _norm_spec(rng, shape)
            neg = neg or p < 0
            specs.append(line)
        else:
            specs.append(_clamp_spec(rng))
    has_norm = any(x.startswith("vmk norm") for x in specs)
    # forward's constant: see value_program (must not cancel normalised components up to rounding noise)
    delta = rng.choice([0.0, 0.375, -0.8125, 2.75]) if has_norm else rng.choice([0.0, 1.0, -0.5, 2.0])
    if neg:
        delta = 0.0 if rng.random() < 0.5 else 2.75
    shp = "x".join(map(str, shape))
    lines = [f"begin {f2h(delta)} {vals_s(rand_vals(rng, shape, nonzero=neg))} {shp} {path} {kind} f64 {style}"]
    lines += specs
    for _ in range(rng.choice([0, 1, 1, 2])):
        lines.append(mk_line(rng))
    n = len(lines) - 1
    for i in range(n):
        if rng.random() < 0.9:
            lines.append(f"register {i}")
    alive = set(range(n))
    mode = True
    for _ in range(rng.randint(4, maxlen)):
        r = rng.random()
        if r < 0.34:
            lines.append("call")
        elif r < 0.56:
            how = rng.choice(["set", "swap", "iset", "dset", "dset", "nset", "nset"])
            lines.append(f"{how} {vals_s(rand_vals(rng, shape, nonzero=neg))}")
        elif r < 0.62:
            mode = rng.random() < 0.5
            lines.append(f"mode {b(mode)}")
        elif r < 0.76:
            # a failing call: no tensor at the target, or a probe hook's body raises
            probes = [i for i in sorted(alive) if i >= len(specs)]
            if rng.random() < 0.3:
                mode = rng.random() < 0.5
            who = str(rng.choice(probes)) if probes and rng.random() < 0.6 else "N"
            lines.append(f"fcall {who} {b(mode)}")
        elif r < 0.86 and alive:
            i = rng.choice(sorted(alive))
            if i < len(specs) or rng.random() < 0.5:
                lines.append(f"manual {i} {b(rng.random() < 0.5)} {b(rng.random() < 0.5)}")
            else:
                lines.append("call")
        elif r < 0.92 and alive:
            lines.append(f"{rng.choice(['register', 'deregister'])} {rng.choice(sorted(alive))}")
        elif r < 0.97 and alive:
            lines.append(f"{rng.choice(['trainexec', 'evalexec'])} {rng.choice(sorted(alive))} {b(rng.random() < 0.5)}")
        elif alive:
            i = rng.choice(sorted(alive))
            alive.discard(i)
            lines.append(f"delete {i}")
        else:
            lines.append("call")
    lines.append("call")
    return lines


def rand_ints(rng, shape, dt):
    numel = 1
    for s in shape:
        numel *= s
    if dt == "b":
        return [float(rng.random() < 0.5) for _ in range(numel)]
    lo = 0 if dt == "u8" else -6
    mode = rng.random()
    out = []
    for _ in range(numel):
        if mode < 0.15:
            v = 0
        elif mode < 0.3:
            v = rng.choice([0, 0, 1, lo // 3])
        else:
            v = rng.randint(lo, 6)
        out.append(float(v))
    return out


def integer_program(rng, maxlen=12):
    """Clamping on an integer- or boolean-typed target (spike counts, step-valued delays, masks) with integer-valued and
    fractional bounds: after every run the attribute — whatever type it then has — lies within [min, max]"""
    dt = rng.choice(sorted(INT_DTYPES))
    shape = rng.choice(SHAPES)
    path = rng.choice(PATHS)
    kind = rng.choice(["plain", "buf"])
    delta = rng.choice([0.0, 1.0, -0.5, 2.0])
    specs = []
    for _ in range(rng.choice([1, 1, 2])):
        if rng.random() < 0.3:
            # integer-valued bounds
            lo = float(rng.randint(-3, 2))
            hi = lo + rng.randint(1, 3)
            r = rng.random()
            lo_s = "N" if r < 0.2 else f2h(lo)
            hi_s = "N" if 0.2 <= r < 0.4 else f2h(hi)
            specs.append(f"vmk clamp {lo_s} {hi_s} {b(rng.random() < 0.5)} {b(rng.random() < 0.5)} {b(rng.random() < 0.85)} "
                         f"{b(rng.random() < 0.8)}")
        else:
            specs.append(_clamp_spec(rng))
    shp = "x".join(map(str, shape))
    lines = [f"begin {f2h(delta)} {vals_s(rand_ints(rng, shape, dt))} {shp} {path} {kind} {dt}"]
    lines += specs
    if rng.random() < 0.3:
        lines.append(mk_line(rng))
    n = len(lines) - 1
    for i in range(n):
        if rng.random() < 0.9:
            lines.append(f"register {i}")
    for _ in range(rng.randint(3, maxlen)):
        r = rng.random()
        if r < 0.4:
            lines.append("call")
        elif r < 0.6:
            lines.append(f"{'swap' if rng.random() < 0.3 else 'set'} {vals_s(rand_ints(rng, shape, dt))}")
        elif r < 0.68:
            lines.append(f"mode {b(rng.random() < 0.5)}")
        elif r < 0.84:
            lines.append(f"manual {rng.randrange(len(specs))} {b(rng.random() < 0.6)} {b(rng.random() < 0.6)}")
        elif r < 0.92:
            lines.append(f"{rng.choice(['register', 'deregister'])} {rng.randrange(n)}")
        else:
            lines.append(f"{rng.choice(['trainexec', 'evalexec'])} {rng.randrange(n)} {b(rng.random() < 0.5)}")
    return lines


def corpus_cases():
    from pathlib import Path
    d = Path(__file__).resolve().parent.parent.parent / "corpus" / "C16"
    out = []
    if d.exists():
        for f in sorted(d.glob("*.ops")):
            out.append([l for l in f.read_text().splitlines() if l.strip() and not l.startswith("#")])
    return out


def zero_vector_dtype_probe(ex) -> None:
    """the property's zero-vector clause in every floating data type (the value programs use float32 / float64 only): a
    Normalization hook run on a tensor that holds zero vectors must leave them zero — never NaN — whatever the order, scale,
    dims and (default or explicit) eps; non-zero vectors of the same tensor must come out finite"""
    class _M(Module):
        def __init__(self, t):
            Module.__init__(self)
            self.register_buffer("w", t)

        def forward(self, x):
            return x
    for dt in (torch.float16, torch.bfloat16, torch.float32, torch.float64):
        for shape, dim in (((2, 3), -1), ((3,), None), ((2, 2, 2), (1, 2))):
            for order in (1, 2, float("inf")):
                for scale in (1.0, -2.0):
                    for eps in (None, 1e-12, 2.0 ** -10):
                        t = torch.zeros(shape, dtype=dt)
                        if len(shape) > 1:
                            t[0] = 1.0                      # one non-zero vector next to the zero ones
                        m = _M(t)
                        kw = {} if eps is None else {"epsilon": eps}
                        case = {"section": "zero-vector-dtype", "dtype": str(dt), "shape": list(shape), "dim": dim, "order": order,
                                "scale": scale, "eps": eps}
                        ex.evaluations += 1
                        ex.count("zero_vector_probe_dtype", str(dt))
                        try:
                            h = Normalization(m, "w", order, scale, dim, **kw)
                            h.register()
                            m(torch.zeros(1))
                            out = m.w.detach().to(torch.float64)
                        except Exception as e:  # noqa: BLE001
                            ex.findings.append(Finding(kind="spec", key=f"C16:spec:normalize-zero:raises:{dt}",
                                                       what=f"Normalization on a {dt} tensor with zero vectors raises {type(e).__name__}: {str(e)[:120]}", case=case))
                            continue
                        zero_part = out[1:] if len(shape) > 1 else out
                        if not bool(torch.isfinite(out).all()) or bool((zero_part != 0).any()):
                            if sum(1 for f in ex.findings if f.key.startswith("C16:spec:normalize-zero")) < 3:
                                ex.findings.append(Finding(kind="spec", key=f"C16:spec:normalize-zero:{dt}",
                                                           what=f"Normalization(order={order}, scale={scale}, dim={dim}, eps={'default' if eps is None else eps}) on a "
                                                                f"{dt} tensor of shape {list(shape)} with zero vectors: result {out.flatten().tolist()[:8]} "
                                                                "(zero vectors must stay zero)", case=case))


def explore(ctx) -> Exploration:
    torch.set_default_dtype(torch.float64)
    ex = Exploration()
    rng = ctx.rng
    thorough = ctx.tier == "thorough" or ctx.intensify
    cases = corpus_cases()
    ncorpus = len(cases)
    exh = exhaustive_single_hook() + pairs_order_cases()
    cases += exh
    nrand = 500 if not thorough else 2500
    rnd = [random_program(rng) for _ in range(nrand)]
    nval = 500 if not thorough else 2500
    val = [value_program(rng) for _ in range(nval)]
    nmag = 300 if not thorough else 1500
    mag = [magnitude_program(rng) for _ in range(nmag)]     # drawn after the older streams: their cases are unchanged
    nhist = 300 if not thorough else 1500
    hist = [history_program(rng) for _ in range(nhist)]      # drawn after the older streams: their cases are unchanged
    nint = 200 if not thorough else 1000
    ints = [integer_program(rng) for _ in range(nint)]
    cases += rnd + val + mag + hist + ints
    for c in cases:
        for l in c:
            t = l.split()
            ex.count("ops", t[0] if t[0] != "vmk" else "vmk-" + t[1])
            if t[0] == "vmk" and t[1] == "norm":
                ex.count("norm_order", "inf" if t[2] == "inf" else repr(h2f(t[2])))
                ex.count("norm_dim", t[6])
            if t[0] == "begin" and len(t) > 4:
                ex.count("attr_path", t[4])
                ex.count("attr_shape", t[3])
                ex.count("attr_dtype", t[6] if len(t) > 6 else "f64")
                ex.count("forward_update_style", t[7] if len(t) > 7 else "assign")
                if len(t) > 6 and t[2] != "-":
                    top = max(abs(h2f(x)) for x in t[2].split(","))
                    ex.count("magnitude_program_initial_max_abs", "0" if top == 0 else f"2^{10 * math.floor(math.log2(top) / 10):+d}..")
        ex.count("program_length", str(10 * (len(c) // 10)) + "+")
    run_cases(ctx, cases, ex)
    ex.rule = ("cases = corpus + exhaustive single-hook table (5 hook configurations x prepend x trainexec x evalexec x module mode x "
               "{fresh, registered, deregistered, re-registered twice, deleted} followed by call, all four manual(force, ignore_mode) "
               "calls, mode switch, call) + every prepend combination of three hooks in one position + seeded random programs "
               "(length <= 40, up to ~6 hooks of both kinds, 7% of object-addressed ops name a collected or never-created object) + "
               "seeded value programs (Clamping / Normalization on a float64 tensor attribute at w / sub.w / sub.inner.w, plain or "
               "buffer, 6 shapes, 9 norm orders incl. inf and negative, dims None / single / tuples / negative, scales incl. negative, "
               "eps incl. large ones, zero vectors; forward adds a constant so that pre/post placement is visible in the values) + "
               "seeded magnitude programs (Normalization, sometimes with Clamping, on a float32 or float64 tensor whose elements are "
               "k/8 * 2**e with e from -34..20 (float32) / -80..30 (float64), one or two magnitudes mixed per tensor, eps from 1e-12 "
               "(default) down to 2**-100, norm orders restricted so that |x|**p stays inside the type's normal range; every vector "
               "with norm >= eps is held to norm == |scale| at 1e-4 (float32) / 1e-6 (float64), re-assigned mid-run by set / swap) + "
               "seeded history programs (value hooks and probe hooks on a float64 tensor whose OBJECT stays in place: forward "
               "re-assigns / adds in place / adds through .data, the caller updates by set / swap / in-place copy / copy through "
               ".data / write through a NumPy view; fault sequences: `fcall` = a module call during which a probe hook's body "
               "raises, or the target holds no tensor so that the value hooks and forward raise, handled by the caller, after which "
               "every hook is held to the same firing rule and post-conditions) + seeded integer programs (Clamping with "
               "integer-valued and fractional bounds on int8/16/32/64, uint8 and bool targets); a "
               "case is non-trivial when at least one hook actually ran; distinct = distinct protocol text")
    zero_vector_dtype_probe(ex)
    ex.samples = [exh[0], rnd[0], val[0], mag[0], hist[0], ints[0]]
    ex.extra["post_condition_checks"] = dict(STATS)
    ex.extra["norm_checked_fibres_by_dtype_and_decade_of_norm_before"] = dict(sorted(NORM_DECADES.items()))
    ex.extra["streams"] = {"corpus": ncorpus, "exhaustive": len(exh), "random_programs": len(rnd), "value_programs": len(val),
                           "magnitude_programs": len(mag), "history_programs": len(hist), "integer_programs": len(ints)}
    return ex


def replay(ctx, data) -> int:
    torch.set_default_dtype(torch.float64)
    case = data.get("failing_input", {}).get("ops") or data.get("ops")
    if not case:
        print("replay file has no op sequence (proof/tie breakage without failing input):", data.get("broken"))
        return 1
    real = seqcheck.exec_real(Real, case)
    resp = ctx.run_driver(DRIVER, drv_lines(case))
    for l, r, d in zip(case, real, resp):
        print(f"{l}\n    real: M {r[0]} || S {r[1]}\n    lean: {d}")
    d = compare_case(case, real, resp)
    print("DISAGREEMENT" if d else "agrees", d or "")
    return 1 if d else 0
