"""C08 — STDP-family weight changes equal the documented sum over spike pairs.

Tie: (a) the trace recurrences are GENERATED from /repo (`Gen/Trace{R,F}.lean`) and validated against
the Python originals on every run (transval); (b) the trainers' wiring (`register_cell` amplitudes and
durations, `forward`) is hand-modelled in `Model/STDP.lean` (ℝ, theorems) / `Model/STDPF.lean`
(Float, executed by `drivers/C08.lean`) — the two definition blocks are checked to be textually
identical on every run — and compared with the REAL trainers on real `Serial` layers
(`ExactNeuron` post spikes forced through `override`) after every trainer step: the accumulator
contents `cell.updater.weight.pos/neg` and, without bounding, the weight after `update()`.
Search: the same real runs are judged against the driver's `S` stream, the explicit sum over
spike pairs; a disagreement is reported with the failing history of the one weight concerned.
"""
from __future__ import annotations

import itertools
import math
import re

import numpy as np
import torch

from inferno.extra import ExactNeuron
from inferno.learn import MSTDP, MSTDPET, STDP, TripletSTDP
from inferno.neural import Biclique, Conv2D, DeltaCurrent, LinearDense, LinearDirect, LinearLateral, Serial

import leanbridge as lb
import transval
from runner import Exploration, Finding
from transval import hx, unhx

SPEC = {
    "prop": "C08",
    "lean_targets": ["InfernoVerif.Props.C08", "InfernoVerif.Props.C09Glue", "InfernoVerif.Props.C08GlueProg", "InfernoVerif.Model.STDPF", "InfernoVerif.Gen.Dispatch"],
    "prop_files": ["InfernoVerif/Props/C08.lean", "InfernoVerif/Props/C09Glue.lean", "InfernoVerif/Props/C08GlueProg.lean"],
    "lemma_files": ["InfernoVerif/Lemmas/Recurrence.lean", "InfernoVerif/Lemmas/STDP.lean"],
    "model_files": ["InfernoVerif/Model/STDP.lean", "InfernoVerif/Model/STDPF.lean",
                    "InfernoVerif/Gen/TraceR.lean", "InfernoVerif/Gen/TraceF.lean"],
    "translate": ["Trace", "Routes", "STDPProg"],
    "driver_targets": ["InfernoVerif.Model.STDPF", "InfernoVerif.Gen.Dispatch"],
    "assumptions": [
        "theorems are over exact reals; the driver executes the same definitions over IEEE doubles and is compared with torch float64 "
        "to 1e-9 relative (accumulated sums of exponentials) — partial (float)",
        "connection delays are whole multiples of the step time (off-grid delays go through the reducers' interpolation, C02/C07)",
        "`connection.synspike` is taken to be the input train shifted by the synapse's delay (C06); spikes are forced with ExactNeuron(override=…)",
        "batch reductions torch.sum and torch.mean; no parameter bounding on the updater; trainers STDP, MSTDP, MSTDPET, TripletSTDP "
        "(the weight-dependent Stable* variants are outside the pair-sum statement)",
        "CPU, float64 default dtype",
    ],
}
DRIVER = "drivers/C08.lean"
TOL = 1e-9

VARIANTS = ["stdp", "mstdp-s", "mstdp-t", "mstdpet-s", "mstdpet-t", "triplet"]
SIGNS = [(1, -1), (-1, 1), (1, 1), (-1, -1)]      # hebbian, anti-hebbian, potentiative, depressive
DELAYMODES = ["none", "frozen", "delayed"]


# --------------------------------------------------------------------------------------------------
# identity of the two definition blocks
def defs_block(path):
    src = (lb.LEAN / path).read_text()
    m = re.search(r"-- BEGIN DEFS\n(.*?)-- END DEFS", src, re.S)
    return m.group(1) if m else None


def defs_identical():
    a, b = defs_block("InfernoVerif/Model/STDP.lean"), defs_block("InfernoVerif/Model/STDPF.lean")
    return a is not None and a == b


# --------------------------------------------------------------------------------------------------
# case generation
def make_params(rng, variant, sign, nearest):
    kind = variant.split("-")[0]
    dt = rng.choice([0.5, 1.0, 2.0])
    mag = lambda: rng.choice([0.125, 0.25, 0.5, 1.0, 0.75])
    tc = lambda: rng.choice([2.0, 4.0, 5.0, 10.0, 20.0])
    if kind == "triplet":
        f1, f2 = tc(), tc()
        return dict(dt=dt, nearest=nearest, aPost=sign[0] * mag(), bPost=rng.choice([1, -1]) * mag(),
                    aPre=sign[1] * mag(), bPre=rng.choice([1, -1]) * mag(),
                    tcPostFast=f1, tcPostSlow=f1 * rng.choice([1.5, 2.0, 4.0]),
                    tcPreFast=f2, tcPreSlow=f2 * rng.choice([1.5, 2.0, 4.0]))
    p = dict(dt=dt, nearest=nearest, lrPost=sign[0] * mag(), lrPre=sign[1] * mag(), tcPost=tc(), tcPre=tc())
    if kind == "mstdpet":
        p["tcz"] = tc()
    return p


def make_signal(rng, variant, T, B):
    if variant in ("stdp", "triplet"):
        return None
    scale = rng.choice([1.0, 0.5, 2.0, -0.5])
    vals = [1.0, -1.0, 0.5, -0.5, 2.0, -0.25, 0.0]
    if variant.endswith("-s"):
        return {"mode": "scalar", "scale": scale, "v": [rng.choice(vals) for _ in range(T)]}
    return {"mode": "tensor", "scale": scale, "v": [[rng.choice(vals) for _ in range(B)] for _ in range(T)]}


def geom_sizes(conn, geom):
    """(flat input size, flat output size, number of weights)"""
    if conn == "dense":
        return geom["nin"], geom["nout"], geom["nin"] * geom["nout"]
    if conn == "direct":
        return geom["n"], geom["n"], geom["n"]
    if conn == "lateral":
        return geom["n"], geom["n"], geom["n"] ** 2
    H, W, C, F, K, s = (geom[k] for k in ("H", "W", "C", "F", "K", "stride"))
    OH, OW = (H - K) // s + 1, (W - K) // s + 1
    return C * H * W, F * OH * OW, F * C * K * K


def bitrows(rng, T, B, n, p):
    """T strings per sample: rows[t][b] is a string of n bits"""
    return [["".join("1" if rng.random() < p else "0" for _ in range(n)) for _ in range(B)] for _ in range(T)]


def make_case(rng, variant, sign, nearest, delaymode, conn, geom, B, T, red, update, pre=None, post=None, delays=None, D=None):
    nin, nout, nw = geom_sizes(conn, geom)
    if delaymode == "none":
        D, delays = 0, [0] * nw
    else:
        D = D if D is not None else rng.choice([1, 2, 3])
        if delays is None:
            delays = [rng.randint(0, D) for _ in range(nw)]
        if conn == "lateral":
            n = geom["n"]
            delays = [0 if (i // n) == (i % n) else d for i, d in enumerate(delays)]   # the setter masks the diagonal
    if variant.startswith("mstdpet") and delaymode == "delayed":
        delaymode = "frozen"          # MSTDPET has no delayed mode
    p = rng.choice([0.3, 0.5, 0.7])
    return {"variant": variant, "params": make_params(rng, variant, sign, nearest), "conn": conn, "geom": geom,
            "B": B, "T": T, "delaymode": delaymode, "D": D, "delays": delays, "red": red, "update": update,
            "pre": pre if pre is not None else bitrows(rng, T, B, nin, p),
            "post": post if post is not None else bitrows(rng, T, B, nout, rng.choice([0.3, 0.5, 0.7])),
            "signal": make_signal(rng, variant, T, B)}


# --------------------------------------------------------------------------------------------------
# real side
def build_conn(case):
    p, geom, conn, B = case["params"], case["geom"], case["conn"], case["B"]
    dt = p["dt"]
    delay = None if case["delaymode"] == "none" else case["D"] * dt
    syn = DeltaCurrent.partialconstructor(1.0)
    if conn == "dense":
        c = LinearDense((geom["nin"],), (geom["nout"],), dt, synapse=syn, delay=delay, batch_size=B)
        outshape = (geom["nout"],)
    elif conn == "direct":
        c = LinearDirect((geom["n"],), dt, synapse=syn, delay=delay, batch_size=B)
        outshape = (geom["n"],)
    elif conn == "lateral":
        c = LinearLateral((geom["n"],), dt, synapse=syn, delay=delay, batch_size=B)
        outshape = (geom["n"],)
    else:
        c = Conv2D(geom["H"], geom["W"], geom["C"], geom["F"], dt, geom["K"], stride=geom["stride"],
                   synapse=syn, delay=delay, batch_size=B)
        outshape = tuple(c.outshape)
    c.updater = c.defaultupdater()
    if delay is not None:
        c.delay = (torch.tensor(case["delays"], dtype=torch.float64) * dt).reshape(c.delay.shape)
    return c, outshape


def trainer_kwargs(case, p=None):
    """hyper-parameters of a case as the keyword arguments of the trainer constructor / register_cell"""
    p = p or case["params"]
    kind = case["variant"].split("-")[0]
    kw = {"trace_mode": "nearest" if p["nearest"] else "cumulative",
          "batch_reduction": torch.sum if case["red"] == "sum" else torch.mean}
    if kind != "mstdpet":
        kw["delayed"] = case["delaymode"] == "delayed"
    if kind == "triplet":
        kw.update(lr_post_pair=p["aPost"], lr_post_triplet=p["bPost"], lr_pre_pair=p["aPre"], lr_pre_triplet=p["bPre"],
                  tc_post_fast=p["tcPostFast"], tc_post_slow=p["tcPostSlow"], tc_pre_fast=p["tcPreFast"], tc_pre_slow=p["tcPreSlow"])
    else:
        kw.update(lr_post=p["lrPost"], lr_pre=p["lrPre"], tc_post=p["tcPost"], tc_pre=p["tcPre"])
        if kind == "mstdpet":
            kw["tc_eligibility"] = p["tcz"]
    return kw


TRAINERS = {"stdp": STDP, "mstdp": MSTDP, "mstdpet": MSTDPET, "triplet": TripletSTDP}


def build(case):
    c, outshape = build_conn(case)
    n = ExactNeuron(outshape, case["params"]["dt"], rest_v=-60.0, thresh_v=-45.0, batch_size=case["B"])
    layer = Serial(c, n)
    tr = TRAINERS[case["variant"].split("-")[0]](**trainer_kwargs(case))
    tr.register_cell("cell", layer.cell)
    return layer, tr, outshape


def bits_tensor(rows_t, shape):
    """rows_t: list over b of bit strings"""
    a = np.frombuffer("".join(rows_t).encode(), dtype=np.uint8) - 48
    return torch.from_numpy(a.astype(np.float64)).reshape(len(rows_t), *shape)


def flat(x):
    return None if x is None else x.detach().reshape(-1).to(torch.float64).numpy().copy()


def call_trainer(tr, sig, t):
    if sig is None:
        tr()
    elif sig["mode"] == "scalar":
        tr(sig["v"][t], scale=sig["scale"])
    else:
        tr(torch.tensor(sig["v"][t], dtype=torch.float64), scale=sig["scale"])


def updates_at(case, t):
    """does the harness call Connection.update() after step t?"""
    return case["update"] == "each" or t == case["T"] - 1 or (case.get("clear_at") is not None and t == case["clear_at"] - 1)


def assign_delays(c, event, dt):
    """the learned delays of a connection are RE-ASSIGNED while training is under way, the way a user or a delay-learning
    rule does it: through the public `delay` setter, through the connection's updater (accumulate the difference, apply
    it with `updatesome("delay")`), or in place on the parameter"""
    new = (torch.tensor(event["delays"], dtype=torch.float64) * dt).reshape(c.delay.shape)
    via = event.get("via", "setter")
    if via == "setter":
        c.delay = new
    elif via == "updater":
        diff = new - c.delay.detach()
        c.updater.delay = (diff.clamp(min=0.0), (-diff).clamp(min=0.0))
        c.updatesome("delay")
    elif via == "inplace":
        c.delay.copy_(new)
    else:
        raise ValueError(f"unknown way of assigning delays: {via}")


def delay_segments(case):
    """[(a, b, delays)]: the per-weight delays (in steps) in force during the steps a..b-1 of the run"""
    segs, a, cur = [], 0, case["delays"]
    for e in sorted(case.get("redelay") or [], key=lambda e: e["at"]):
        if e["at"] > a:
            segs.append((a, e["at"], cur))
            a = e["at"]
        cur = e["delays"]
    segs.append((a, case["T"], cur))
    return segs


def run_real(case):
    """→ {'steps': [(pos, neg, weight|None)], 'w0': …} or {'exc': …, 'step': t, 'steps': …}.
    With `redelay = [{at, delays, via}]` the connection's delays are re-assigned before step `at` (assign_delays).
    With `clear_at = t0` the run is two EPISODES: after step t0-1 the weights are updated, then
    `trainer.clear(keepshape=clear_keep)` and `synapse.clear()` are called before step t0."""
    torch.set_default_dtype(torch.float64)
    out = {"steps": []}
    t = -1
    try:
        with torch.no_grad():
            layer, tr, outshape = build(case)
            inshape = tuple(layer.connection.inshape)
            out["w0"] = flat(layer.connection.weight)
            for t in range(case["T"]):
                if case.get("clear_at") == t:
                    tr.clear(keepshape=True) if case.get("clear_keep") else tr.clear()
                    layer.connection.synapse.clear()
                for e in case.get("redelay") or []:
                    if e["at"] == t:
                        assign_delays(layer.connection, e, case["params"]["dt"])
                x = bits_tensor(case["pre"][t], inshape)
                o = bits_tensor(case["post"][t], outshape).bool()
                layer(x, neuron_kwargs={"override": o})
                call_trainer(tr, case["signal"], t)
                acc = layer.cell.updater.weight
                pos, neg = flat(acc.pos), flat(acc.neg)
                w = None
                if updates_at(case, t):
                    layer.connection.update()
                    w = flat(layer.connection.weight)
                out["steps"].append((pos, neg, w))
    except Exception as e:  # the property promises a weight change, not an exception
        out["exc"] = f"{type(e).__name__}: {e}"
        out["step"] = t
    return out


def run_real_multi(mc):
    """Two cells trained by ONE trainer (per-cell hyper-parameter overrides in register_cell) in a Biclique layer:
    'shared-post' = two connections into one neuron group, 'shared-conn' = one connection into two neuron groups.
    → list of per-updater results in run_real's format (two for shared-post, one for shared-conn)"""
    torch.set_default_dtype(torch.float64)
    cells, topo = mc["cells"], mc["multi"]
    outs = [{"steps": []} for _ in range(2 if topo == "shared-post" else 1)]
    t = -1
    try:
        with torch.no_grad():
            c0 = cells[0]
            dt, B = c0["params"]["dt"], c0["B"]
            if topo == "shared-post":
                conns = [build_conn(c)[0] for c in cells]
                outshape = (c0["geom"]["nout"],)
                neurons = [ExactNeuron(outshape, dt, rest_v=-60.0, thresh_v=-45.0, batch_size=B)]
                layer = Biclique([("c0", conns[0]), ("c1", conns[1])], [("n0", neurons[0])])
                pairs = [("c0", "n0"), ("c1", "n0")]
            else:
                conns = [build_conn(c0)[0]]
                outshape = (c0["geom"]["nout"],)
                neurons = [ExactNeuron(outshape, dt, rest_v=-60.0, thresh_v=-45.0, batch_size=B) for _ in range(2)]
                layer = Biclique([("c0", conns[0])], [("n0", neurons[0]), ("n1", neurons[1])])
                pairs = [("c0", "n0"), ("c0", "n1")]
            tr = TRAINERS[c0["variant"].split("-")[0]](**trainer_kwargs(c0, mc["defaults"]))
            for i, (cn, nn) in enumerate(pairs):
                kw = trainer_kwargs(cells[i])
                kw.pop("batch_reduction")
                tr.register_cell(f"cell{i}", layer.get_cell(cn, nn), **kw)
            for o, c in zip(outs, conns):
                o["w0"] = flat(c.weight)
            for t in range(c0["T"]):
                if topo == "shared-post":
                    inputs = {f"c{i}": (bits_tensor(cells[i]["pre"][t], tuple(conns[i].inshape)),) for i in range(2)}
                    nkw = {"n0": {"override": bits_tensor(c0["post"][t], outshape).bool()}}
                else:
                    inputs = {"c0": (bits_tensor(c0["pre"][t], tuple(conns[0].inshape)),)}
                    nkw = {f"n{i}": {"override": bits_tensor(cells[i]["post"][t], outshape).bool()} for i in range(2)}
                layer(inputs, neuron_kwargs=nkw)
                call_trainer(tr, c0["signal"], t)
                for o, c in zip(outs, conns):
                    acc = c.updater.weight
                    pos, neg = flat(acc.pos), flat(acc.neg)
                    w = None
                    if updates_at(c0, t):
                        c.update()
                        w = flat(c.weight)
                    o["steps"].append((pos, neg, w))
    except Exception as e:
        for o in outs:
            o["exc"] = f"{type(e).__name__}: {e}"
            o["step"] = t
    return outs


# --------------------------------------------------------------------------------------------------
# per-weight receptive fields, computed independently of the connection's reshaping helpers
def weight_fields(case):
    """list over weights: list over field elements of (flat input index, flat output index)"""
    conn, g = case["conn"], case["geom"]
    if conn == "dense":
        return [[(i, o)] for o in range(g["nout"]) for i in range(g["nin"])]
    if conn == "direct":
        return [[(i, i)] for i in range(g["n"])]
    if conn == "lateral":
        return [[(i, o)] for o in range(g["n"]) for i in range(g["n"])]
    H, W, C, F, K, s = (g[k] for k in ("H", "W", "C", "F", "K", "stride"))
    OH, OW = (H - K) // s + 1, (W - K) // s + 1
    out = []
    for f, c, kh, kw in itertools.product(range(F), range(C), range(K), range(K)):
        out.append([(c * H * W + (oh * s + kh) * W + (ow * s + kw), f * OH * OW + oh * OW + ow)
                    for oh in range(OH) for ow in range(OW)])
    return out


def trains(case):
    """pre[b][i], post[b][o] as bit strings over time"""
    T, B = case["T"], case["B"]
    nin, nout, _ = geom_sizes(case["conn"], case["geom"])
    pre = [["".join(case["pre"][t][b][i] for t in range(T)) for i in range(nin)] for b in range(B)]
    post = [["".join(case["post"][t][b][o] for t in range(T)) for o in range(nout)] for b in range(B)]
    return pre, post


def tf(b):
    return "T" if b else "F"


def episode_slice(case, a, b):
    """the steps a..b-1 of a case as a stand-alone case (an EPISODE starts from cleared trainer state)"""
    c = dict(case)
    c.update({"T": b - a, "pre": case["pre"][a:b], "post": case["post"][a:b], "clear_at": None})
    if case["signal"] is not None:
        c["signal"] = dict(case["signal"], v=case["signal"]["v"][a:b])
    return c


def request_lines(case):
    """driver requests of a case: one per weight — per episode when the run is cleared at `clear_at`
    (first all weights of episode 1, then all weights of episode 2); and the per-weight train strings"""
    t0 = case.get("clear_at")
    if case.get("redelay"):
        return request_lines_redelay(case)
    if t0 is None:
        return request_lines1(case)
    l1, _ = request_lines1(episode_slice(case, 0, t0))
    l2, _ = request_lines1(episode_slice(case, t0, case["T"]))
    return l1 + l2, request_lines1(case)[1]


def is_delayed(case):
    return case["delaymode"] == "delayed" and case["D"] > 0


def plain(case, **over):
    c = dict(case, **over)
    c.pop("redelay", None)
    return c


def request_lines_redelay(case):
    """Delays re-assigned mid-run.  The property shifts presynaptic spike times by THE SYNAPSE'S delay, i.e. the one in force
    at the step in question.
    'delayed' trainer mode (raw presynaptic history kept, looked up through the current delays): the contribution of step
    t is that of step t of the constant-delay history with the delay d(t) — one request per stretch of constant delays
    (history up to the stretch's end), of which `expected_tables` keeps the stretch's own steps.
    delay-frozen mode (the trainer records what the synapse hands on): the synapse hands on pre(t - d(t)) at step t (C06);
    the pair sum is that of this arriving train — one request per weight with its own arriving train and delay 0."""
    raw = request_lines1(plain(case))[1]
    if is_delayed(case):
        lines = []
        for a, b, dl in delay_segments(case):
            lines += request_lines1(episode_slice(plain(case, delays=dl), 0, b))[0]
        return lines, raw
    T, B = case["T"], case["B"]
    pre, _ = trains(case)
    dmat = [[0] * T for _ in case["delays"]]
    for a, b, dl in delay_segments(case):
        for w, d in enumerate(dl):
            for t in range(a, b):
                dmat[w][t] = d
    arriving = [[["".join(x[t - dw[t]] if t - dw[t] >= 0 else "0" for t in range(T)) for x in pre[b]] for b in range(B)] for dw in dmat]
    return request_lines1(plain(case, delays=[0] * len(dmat)), pre_by_weight=arriving)[0], raw


def request_lines1(case, pre_by_weight=None):
    """one driver request per weight; also the per-weight train strings (for reports)"""
    p, T, B = case["params"], case["T"], case["B"]
    pre, post = trains(case)
    fields = weight_fields(case)
    kind = case["variant"].split("-")[0]
    delayed = case["delaymode"] == "delayed" and case["D"] > 0
    sig = case["signal"]
    if sig is None:
        sg = "-"
    elif sig["mode"] == "scalar":
        sg = f"s:{hx(sig['scale'])}:" + ",".join(hx(v) for v in sig["v"])
    else:
        sg = f"t:{hx(sig['scale'])}:" + "/".join(",".join(hx(v) for v in row) for row in sig["v"])
    if kind == "triplet":
        head = ["triplet"] + [hx(p[k]) for k in ("aPost", "bPost", "aPre", "bPre", "tcPostFast", "tcPostSlow", "tcPreFast", "tcPreSlow", "dt")]
    else:
        head = [kind] + [hx(p[k]) for k in ("lrPost", "lrPre", "tcPost", "tcPre", "dt")]
    head += [tf(p["nearest"]), tf(delayed), str(case["D"]), case["red"]]
    lines, tstr = [], []
    for w, fld in enumerate(fields):
        if pre_by_weight is not None:
            pre = pre_by_weight[w]
        tr = ";".join(",".join(f"{pre[b][i]}:{post[b][o]}" for i, o in fld) for b in range(B))
        tstr.append(tr)
        tail = [str(case["delays"][w]), str(T), tr]
        if kind == "triplet":
            lines.append(" ".join(head + tail))
        elif kind == "mstdpet":
            lines.append(" ".join(head + tail + [sg, hx(p["tcz"])]))
        else:
            lines.append(" ".join(head + tail + [sg]))
    return lines, tstr


def parse_stream(s, T):
    """'p,n;p,n;…' → (pos[T], neg[T]) float arrays with nan for None... None is kept apart as a mask"""
    pos, neg = np.zeros(T), np.zeros(T)
    pm, nm = np.zeros(T, bool), np.zeros(T, bool)
    for t, item in enumerate(s.split(";")):
        a, b = item.split(",")
        if a != "N":
            pos[t], pm[t] = unhx(a), True
        if b != "N":
            neg[t], nm[t] = unhx(b), True
    return pos, pm, neg, nm


def close(a, b):
    return np.abs(a - b) <= TOL * np.maximum(1.0, np.maximum(np.abs(a), np.abs(b)))


def expected_tables(case, resp):
    """from the driver's responses: per stream ('M','S') arrays [nw, T] of per-step pos/neg (+ masks);
    the two episodes of a cleared run are concatenated in time"""
    t0 = case.get("clear_at")
    if case.get("redelay"):
        if not is_delayed(case):
            return expected_tables(plain(case), resp)
        segs = delay_segments(case)
        nw = len(resp) // len(segs)
        parts = [expected_tables(episode_slice(plain(case, delays=dl), 0, b), resp[k * nw:(k + 1) * nw])
                 for k, (a, b, dl) in enumerate(segs)]
        return {name: [np.concatenate([pt[name][k][:, a:b] for pt, (a, b, _) in zip(parts, segs)], axis=1) for k in range(4)]
                for name in ("M", "S")}
    if t0 is not None:
        nw = len(resp) // 2
        a = expected_tables(episode_slice(case, 0, t0), resp[:nw])
        b = expected_tables(episode_slice(case, t0, case["T"]), resp[nw:])
        return {k: [np.concatenate([x, y], axis=1) for x, y in zip(a[k], b[k])] for k in a}
    T = case["T"]
    out = {}
    for name in ("M", "S"):
        out[name] = [np.zeros((len(resp), T)), np.zeros((len(resp), T), bool), np.zeros((len(resp), T)), np.zeros((len(resp), T), bool)]
    for w, r in enumerate(resp):
        if not r.startswith("M ") or " || S " not in r:
            raise RuntimeError(f"driver rejected a C08 request: {r!r}")
        m, s = r[2:].split(" || S ", 1)
        for name, txt in (("M", m), ("S", s)):
            a = parse_stream(txt.strip(), T)
            for k in range(4):
                out[name][k][w] = a[k]
    return out


def judge(case, real, tables):
    """→ list of (stream, weight index, step, what, expected, observed); first disagreement per stream"""
    T = case["T"]
    nw = tables["M"][0].shape[0]
    problems = []
    diag = None
    if case["conn"] == "lateral":
        n = case["geom"]["n"]
        diag = np.array([(i // n) == (i % n) for i in range(nw)])
    for name in ("S", "M"):
        pos, pm, neg, nm = tables[name]
        found = None
        cpos, cneg = np.zeros(nw), np.zeros(nw)
        cpm, cnm = np.zeros(nw, bool), np.zeros(nw, bool)
        wexp = real["w0"].copy() if "w0" in real else None
        for t in range(len(real["steps"])):
            rp, rn, rw = real["steps"][t]
            cpos, cneg = cpos + pos[:, t], cneg + neg[:, t]
            cpm, cnm = cpm | pm[:, t], cnm | nm[:, t]
            for label, exp, em, obs in (("pos", cpos, cpm, rp), ("neg", cneg, cnm, rn)):
                if obs is None:
                    if em.any():
                        w = int(np.argmax(em))
                        found = (name, w, t, f"accumulator {label} is None", float(exp[w]), None)
                        break
                    continue
                if obs.shape != exp.shape:
                    found = (name, 0, t, f"accumulator {label} has {obs.size} elements, the weight has {nw}", None, None)
                    break
                if not em.all():
                    w = int(np.argmin(em))
                    found = (name, w, t, f"accumulator {label} should be None", None, float(obs[w]))
                    break
                ok = close(exp, obs)
                if not ok.all():
                    w = int(np.argmin(ok))
                    found = (name, w, t, f"accumulator {label}", float(exp[w]), float(obs[w]))
                    break
            if found:
                break
            if rw is not None:          # Connection.update() applied and cleared the accumulators
                wexp = wexp + (cpos - cneg)
                if diag is not None:
                    wexp = np.where(diag, 0.0, wexp)
                if rw.shape != wexp.shape:
                    found = (name, 0, t, f"weight after update() has {rw.size} elements instead of {nw}", None, None)
                    break
                ok = close(wexp, rw)
                if not ok.all():
                    w = int(np.argmin(ok))
                    found = (name, w, t, "weight after update()", float(wexp[w]), float(rw[w]))
                    break
                cpos, cneg = np.zeros(nw), np.zeros(nw)
                cpm, cnm = np.zeros(nw, bool), np.zeros(nw, bool)
        if found:
            problems.append(found)
    return problems


def synapse_case(case, w, tstr):
    """the one weight's history as a stand-alone 1x1 dense case (receptive fields of one element only)"""
    fld = weight_fields(case)[w]
    if len(fld) != 1:
        return None
    T, B = case["T"], case["B"]
    per_b = [x.split(":") for x in tstr.split(";")]
    c = dict(case)
    c.update({"conn": "dense", "geom": {"nin": 1, "nout": 1}, "delays": [case["delays"][w]],
              "pre": [[per_b[b][0][t] for b in range(B)] for t in range(T)],
              "post": [[per_b[b][1][t] for b in range(B)] for t in range(T)]})
    if case.get("redelay"):
        c["redelay"] = [dict(e, delays=[e["delays"][w]]) for e in case["redelay"]]
    return c


def describe(case, w, tstr):
    return {"variant": case["variant"], "params": case["params"], "connection": case["conn"], "geometry": case["geom"],
            "delay_mode": case["delaymode"], "delay_steps_of_this_weight": case["delays"][w], "max_delay_steps": case["D"],
            "batch": case["B"], "reduction": case["red"], "update": case["update"], "signal": case["signal"],
            "weight_index": w, "history(pre:post per field element, ';' between batch samples)": tstr,
            "trainer_cleared_before_step": case.get("clear_at"), "clear_keepshape": case.get("clear_keep"),
            "delay_steps_of_this_weight_reassigned": [{"before_step": e["at"], "to": e["delays"][w], "via": e.get("via", "setter")}
                                                      for e in case.get("redelay") or []]}


class Runner:
    """collects cases, runs the real side at once per case and the driver once for all"""

    def __init__(self, ctx, ex):
        self.ctx, self.ex = ctx, ex
        self.cases = []
        self.multis = []
        self.sampled = set()

    def add(self, case, family):
        self.cases.append((case, family))
        if family not in self.sampled and case["conn"] != "dense" or (family not in self.sampled and case["geom"].get("nin", 9) <= 4):
            self.sampled.add(family)
            self.ex.samples.append({"family": family, **{k: case[k] for k in ("variant", "params", "conn", "geom", "B", "T", "delaymode",
                                                                               "delays", "red", "update", "pre", "post", "signal")},
                                    **({"redelay": case["redelay"]} if case.get("redelay") else {})})

    def add_multi(self, mc, family):
        self.multis.append((mc, family))
        if family not in self.sampled:
            self.sampled.add(family)
            self.ex.samples.append({"family": family, **mc})

    def flush_multi(self):
        """two cells under one trainer: every cell must show ITS OWN pair sum"""
        ctx, ex = self.ctx, self.ex
        all_lines, plan = [], []
        for mc, family in self.multis:
            spans, tstrs = [], []
            for c in mc["cells"]:
                lines, tstr = request_lines(c)
                spans.append((len(all_lines), len(all_lines) + len(lines)))
                all_lines += lines
                tstrs.append(tstr)
            plan.append((mc, family, run_real_multi(mc), spans, tstrs))
        resp = ctx.run_driver(DRIVER, all_lines) if all_lines else []
        for mc, family, reals, spans, tstrs in plan:
            cells = mc["cells"]
            kind = cells[0]["variant"].split("-")[0]
            ex.traces_validated += 1
            ex.count("family", family)
            ex.count("multi_cell", f"{mc['multi']}:{cells[0]['variant']}")
            if "exc" in reals[0]:
                key = f"C08:raises:{kind}:multi-cell"
                if len([f for f in ex.findings if f.key == key]) < 2:
                    ex.findings.append(Finding("spec", key, f"{kind} trainer with two cells ({mc['multi']}) raised {reals[0]['exc']} at step {reals[0]['step']}",
                                               {"case": mc, "raised": reals[0]["exc"], "step": reals[0]["step"]}))
                continue
            tabs = [expected_tables(c, resp[a:b]) for c, (a, b) in zip(cells, spans)]
            if mc["multi"] == "shared-conn":    # one updater receives both cells' parts
                comb = {}
                for name in ("M", "S"):
                    x, y = tabs[0][name], tabs[1][name]
                    comb[name] = [x[0] + y[0], x[1] | y[1], x[2] + y[2], x[3] | y[3]]
                jobs = [(0, cells[0], reals[0], comb, tstrs[0])]
            else:
                jobs = [(i, cells[i], reals[i], tabs[i], tstrs[i]) for i in range(2)]
            for i, c, real, tab, tstr in jobs:
                ex.evaluations += len(tstr) * len(real["steps"])
                for w, sx in enumerate(tstr):
                    if any("1" in x.split(":")[0] and "1" in x.split(":")[1] for f in sx.split(";") for x in f.split(",")):
                        ex.nontriv(("multi", mc["multi"], i, tuple(sorted(c["params"].items())), tuple(sorted(cells[1 - i]["params"].items())), sx))
                for name, w, t, what, exp, obs in judge(c, real, tab):
                    kindf = "spec" if name == "S" else "model"
                    key = f"C08:{'multi-cell-pair-sum' if name == 'S' else 'model-multi-cell'}:{kind}"
                    if mc.get("probe"):
                        if name != "S":
                            continue
                        key = mc["probe"]
                    if len([f for f in ex.findings if f.key == key]) >= 3:
                        continue
                    which = "the connection shared by both cells" if mc["multi"] == "shared-conn" else f"cell {i}"
                    stream = "its own pair sum (S)" if name == "S" else "recurrence model (M)"
                    ex.findings.append(Finding(kindf, key, f"two cells under one {kind} trainer ({mc['multi']}), {which}: {what} after step {t}: real {obs} vs {stream} {exp} "
                                               f"[cell 0 overrides {cells[0]['params']} | cell 1 overrides {cells[1]['params']} | history {tstr[w]}]",
                                               {"case": mc, "cell": i, "weight_index": w, "history": tstr[w], "step": t, "expected": exp,
                                                "observed": obs, "stream": name}))
        self.multis = []

    def flush(self):
        ctx, ex = self.ctx, self.ex
        if self.multis:
            self.flush_multi()
        all_lines, spans, reals, tstrs = [], [], [], []
        for case, family in self.cases:
            lines, tstr = request_lines(case)
            spans.append((len(all_lines), len(all_lines) + len(lines)))
            all_lines += lines
            tstrs.append(tstr)
            reals.append(run_real(case))
        resp = ctx.run_driver(DRIVER, all_lines) if all_lines else []
        for (case, family), (a, b), real, tstr in zip(self.cases, spans, reals, tstrs):
            self.judge_case(case, family, real, resp[a:b], tstr)
        self.cases = []

    def judge_case(self, case, family, real, resp, tstr, record=True):
        ex = self.ex
        kind = case["variant"].split("-")[0]
        nw = len(tstr)
        if record:
            ex.traces_validated += 1
            ex.evaluations += nw * len(real["steps"])
            ex.count("family", family)
            ex.count("variant", case["variant"])
            ex.count("connection", case["conn"])
            ex.count("delay_mode", case["delaymode"])
            ex.count("trace_mode", "nearest" if case["params"]["nearest"] else "cumulative")
            ex.count("reduction", case["red"])
            ex.count("batch", str(case["B"]))
            ex.count("update", case["update"])
            p = case["params"]
            a, b = (p["aPost"], p["aPre"]) if kind == "triplet" else (p["lrPost"], p["lrPre"])
            ex.count("sign_mode", {(True, False): "hebbian", (False, True): "anti-hebbian", (True, True): "potentiative",
                                   (False, False): "depressive"}[(a >= 0, b >= 0)])
            if case.get("clear_at") is not None:
                ex.count("episodes", "clear(keepshape=True)" if case.get("clear_keep") else "clear()")
            cfgkey = (case["variant"], tuple(sorted(p.items())), case["delaymode"], case["red"], case["B"], repr(case["signal"]),
                      case.get("clear_at"), case.get("clear_keep"))
            for e in case.get("redelay") or []:
                ex.count("delays_reassigned_via", e.get("via", "setter"))
            if case.get("redelay"):
                ex.count("delays_reassigned_in_mode", f"{kind}:{case['delaymode']}")
            for w, s in enumerate(tstr):
                pre_any = any("1" in x.split(":")[0] for f in s.split(";") for x in f.split(","))
                post_any = any("1" in x.split(":")[1] for f in s.split(";") for x in f.split(","))
                if pre_any and post_any:
                    ex.nontriv((cfgkey, case["delays"][w], s, tuple((e["at"], e["delays"][w]) for e in case.get("redelay") or [])))
        if "exc" in real:
            key = f"C08:raises:{kind}:{case['delaymode']}"
            if len([f for f in ex.findings if f.key == key]) < 2:
                small = self.smallest_raising(case)
                ex.findings.append(Finding("spec", key, f"{kind} trainer raised {real['exc']} at step {real['step']} instead of producing a weight change",
                                           {"case": small, "raised": real["exc"], "step": real["step"]}))
            return ["exc"]
        tables = expected_tables(case, resp)
        problems = judge(case, real, tables)
        for name, w, t, what, exp, obs in problems:
            kindf = "spec" if name == "S" else "model"
            key = f"C08:{'pair-sum' if name == 'S' else 'model'}:{kind}"
            if len([f for f in ex.findings if f.key == key]) >= 3:
                continue
            small = synapse_case(case, w, tstr[w])
            rep = case
            if small is not None and small != case:
                r2 = run_real(small)
                l2, t2 = request_lines(small)
                if "exc" not in r2:
                    p2 = judge(small, r2, expected_tables(small, self.ctx.run_driver(DRIVER, l2)))
                    if any(q[0] == name for q in p2):
                        rep = small
            info = describe(case, w, tstr[w])
            stream = "explicit sum over spike pairs (S)" if name == "S" else "recurrence model (M)"
            ex.findings.append(Finding(kindf, key, f"{what} after step {t}: real {obs} vs {stream} {exp} "
                                       f"[{case['variant']} {case['conn']} delay={case['delaymode']} k={case['delays'][w]} history {tstr[w]}" +
                                       "".join(f"; delay re-assigned to k={e['delays'][w]} before step {e['at']} via {e.get('via', 'setter')}"
                                               for e in case.get("redelay") or []) +
                                       (f"; trainer.clear({'keepshape=True' if case.get('clear_keep') else ''}) before step {case['clear_at']}]"
                                        if case.get("clear_at") is not None else "]"),
                                       {"case": rep, "weight": info, "step": t, "expected": exp, "observed": obs, "stream": name}))
        return problems

    def smallest_raising(self, case):
        """try a 1x1 dense, 2-step, single-sample version of a raising case"""
        c = dict(case)
        c.update({"conn": "dense", "geom": {"nin": 1, "nout": 1}, "B": 1, "T": 2, "delays": [min(1, case["D"])],
                  "pre": [["1"], ["0"]], "post": [["0"], ["1"]]})
        if c["signal"] is not None:
            s = dict(c["signal"])
            s["v"] = [1.0, 1.0] if s["mode"] == "scalar" else [[1.0], [1.0]]
            c["signal"] = s
        if case.get("redelay"):
            c["redelay"] = [{"at": 1, "delays": [0 if c["delays"][0] else min(1, case["D"])], "via": case["redelay"][0].get("via", "setter")}]
        return c if "exc" in run_real(c) else case


# --------------------------------------------------------------------------------------------------
def combos(include_delayed_et=False):
    out = []
    for v, sg, near, dm in itertools.product(VARIANTS, range(4), (False, True), DELAYMODES):
        if v.startswith("mstdpet") and dm == "delayed":
            continue
        out.append((v, sg, near, dm))
    return out


def make_multicell(rng, variant, topo, near_pair, dm):
    """two dense cells under ONE trainer whose register_cell overrides differ in rates, time constants and trace mode"""
    T, B = rng.randint(5, 9), rng.choice([1, 2])
    red, update = rng.choice(["sum", "mean"]), rng.choice(["each", "end"])
    nout = rng.randint(1, 3)
    g0 = {"nin": rng.randint(1, 3), "nout": nout}
    g1 = g0 if topo == "shared-conn" else {"nin": rng.randint(1, 3), "nout": nout}
    c0 = make_case(rng, variant, SIGNS[rng.randrange(4)], near_pair[0], dm, "dense", g0, B, T, red, update)
    c1 = make_case(rng, variant, SIGNS[rng.randrange(4)], near_pair[1], dm, "dense", g1, B, T, red, update, D=c0["D"])
    for k in ("dt",):
        c1["params"][k] = c0["params"][k]
    c1["signal"] = c0["signal"]
    c1["delaymode"] = c0["delaymode"]
    if topo == "shared-post":
        c1["post"] = c0["post"]
    else:
        c1["pre"], c1["delays"], c1["D"] = c0["pre"], c0["delays"], c0["D"]
    if variant.startswith("mstdpet") and near_pair[0] != near_pair[1]:
        # MSTDPET.register_cell does not tag its trace monitors with the trace mode (finding C08:mstdpet:trace-mode-tag-missing,
        # exhibited by `probe_mstdpet_trace_tag`): keep that coincidence (equal amplitude AND time constant, different trace
        # mode) out of the random stream so that it keeps testing the pool with distinguishable monitors
        for k in ("tcPre", "tcPost"):
            c1["params"][k] = rng.choice([x for x in (2.0, 4.0, 5.0, 10.0, 20.0) if x != c0["params"][k]])
    defaults = make_params(rng, variant, SIGNS[rng.randrange(4)], rng.random() < 0.5)
    defaults["dt"] = c0["params"]["dt"]
    return {"multi": topo, "variant": variant, "cells": [c0, c1], "defaults": defaults}


def probe_mstdpet_trace_tag():
    """two cells of ONE MSTDPET trainer sharing a connection, equal rates and time constants, trace_mode 'nearest' vs
    'cumulative': each cell must still use its own trace mode"""
    T = 5
    base = {"variant": "mstdpet-s", "conn": "dense", "geom": {"nin": 1, "nout": 1}, "B": 1, "T": T, "delaymode": "none", "D": 0,
            "delays": [0], "red": "sum", "update": "end", "pre": [["1"], ["1"], ["0"], ["1"], ["0"]],
            "signal": {"mode": "scalar", "scale": 1.0, "v": [1.0] * T}}
    par = {"dt": 1.0, "lrPost": 0.5, "lrPre": -0.25, "tcPost": 10.0, "tcPre": 20.0, "tcz": 5.0}
    c0 = dict(base, params=dict(par, nearest=True), post=[["0"], ["0"], ["1"], ["0"], ["1"]])
    c1 = dict(base, params=dict(par, nearest=False), post=[["0"], ["1"], ["1"], ["0"], ["1"]])
    return {"multi": "shared-conn", "variant": "mstdpet-s", "cells": [c0, c1], "defaults": dict(par, nearest=False),
            "probe": "C08:mstdpet:trace-mode-tag-missing"}


def explore(ctx) -> Exploration:
    torch.set_default_dtype(torch.float64)
    ex = Exploration()
    rng = ctx.rng
    thorough = ctx.tier == "thorough"
    heavy = thorough or ctx.intensify
    transval.validate(ctx, SPEC["translate"], ex, per_fn=60 if not heavy else 200)
    if not defs_identical():
        ex.findings.append(Finding("model", "C08:defs-differ", "the DEFS blocks of Model/STDP.lean and Model/STDPF.lean differ",
                                   {"files": ["InfernoVerif/Model/STDP.lean", "InfernoVerif/Model/STDPF.lean"]}))
    R = Runner(ctx, ex)
    allc = combos()

    # (1) exhaustive: every pre/post history of a 1x1 cell (T steps: all shorter ones are its prefixes)
    T1 = 7 if thorough else 5
    order = list(range(len(allc)))
    rng.shuffle(order)
    hist = list(itertools.product(range(2 ** T1), repeat=2))
    for h, (i, j) in enumerate(hist):
        v, sg, near, dm = allc[order[h % len(order)]]
        pre = [[b] for b in format(i, f"0{T1}b")]
        post = [[b] for b in format(j, f"0{T1}b")]
        D = rng.choice([1, 2])
        case = make_case(rng, v, SIGNS[sg], near, dm, "dense", {"nin": 1, "nout": 1}, 1, T1, rng.choice(["sum", "mean"]),
                         "each" if h % 3 == 0 else "end", pre=pre, post=post, D=D,
                         delays=None if dm == "none" else [rng.randint(1, D)])
        R.add(case, f"exhaustive-1x1-T{T1}")
        if len(R.cases) >= 2048:
            R.flush()
    R.flush()
    ex.extra["exhaustive_1x1_histories"] = len(hist)

    # (2) exhaustive grid: a dense 2^T x 2^T layer whose synapse (i -> j) sees pre history i and post history j,
    #     for every (variant, sign mode, trace mode, delay mode)
    T2 = 5 if thorough else 4
    n2 = 2 ** T2
    grid = list(allc)
    rng.shuffle(grid)
    if not heavy:
        # quick: every (variant, trace mode, delay mode) twice, with two of the four sign modes
        seen, keep = {}, []
        for v, sg, near, dm in grid:
            if seen.get((v, near, dm), 0) < 2:
                seen[(v, near, dm)] = seen.get((v, near, dm), 0) + 1
                keep.append((v, sg, near, dm))
        grid = keep
    for v, sg, near, dm in grid:
        pre = [[("".join(format(i, f"0{T2}b")[t] for i in range(n2)))] for t in range(T2)]
        post = [[("".join(format(j, f"0{T2}b")[t] for j in range(n2)))] for t in range(T2)]
        case = make_case(rng, v, SIGNS[sg], near, dm, "dense", {"nin": n2, "nout": n2}, 1, T2, "sum",
                         rng.choice(["each", "end"]), pre=pre, post=post, D=2)
        R.add(case, f"exhaustive-grid-T{T2}")
        if ctx.time_left() < 120:
            break
    R.flush()
    ex.exhaustive = True

    # (3) random histories on larger populations: all connection kinds, batches, reductions, per-synapse delays
    nrand = 150 if heavy else 48
    for r in range(nrand):
        v, sg, near, dm = allc[rng.randrange(len(allc))]
        conn = rng.choice(["dense", "dense", "direct", "lateral", "conv"])
        if conn == "dense":
            geom = {"nin": rng.randint(1, 4), "nout": rng.randint(1, 4)}
        elif conn == "conv":
            geom = {"H": rng.randint(2, 4), "W": rng.randint(2, 4), "C": rng.randint(1, 2), "F": rng.randint(1, 2),
                    "K": rng.choice([1, 2]), "stride": rng.choice([1, 1, 2])}
        else:
            geom = {"n": rng.randint(2, 4)}
        B = rng.choice([1, 2, 3, 4])
        T = rng.randint(4, 9)
        case = make_case(rng, v, SIGNS[sg], near, dm, conn, geom, B, T, rng.choice(["sum", "mean"]), rng.choice(["each", "end"]))
        R.add(case, "random-population")
    R.flush()

    # (4) EPISODES: train, update, trainer.clear(keepshape=True | False) + synapse.clear(), train again — the second
    #     episode must show the pair sum of its own spikes only (reducers with history: triplet slow traces, delayed modes)
    nep = 120 if heavy else 40
    for r in range(nep):
        v = rng.choice(["triplet", "triplet", "stdp", "mstdp-s", "mstdp-t", "mstdpet-s", "mstdpet-t"])
        dm = "delayed" if (v != "triplet" and not v.startswith("mstdpet") and rng.random() < 0.8) else rng.choice(DELAYMODES)
        one = r % 2 == 0
        geom = {"nin": 1, "nout": 1} if one else {"nin": rng.randint(1, 3), "nout": rng.randint(1, 3)}
        T = rng.randint(6, 10)
        case = make_case(rng, v, SIGNS[rng.randrange(4)], rng.random() < 0.5, dm, "dense", geom, 1 if one else rng.choice([1, 2]), T,
                         rng.choice(["sum", "mean"]), rng.choice(["each", "end"]))
        case["clear_at"] = rng.randint(2, T - 3)
        case["clear_keep"] = r % 4 != 3
        if one:     # dense activity around the clear so that stale history would pair
            case["pre"] = [["1" if rng.random() < 0.7 else "0"] for _ in range(T)]
            case["post"] = [["1" if rng.random() < 0.7 else "0"] for _ in range(T)]
        R.add(case, "episodes")
    R.flush()

    # (5) MULTI-CELL trainers: two cells sharing a postsynaptic group (two connections into one group) or sharing a
    #     connection (one connection into two groups), registered with DIFFERENT per-cell overrides
    nmc = 90 if heavy else 30
    for r in range(nmc):
        v = ["stdp", "mstdp-s", "triplet", "mstdpet-s", "stdp", "mstdp-t"][r % 6]
        topo = "shared-post" if (r + r // 6) % 2 == 0 else "shared-conn"
        near_pair = [(False, True), (True, False), (False, False), (True, True)][(r // 2) % 4]
        R.add_multi(make_multicell(rng, v, topo, near_pair, rng.choice(DELAYMODES)), "multi-cell")
    R.add_multi(probe_mstdpet_trace_tag(), "multi-cell-probe")
    R.flush()

    # (6) DELAYS RE-ASSIGNED MID-RUN (what delay learning does): after the trainer has already stepped, the connection's
    #     delays are given new values through the `delay` setter, through the updater or in place; from then on every
    #     step's contribution must be the pair sum with the presynaptic times shifted by the NEW delays
    nrd = 150 if heavy else 54
    vias = ["setter", "updater", "setter", "inplace", "updater", "setter"]
    for r in range(nrd):
        v = ["stdp", "mstdp-s", "triplet", "stdp", "mstdp-t", "stdp", "mstdpet-s", "triplet", "mstdpet-t"][r % 9]
        dm = "frozen" if v.startswith("mstdpet") else ("delayed" if rng.random() < 0.8 else "frozen")
        one = r % 3 != 2
        if one:
            conn, geom, B = "dense", {"nin": 1, "nout": 1}, rng.choice([1, 1, 2])
        else:
            conn = rng.choice(["dense", "dense", "direct", "lateral", "conv"])
            if conn == "dense":
                geom = {"nin": rng.randint(1, 3), "nout": rng.randint(1, 3)}
            elif conn == "conv":
                geom = {"H": rng.randint(2, 3), "W": rng.randint(2, 3), "C": rng.randint(1, 2), "F": rng.randint(1, 2),
                        "K": rng.choice([1, 2]), "stride": 1}
            else:
                geom = {"n": rng.randint(2, 3)}
            B = rng.choice([1, 2, 3])
        T = rng.randint(7, 11)
        D = rng.choice([1, 2, 3])
        case = make_case(rng, v, SIGNS[rng.randrange(4)], rng.random() < 0.5, dm, conn, geom, B, T,
                         rng.choice(["sum", "mean"]), rng.choice(["each", "end"]), D=D)
        if one:     # dense activity so that old and new shifts give different pair sums
            case["pre"] = [["1" if rng.random() < 0.6 else "0" for _ in range(B)] for _ in range(T)]
            case["post"] = [["1" if rng.random() < 0.7 else "0" for _ in range(B)] for _ in range(T)]
        nw = len(case["delays"])
        ats = sorted(rng.sample(range(1, T - 2), rng.choice([1, 1, 2])))
        cur, events = case["delays"], []
        for k, at in enumerate(ats):
            new = [rng.choice([d for d in range(D + 1) if d != c]) if (w == 0 or rng.random() < 0.7) else c for w, c in enumerate(cur)]
            if conn == "lateral":
                n = geom["n"]
                new = [0 if (i // n) == (i % n) else d for i, d in enumerate(new)]
            events.append({"at": at, "delays": new, "via": vias[(r + k) % len(vias)]})
            cur = new
        case["redelay"] = events
        R.add(case, "delays-reassigned-mid-run")
    R.flush()

    ex.rule = ("(1) every pre/post spike history of a 1x1 dense cell of length T (quick 5, thorough 7; comparisons after every step cover all "
               "shorter histories), trainer variant / sign mode / trace mode / delay mode rotating over the histories; (2) a dense 2^T x 2^T "
               "layer in which synapse (i -> j) carries pre history i and post history j, once per configuration; (3) random histories on "
               "dense / direct / lateral / conv cells with batches 1-4, sum / mean reductions, per-synapse delays, scalar and per-sample "
               "signals, update() every step or at the end; (4) two-episode runs separated by update() + trainer.clear(keepshape=True|False) + "
               "synapse.clear(), the second episode judged against the pair sum of its own spikes; (5) one trainer with two cells sharing a "
               "postsynaptic group or a connection and different per-cell overrides, each cell judged against its own pair sum; (6) runs in which the connection's delays are re-assigned once or twice AFTER the trainer "
               "has stepped (through the `delay` setter, through the updater, or in place), every later step judged against the pair sum with "
               "the presynaptic times shifted by the delays then in force ('delayed' mode; in the delay-frozen mode against the pair sum of the "
               "train the synapse hands on).  One case = one weight's run; non-trivial = at least one pre and one post "
               "spike in its receptive field; distinct = distinct (configuration, delay, history)")
    return ex


def replay(ctx, data) -> int:
    torch.set_default_dtype(torch.float64)
    fi = data.get("failing_input")
    if not fi:
        print("no failing input recorded:", data.get("broken"))
        return 1
    case = fi["case"]
    if "multi" in case:
        ex = Exploration()
        R = Runner(ctx, ex)
        R.add_multi(case, "replay")
        R.flush()
        for f in ex.findings:
            print("DISAGREEMENT", f.kind, f.key, f.what)
        if not ex.findings:
            print("both cells show their own pair sums")
        return 1 if ex.findings else 0
    real = run_real(case)
    if "exc" in real:
        print(f"trainer raised at step {real['step']}: {real['exc']}")
        return 1
    lines, tstr = request_lines(case)
    resp = ctx.run_driver(DRIVER, lines)
    tables = expected_tables(case, resp)
    for t, (p, n, w) in enumerate(real["steps"]):
        print(f"step {t}: real pos {None if p is None else p.tolist()} neg {None if n is None else n.tolist()} weight {None if w is None else w.tolist()}")
    for name in ("M", "S"):
        pos, pm, neg, nm = tables[name]
        print(name, "per-step pos", [[float(x) if m else None for x, m in zip(r, mr)] for r, mr in zip(pos, pm)],
              "neg", [[float(x) if m else None for x, m in zip(r, mr)] for r, mr in zip(neg, nm)])
    problems = judge(case, real, tables)
    for pr in problems:
        print("DISAGREEMENT", pr)
    return 1 if problems else 0
