"""dev helper: copy the `-- BEGIN DEFS … -- END DEFS` block of Model/Interp.lean, Model/Dist.lean (Float) into the ℝ copies (markers at line start). `corr/c20.py` checks the blocks are identical on every run."""
import sys
D='/verif/lean/InfernoVerif/Model/'
def span(src):
    a = src.index('\n-- BEGIN DEFS\n')+1
    b = src.index('\n-- END DEFS\n')+1+len('-- END DEFS')
    return a,b
for f, r in (('Interp.lean','InterpR.lean'),('Dist.lean','DistR.lean')):
    F = open(D+f).read(); R = open(D+r).read()
    a,b = span(F); c,d = span(R)
    open(D+r,'w').write(R[:c] + F[a:b] + R[d:])
print('synced')
