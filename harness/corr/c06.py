"""C06 — a connection delay is a pure per-synapse time shift.

Relational search on the REAL code: a delayed connection is stepped next to an independently
stepped UNDELAYED twin (same class, same weights / bias, `delay=None`); the harness records the
twin's per-synapse contributions (`twin.synapse.current`, `.spike`) at every step and rebuilds what
the delayed connection must output by shifting each contribution `k[o,i] = delay[o,i]/dt` steps
into the past (zero before the start / last `clear()`), through the connection's documented map.
The same runs are compared, after every step, with `drivers/C06.lean`:
  (M) the code-shaped model (`Model/Delay.lean` on `Model/Synapse.lean`: rings, `selector`,
      `current_at`, `einsum`), and
  (S) the specification (undelayed map applied to contributions read from each element's full
      closed-form history, interpolated per the synapse's rule for off-grid delays).
Observables: `forward`'s return, `syncurrent`, `synspike`, record size.
Comparison: 1e-9 relative for dyadic dt (1, 1/2); dt = 1.3 is compared to 1e-6 relative and
reported as partial (float).  Spikes / shapes / error classes exactly.
"""
from __future__ import annotations

import math

import torch

from inferno.neural import (DeltaCurrent, DeltaPlusCurrent, SingleExponentialCurrent, DoubleExponentialCurrent,
                            LinearDense, LinearDirect, LinearLateral, Conv2D)

from runner import Exploration, Finding
import transval
from transval import hx, unhx

SPEC = {
    "prop": "C06",
    "lean_targets": ["InfernoVerif.Props.C06", "InfernoVerif.Props.C05GlueProg", "InfernoVerif.Model.Delay", "InfernoVerif.Drv.SynSpec", "InfernoVerif.Gen.Dispatch"],
    "prop_files": ["InfernoVerif/Props/C06.lean", "InfernoVerif/Props/C05GlueProg.lean"],
    "lemma_files": ["InfernoVerif/Lemmas/Delay.lean"],
    "model_files": ["InfernoVerif/Model/Delay.lean", "InfernoVerif/Model/Synapse.lean", "InfernoVerif/Model/Select.lean",
                    "InfernoVerif/Drv/SynSpec.lean", "InfernoVerif/Gen/InterpolationF.lean", "InfernoVerif/Gen/InterpolationR.lean"],
    "translate": ["Interpolation", "ConnProg"],
    "driver_targets": ["InfernoVerif.Model.Delay", "InfernoVerif.Drv.SynSpec", "InfernoVerif.Gen.Dispatch"],
    "assumptions": [
        "theorems are over exact reals with delays that are exact multiples of dt; dt = 1.3 (k*1.3 is not k steps exactly in binary) is "
        "exercised on the real code and compared to 1e-6 relative — partial (float)",
        "one batch row per model case (batch samples do not interact: C11); Conv2D's like_synaptic (F.unfold) is taken from the real "
        "connection and fed to the model as the N x L synapse input (C05 proves the window extraction)",
        "connection inputs are spike trains (0/1 float64), no injected currents through the connection",
        "re-assigning the supported maximum delay of a running connection: the property leaves open whether that resets the history or "
        "carries it over; either reading is accepted if the whole run follows it (the driver's model follows the reset, as the code does)",
        "delay tensors in [0, max]; a separate boundary stream puts single entries beyond max (expected: C04's out-of-range rule)",
        "CPU, float64",
    ],
}
DRIVER = "drivers/C06.lean"
SYN = {"delta": DeltaCurrent, "deltaplus": DeltaPlusCurrent, "singleexp": SingleExponentialCurrent,
       "doubleexp": DoubleExponentialCurrent}
CONNS = ["dense", "direct", "lateral", "conv"]
ERRS = {"RuntimeError", "ValueError", "TypeError", "AttributeError", "IndexError", "KeyError"}


# ---------------------------------------------------------------------------------------------
# real side

def syn_ctor(c):
    kw = dict(spike_charge=c["Q"], interp_tol=c["tol"], current_overbound=c["curOver"], spike_overbound=c["spkOver"],
              inplace=c["inplace"])
    mode = {"P": "previous", "N": "nearest"}[c["mode"]]
    if c["syn"] in ("delta", "deltaplus"):
        kw["interp_mode"] = mode
    else:
        kw["spike_interp_mode"] = mode
    if c["syn"] == "singleexp":
        kw["time_constant"] = c["tau"]
    if c["syn"] == "doubleexp":
        kw["tc_decay"] = c["tau"]
        kw["tc_rise"] = c["tauR"]
    return SYN[c["syn"]].partialconstructor(**kw)


def t64(v):
    return torch.tensor(v, dtype=torch.float64)


def build_conn(c, twin=False):
    """the delayed connection, or its undelayed twin (delay=None, same weights and bias)"""
    has = c["hasDelay"] and not twin
    maxd = c["ctor_maxdelay"] if has else None
    kw = dict(synapse=syn_ctor(c), bias=c["b"] is not None, delay=maxd, batch_size=c["batch"],
              weight_init=lambda x: t64(c["W"]).reshape(x.shape))
    if c["b"] is not None:
        kw["bias_init"] = lambda x: t64(c["b"]).reshape(x.shape)
    if has:
        kw["delay_init"] = lambda x: t64(c["D"]).reshape(x.shape)
    k = c["conn"]
    # the twin is built DIRECTLY with the final configuration; the delayed connection may be built with
    # another step time / maximum delay and reconfigured through the public setters afterwards
    dt0 = c["dt"] if twin else c.get("ctor_dt", c["dt"])
    if k == "dense":
        conn = LinearDense(tuple(c["inshape"]), tuple(c["outshape"]), dt0, **kw)
    elif k == "direct":
        conn = LinearDirect(tuple(c["inshape"]), dt0, **kw)
    elif k == "lateral":
        conn = LinearLateral(tuple(c["inshape"]), dt0, **kw)
    else:
        g = c["geom"]
        conn = Conv2D(g["H"], g["W"], g["C"], g["F"], dt0, tuple(g["kernel"]), stride=tuple(g["stride"]),
                      padding=tuple(g["padding"]), dilation=tuple(g["dilation"]), **kw)
    reconf = False
    if dt0 != c["dt"]:
        # the step time is ASSIGNED after construction (Connection.dt or Synapse.dt)
        if c.get("dt_via", "connection") == "connection":
            conn.dt = c["dt"]
        else:
            conn.synapse.dt = c["dt"]
        reconf = True
    if has and c["ctor_maxdelay"] != c["maxdelay"]:
        # the supported maximum is changed after construction, through the synapse's setter
        conn.synapse.delay = c["maxdelay"]
        reconf = True
    if reconf:
        conn.clear()
    return conn


def dims(c, conn):
    """(kind for the driver, d1, d2, d3, number of synapse elements, entries of the selector per element)"""
    k = c["conn"]
    if k in ("dense", "lateral"):
        N, M = conn.weight.shape
        return "dense", M, N, 0, M, N
    if k == "direct":
        N = conn.weight.shape[0]
        return "direct", N, 0, 0, N, 1
    F = conn.weight.shape[0]
    N, L = conn.synapse.shape
    return "conv", N, L, F, N * L, F


def run_real(c):
    """→ dict(per-step observables of the delayed connection and of the twin, stored parameters, dims)"""
    torch.set_default_dtype(torch.float64)
    conn, twin = build_conn(c), build_conn(c, twin=True)
    # second undelayed twin, wiped whenever the supported maximum delay is re-assigned mid-run (reading A of such a change)
    twinA = build_conn(c, twin=True) if any(st.get("setMax") is not None for st in c["steps"]) else None
    ck, d1, d2, d3, E, R = dims(c, conn)
    B = c["batch"]
    P = {"W": conn.weight.detach().reshape(conn.weight.shape[0], -1) if c["conn"] != "direct" else conn.weight.detach().reshape(1, -1),
         "D": None if conn.delay is None else (conn.delay.detach().reshape(conn.delay.shape[0], -1) if c["conn"] != "direct"
                                                else conn.delay.detach().reshape(1, -1)),
         "b": None if conn.bias is None else conn.bias.detach().reshape(-1)}
    steps = []
    recordsz0 = conn.synapse.spike_.recordsz
    with torch.no_grad():
        for st in c["steps"]:
            if st.get("clear"):
                conn.clear()
                twin.clear()
                if twinA is not None:
                    twinA.clear()
            x = t64(st["x"]).reshape(B, *conn.inshape)
            o = {"clear": bool(st.get("clear"))}
            if st.get("setMax") is not None:
                # the SUPPORTED MAXIMUM delay of the running connection is re-assigned through the synapse's public setter
                # (to make room for longer learned delays, or to shrink the record); nothing else is touched by the harness
                o["recordsz_before"] = conn.synapse.spike_.recordsz
                conn.synapse.delay = st["setMax"]
                twinA.clear()
                o["setMax"] = float(conn.delayedby)
                o["recordsz"] = conn.synapse.spike_.recordsz
            if st.get("setD") is not None:
                # the learned delays are RE-ASSIGNED through the public setter mid-run (what every delay-learning update does);
                # what the connection then reports is what the expectation and the driver use from this step on
                conn.delay = t64(st["setD"]).reshape(conn.delay.shape)
                o["setD"] = (conn.delay.detach().reshape(conn.delay.shape[0], -1) if c["conn"] != "direct"
                             else conn.delay.detach().reshape(1, -1)).tolist()
            o["syn_in"] = conn.like_synaptic(x).reshape(B, E).tolist()
            try:
                o["out"] = conn(x).reshape(B, -1).tolist()
            except Exception as e:
                o["out"] = "err " + (type(e).__name__ if type(e).__name__ in ERRS else "Other")
            twin(x)
            o["tcur"] = twin.synapse.current.reshape(B, E).tolist()
            o["tspk"] = twin.synapse.spike.reshape(B, E).tolist()
            if twinA is not None:
                twinA(x)
                o["tcurA"] = twinA.synapse.current.reshape(B, E).tolist()
                o["tspkA"] = twinA.synapse.spike.reshape(B, E).tolist()
            for name, get in (("syncur", lambda: conn.syncurrent), ("synspk", lambda: conn.synspike)):
                try:
                    v = get()
                    if v.ndim == twin.synapse.current.ndim:        # present view  B x elements
                        o[name] = ("present", v.reshape(B, E).tolist())
                    else:
                        o[name] = ("delayed", v.reshape(B, E, R).tolist())
                    if name == "synspk" and v.dtype != torch.bool:
                        o[name] = f"dtype {v.dtype}"
                except Exception as e:
                    o[name] = "err " + (type(e).__name__ if type(e).__name__ in ERRS else "Other")
            steps.append(o)
    return {"steps": steps, "P": P, "dims": (ck, d1, d2, d3, E, R), "recordsz": recordsz0,
            "delayedby": conn.delayedby}


# ---------------------------------------------------------------------------------------------
# expectation from the undelayed twin, shifted by the harness

def shifted_expectation(c, real, reading="A"):
    """per step: (out [B][O], syncur view, synspk view) rebuilt from the twin's history; None where a delay is off the grid.
    `reading` only matters when the supported maximum delay is re-assigned mid-run; the property leaves two readings of that:
    A = the re-assignment resets the synapse (what happened before is the resting state; twin wiped at that moment),
    B = the recorded history is carried over faithfully (as far back as the record held before the change, resting state
        beyond that; twin never wiped)."""
    ck, d1, d2, d3, E, R = real["dims"]
    B, dt = c["batch"], c["dt"]
    W, D, bias = real["P"]["W"], real["P"]["D"], real["P"]["b"]
    delayed = bool(real["delayedby"])
    if D is None or not delayed:
        Dm = torch.zeros_like(W)
    else:
        Dm = D
    def grid(Dm):
        Km = torch.round(Dm / dt)
        ok = bool(torch.all((Km * dt - Dm).abs() <= max(c["tol"], 1e-12)) and torch.all(Dm <= curmax[0]) and torch.all(Dm >= 0))
        return Km.long(), ok
    curmax = [c.get("maxdelay0", c["maxdelay"])]
    Km, ongrid = grid(Dm)
    last = Dm
    for o in real["steps"]:
        if o.get("setMax") is not None:
            curmax[0] = o["setMax"]
            ongrid = ongrid and curmax[0] > 0
        if o.get("setD") is not None and delayed:
            last = t64(o["setD"])
        if o.get("setMax") is not None or o.get("setD") is not None:
            ongrid = ongrid and grid(last)[1]
    if not ongrid:
        return None
    curmax[0] = c.get("maxdelay0", c["maxdelay"])
    exp = []
    hist_c, hist_s = [], []
    start = 0                       # first step whose observations are not the resting state
    kc, ks = ("tcurA", "tspkA") if reading == "A" and "tcurA" in real["steps"][0] else ("tcur", "tspk")
    for o in real["steps"]:
        if o.get("setMax") is not None:
            start = len(hist_c) if reading == "A" else max(start, len(hist_c) - o["recordsz_before"])
            curmax[0] = o["setMax"]
        if o.get("setD") is not None and delayed:
            Km = grid(t64(o["setD"]))[0]
        if o["clear"]:
            start = len(hist_c)
        hist_c.append(t64(o[kc]))
        hist_s.append(torch.tensor(o[ks]))
        t = len(hist_c) - 1

        def past(e, k, spikes=False):
            h = hist_s if spikes else hist_c
            if t - k < start:
                return torch.zeros(B, dtype=torch.bool if spikes else torch.float64)
            return h[t - k][:, e]

        if ck == "dense":
            out = torch.zeros(B, d2)
            for oo in range(d2):
                for i in range(d1):
                    out[:, oo] += W[oo, i] * past(i, int(Km[oo, i]))
                if bias is not None:
                    out[:, oo] += bias[oo]
            sel_k = [[int(Km[oo, i]) for oo in range(d2)] for i in range(d1)]
        elif ck == "direct":
            out = torch.zeros(B, d1)
            for n in range(d1):
                out[:, n] = W[0, n] * past(n, int(Km[0, n]))
                if bias is not None:
                    out[:, n] += bias[n]
            sel_k = [[int(Km[0, n])] for n in range(d1)]
        else:
            out = torch.zeros(B, d3, d2)
            for f in range(d3):
                for l in range(d2):
                    for n in range(d1):
                        out[:, f, l] += W[f, n] * past(n * d2 + l, int(Km[f, n]))
                    if bias is not None:
                        out[:, f, l] += bias[f]
            out = out.reshape(B, -1)
            sel_k = [[int(Km[f, e // d2]) for f in range(d3)] for e in range(E)]
        if delayed:
            vc = ("delayed", torch.stack([torch.stack([past(e, sel_k[e][r]) for r in range(R)], -1) for e in range(E)], 1).tolist())
            vs = ("delayed", torch.stack([torch.stack([past(e, sel_k[e][r], True) for r in range(R)], -1) for e in range(E)], 1).tolist())
        else:
            vc = ("present", hist_c[-1].tolist())
            vs = ("present", hist_s[-1].tolist())
        exp.append({"out": out.tolist(), "syncur": vc, "synspk": vs})
    return exp


# ---------------------------------------------------------------------------------------------
# driver side

def optf(v):
    return "N" if v is None else hx(v)


def optb(v):
    return "N" if v is None else ("T" if v else "F")


def vec(v):
    return ",".join(hx(float(x)) for x in v) if len(v) else "-"


def mat(m):
    return "|".join(vec(r) for r in m)


def row_lines(c, real, b):
    ck, d1, d2, d3, E, R = real["dims"]
    P = real["P"]

    def header(maxdelay, D):
        return [" ".join(["begin", c["syn"], hx(c["dt"]), hx(maxdelay if c["hasDelay"] else 0.0), hx(c["Q"]), hx(c["tau"]), hx(c["tauR"]),
                          c["mode"], hx(c["tol"]), optf(c["curOver"]), optb(c["spkOver"]), "T" if c["inplace"] else "F",
                          "T" if c["hasDelay"] else "F", ck, str(d1), str(d2), str(d3)]),
                "W " + mat(P["W"].tolist()),
                "D " + ("N" if D is None else mat(D)),
                "b " + ("N" if P["b"] is None else vec(P["b"].tolist()))]
    D = None if P["D"] is None else P["D"].tolist()
    lines = header(c.get("maxdelay0", c["maxdelay"]), D)
    for o in real["steps"]:
        if o["clear"]:
            lines.append("clear")
        if o.get("setD") is not None:
            D = o["setD"]
        if o.get("setMax") is not None:
            # reading A of a re-assigned maximum (what the code documents: the setter wipes the synapse): from here on the
            # connection is a freshly built one with the new maximum and the delays in force
            lines += header(o["setMax"], D)
        elif o.get("setD") is not None:
            lines.append("D " + mat(o["setD"]))
        lines.append("step " + vec(o["syn_in"][b]))
        lines.append("syncur")
        lines.append("synspk")
    return lines


def pf(tok):
    return unhx(tok) if len(tok) == 16 and all(ch in "0123456789abcdef" for ch in tok) else tok


def pvec(tok, boolean=False):
    if tok == "-":
        return []
    if boolean:
        return [{"T": True, "F": False}.get(x, x) for x in tok.split(",")]
    return [pf(x) for x in tok.split(",")]


def pview(toks, boolean=False):
    if toks[0] in ("ValueError", "noSlot"):
        return "err " + toks[0]
    if toks[0] == "present":
        return ("present", pvec(toks[1], boolean))
    return ("delayed", [pvec(r, boolean) for r in toks[1].split("|")])


def split(resp):
    m, s = resp[2:].split(" || S ", 1)
    return m.split(), s.split()


def approx(a, b, tol):
    if a == b:
        return True
    if isinstance(a, (bool, str)) or isinstance(b, (bool, str)):
        return False
    if math.isnan(a) and math.isnan(b):
        return True
    if math.isinf(a) or math.isinf(b):
        return False
    return abs(a - b) <= tol * max(1.0, abs(a), abs(b))


def same(x, y, tol):
    """deep comparison of nested lists / tuples / scalars"""
    if isinstance(x, (list, tuple)) and isinstance(y, (list, tuple)):
        return len(x) == len(y) and all(same(p, q, tol) for p, q in zip(x, y))
    if isinstance(x, (list, tuple)) or isinstance(y, (list, tuple)):
        return False
    return approx(x, y, tol)


def first_diff(x, y, tol, path=()):
    if isinstance(x, (list, tuple)) and isinstance(y, (list, tuple)) and len(x) == len(y):
        for i, (p, q) in enumerate(zip(x, y)):
            d = first_diff(p, q, tol, path + (i,))
            if d:
                return d
        return None
    if isinstance(x, (list, tuple)) or isinstance(y, (list, tuple)):
        return (path, x if not isinstance(x, (list, tuple)) else f"<{len(x)} entries>", y if not isinstance(y, (list, tuple)) else f"<{len(y)} entries>")
    return None if approx(x, y, tol) else (path, x, y)


def row_view(v, b):
    """batch row b of a real / expected view"""
    if isinstance(v, str):
        return v
    return (v[0], v[1][b])


def row_diff(c, real, r, b, tol):
    """first disagreement of batch row b with the driver (specification first, then model)"""
    i = 4
    for t, o in enumerate(real["steps"]):
        if o["clear"]:
            i += 1
        if o.get("setMax") is not None:
            msz = int(r[i].split()[1])
            i += 4
            if msz != o["recordsz"]:
                return ("model", t, "recordsz", (b,), msz, o["recordsz"])
        elif o.get("setD") is not None:
            i += 1
        for name, boolean in (("out", False), ("syncur", False), ("synspk", True)):
            m, s = split(r[i])
            i += 1
            for which, toks in (("spec", s), ("model", m)):
                if name == "out":
                    want = "err " + toks[0] if toks[0] in ("ValueError", "noSlot") else pvec(toks[0])
                    got = o["out"] if isinstance(o["out"], str) else o["out"][b]
                else:
                    want = pview(toks, boolean)
                    got = row_view(o[name], b)
                d = first_diff(want, got, tol)
                if d:
                    return (which, t, name, (b,) + d[0], d[1], d[2])
    return None


def judge(c, real, exp, resps):
    """→ list of (kind, step, observable, where, expected, observed), spec first"""
    tol = c["cmp_tol"]
    out = []
    B = c["batch"]
    # record size (model only)
    msz = int(resps[0][0].split()[1])
    if bool(real["delayedby"]) and msz != real["recordsz"]:
        out.append(("model", 0, "recordsz", (), msz, real["recordsz"]))
    # relational: real delayed connection vs shifted twin
    has_max = any(o.get("setMax") is not None for o in real["steps"])

    def twin_diff(e, label):
        for t, (o, ee) in enumerate(zip(real["steps"], e)):
            for name in ("out", "syncur", "synspk"):
                d = first_diff(ee[name], o[name], tol)
                if d:
                    return ("spec", t, name + label, d[0], d[1], d[2])
        return None
    if exp is not None:
        if not has_max:
            d = twin_diff(exp, " (vs shifted undelayed twin)")
            if d:
                out.append(d)
        else:
            # the supported maximum was re-assigned mid-run: the run must agree, from the first step to the last, with ONE of
            # the two readings (reset at the change / history carried over faithfully); reported at the step where the
            # second of them has failed too
            dA = twin_diff(exp, " (vs shifted undelayed twin; neither with the history reset at the re-assigned maximum [shown] nor carried over)")
            real["reading"] = "reset"
            if dA:
                dB = twin_diff(shifted_expectation(c, real, "B"),
                               " (vs shifted undelayed twin; neither with the history carried over the re-assigned maximum [shown] nor reset)")
                if dB is None:
                    real["reading"] = "carried over"
                else:
                    real["reading"] = "neither"
                    out.append(dA if dA[1] >= dB[1] else dB)
    # driver: S then M
    for b in range(B):
        d = row_diff(c, real, resps[b], b, tol)
        if d:
            if has_max and exp is not None and d[0] == "spec":
                # the driver's segments follow the reset reading only; whether a run with a re-assigned maximum violates the
                # property is decided by the two-reading twin oracle above (a faithful carry-over is not a violation, only a
                # change of what the code does: tie)
                d = ("model",) + tuple(d[1:])
            out.append(d)
    out.sort(key=lambda d: (d[0] != "spec", d[1]))
    return out


def check_case(ctx, c):
    real = run_real(c)
    exp = shifted_expectation(c, real)
    lines, spans = [], []
    for b in range(c["batch"]):
        a = len(lines)
        lines += row_lines(c, real, b)
        spans.append((a, len(lines)))
    resp = ctx.run_driver(DRIVER, lines)
    if any(x == "bad-op" for x in resp):
        raise RuntimeError("driver rejected a line")
    return judge(c, real, exp, [resp[a:b] for a, b in spans])


# ---------------------------------------------------------------------------------------------
# generators

def dyw(rng):
    return rng.randint(-8, 8) / 4


def make_case(rng, conn, syn, dt, K, kind, T, batch=None, over_none=False, tol=0.0, setter=False, clear=None, inplace=None,
              reassign=None):
    """kind ∈ none | zero | homogeneous | heterogeneous | offgrid | subgrid | beyond;
    subgrid: every delay is shorter than one step (0, 1/4, 1/2, 3/4 of dt) and at least one is non-zero;
    reassign = step index at which new (on-grid) delays are assigned through the `delay` setter"""
    c = {"conn": conn, "syn": syn, "dt": dt, "Q": rng.choice([1.0, 2.0, -1.5, 0.5]), "tau": rng.choice([2.0, 4.0, 5.0, 10.0]),
         "mode": rng.choice("PN"), "tol": tol, "curOver": None if over_none else rng.choice([0.0, 0.0, -3.0]),
         "spkOver": None if over_none else False, "inplace": rng.random() < 0.5 if inplace is None else inplace,
         "batch": batch or rng.choice([1, 2]), "delaykind": kind}
    c["tauR"] = c["tau"] / rng.choice([2.0, 4.0])
    c["hasDelay"] = kind != "none"
    maxk = K if kind not in ("offgrid",) or K == 0 else K - rng.choice([0, 0.5])
    c["maxdelay"] = float(maxk * dt) if c["hasDelay"] else 0.0
    c["ctor_maxdelay"] = c["maxdelay"]
    if setter and c["hasDelay"]:
        c["ctor_maxdelay"] = float(rng.choice([0.0, 1.0, 2.0, 5.0, maxk + 1]) * dt)
    c["cmp_tol"] = 1e-9 if float(dt * 64).is_integer() else 1e-6       # dyadic step times are exact
    # geometry
    if conn == "dense":
        c["inshape"] = rng.choice([[2], [3], [2, 2]])
        c["outshape"] = rng.choice([[2], [3], [1], [2, 2]])
        M, N = math.prod(c["inshape"]), math.prod(c["outshape"])
        wshape, bsz = (N, M), N
    elif conn in ("direct", "lateral"):
        c["inshape"] = rng.choice([[2], [3], [2, 2]])
        N = math.prod(c["inshape"])
        wshape, bsz = ((N,), N) if conn == "direct" else ((N, N), N)
    else:
        g = {"H": rng.choice([3, 4]), "W": rng.choice([3, 4]), "C": rng.choice([1, 2]), "F": rng.choice([1, 2]),
             "kernel": rng.choice([[2, 2], [1, 2], [3, 2]]), "stride": rng.choice([[1, 1], [2, 1]]),
             "padding": rng.choice([[0, 0], [1, 0]]), "dilation": [1, 1]}
        c["geom"] = g
        c["inshape"] = [g["C"], g["H"], g["W"]]
        wshape, bsz = (g["F"], g["C"], *g["kernel"]), g["F"]
    nW = math.prod(wshape)
    c["W"] = [dyw(rng) for _ in range(nW)]
    c["b"] = [dyw(rng) for _ in range(bsz)] if rng.random() < 0.5 else None
    kmax = int(math.floor(maxk))
    if kind in ("none",):
        c["D"] = None
    elif kind == "zero":
        c["D"] = [0.0] * nW
    elif kind == "homogeneous":
        k = rng.randint(0, kmax)
        c["D"] = [float(k * dt)] * nW
    elif kind == "heterogeneous":
        c["D"] = [float(rng.randint(0, kmax) * dt) for _ in range(nW)]
    elif kind == "offgrid":
        c["D"] = [min(float((rng.randint(0, kmax) + rng.choice([0, 0.25, 0.5, 0.75])) * dt), c["maxdelay"]) for _ in range(nW)]
    elif kind == "subgrid":
        c["D"] = [float(rng.choice([0, 0.25, 0.5, 0.75]) * dt) for _ in range(nW)]
        if not any(c["D"]):
            c["D"][rng.randrange(nW)] = 0.5 * dt
    elif kind == "beyond":
        c["D"] = [float(rng.randint(0, kmax) * dt) for _ in range(nW)]
        for j in rng.sample(range(nW), max(1, nW // 3)):
            c["D"][j] = c["maxdelay"] + rng.choice([dt, dt / 2, 2 * dt])
    p = rng.choice([0.3, 0.5, 0.7])
    n_in = c["batch"] * math.prod(c["inshape"])
    c["steps"] = [{"x": [1.0 if rng.random() < p else 0.0 for _ in range(n_in)]} for _ in range(T)]
    if clear is not None and clear < T:
        c["steps"][clear]["clear"] = True
    if reassign is not None and c["hasDelay"] and reassign < T:
        c["steps"][reassign]["setD"] = [float(rng.randint(0, kmax) * dt) for _ in range(nW)]
        c["delaykind"] = kind + "+reassigned"
    return c


def reconf_cases(rng, T, reps=1):
    """the connection is constructed with one (dt, max delay) and RECONFIGURED by assignment to the final one — assignments that keep
    the record size and assignments that change it — then cleared and run; expectation = twin built directly with the final values"""
    cases = []
    i = 0
    for _ in range(reps):
        for conn in CONNS:
            for syn in SYN:
                for variant in ("dt-same-size-7/8", "dt-same-size-1.3", "dt-same-size-3/4", "dt-resize", "delay-same-size", "dt-and-delay"):
                    base = [1.0, 2.0, 0.5][i % 3]
                    i += 1
                    kind = "heterogeneous" if i % 3 else "homogeneous"
                    if variant == "dt-same-size-7/8":        # ceil(3.5) = 4 = ceil(3.5 / 0.875)
                        c = make_case(rng, conn, syn, 0.875 * base, 4, kind, T)
                        c["ctor_dt"] = base
                    elif variant == "dt-same-size-1.3":      # 1.0 -> 1.3 with max delay 4.0: five slots both times
                        c = make_case(rng, conn, syn, 1.3, 3, kind, T)
                        c["ctor_dt"], c["maxdelay"], c["ctor_maxdelay"] = 1.0, 4.0, 4.0
                    elif variant == "dt-same-size-3/4":      # ceil(2.25) = 3 = ceil(2.25 / 0.75)
                        c = make_case(rng, conn, syn, 0.75 * base, 3, kind, T)
                        c["ctor_dt"] = base
                    elif variant == "dt-resize":
                        c = make_case(rng, conn, syn, base, 3, kind, T)
                        c["ctor_dt"] = base * rng.choice([2.0, 0.5, 4.0])
                    elif variant == "delay-same-size":       # 2.5 dt <-> 3 dt: four slots both times
                        c = make_case(rng, conn, syn, base, 3, kind, T)
                        c["ctor_maxdelay"] = 2.5 * base
                        if i % 2:
                            c["ctor_maxdelay"], c["maxdelay"] = 3.0 * base, 2.5 * base
                            c["D"] = [min(d, 2.0 * base) for d in c["D"]]
                    else:
                        c = make_case(rng, conn, syn, 0.875 * base, 4, kind, T)
                        c["ctor_dt"] = base
                        c["ctor_maxdelay"] = rng.choice([1.0, 2.0, 6.0]) * base
                    if not any(c["D"]):
                        c["D"][-1] = c["dt"]                 # at least one non-zero delay
                    c["dt_via"] = ["connection", "synapse"][i % 2]
                    c["reconf"] = variant
                    cases.append(c)
    return cases


def tolerance_cases(rng, reps=1):
    """step times that are NOT exactly representable, long maximum delays (6..12 steps: k*dt computed in floating point is then
    not reproduced by dt*k, and the error survives the record's `+1` offset), a positive interpolation tolerance, and delays that
    lie WITHIN that tolerance of a grid point k*dt — written as the float product, rounded through float32 (what a float32
    delay parameter stores), or pushed off the grid point by a fraction of the tolerance in either direction.  Every such delay
    is an exact k-step shift (the tolerance is the configured meaning of "on the grid"); both interpolation modes per pair."""
    cases = []
    for _ in range(reps):
        for conn in CONNS:
            for syn in SYN:
                for mode in "PN":
                    dt = rng.choice([1.3, 1.3, 0.7, 0.1, 1.1, 0.3])
                    K = rng.randint(6, 12)
                    tol = rng.choice([1e-5, 1e-3, dt / 8])
                    c = make_case(rng, conn, syn, dt, K, "heterogeneous", K + rng.choice([3, 5]), tol=tol, clear=rng.choice([None, None, 4]))
                    c["mode"] = mode
                    how = rng.choice(["product", "float32", "above", "below", "either"])
                    D = []
                    for j in range(len(c["D"])):
                        k = rng.randint(0, K) if j != 1 else K      # the longest supported delay is always present
                        if how == "product":
                            d = float(k * dt)
                        elif how == "float32":
                            d = float(torch.tensor(k * dt, dtype=torch.float32))
                        else:
                            sgn = {"above": 1.0, "below": -1.0, "either": rng.choice([1.0, -1.0])}[how]
                            d = float(k * dt) + sgn * rng.choice([0.1, 0.5, 0.9]) * tol
                        D.append(min(max(d, 0.0), c["maxdelay"]))
                    c["D"] = D
                    c["delaykind"] = "heterogeneous+within-tolerance(" + how + ")"
                    cases.append(c)
    return cases


def inexact_steps(dt, kmax):
    """the whole numbers of steps k <= kmax whose delay k*dt, divided by dt in floating point, is NOT k again (above or below)"""
    return [k for k in range(1, kmax + 1) if float(k * dt) / dt != k]


def floatgrid_cases(rng, reps=1):
    """EXACT multiples of a non-representable step time with the DEFAULT interpolation tolerance (0): the step time is drawn
    from the hundredths in [0.05, 3] that have, within 12 steps, a whole number of steps k whose delay k*dt (the float
    product — what `k * dt` stores) does not divide back to k in floating point (the quotient lands a rounding error above or
    below k; about two thirds of the non-dyadic step times have one).  Such a k — as the longest supported delay or one or two
    below it — is given to about half the synapses, the others draw from 0..K.  Every delay is k steps exactly as far as the
    property is concerned (k*dt IS the grid point): pure k-step shift, both interpolation modes (mostly `previous`, where a
    read that is treated as lying between two grid points returns another observation), a clear mid-run for some."""
    cases = []
    j = 0
    for _ in range(reps):
        for conn in CONNS:
            for syn in SYN:
                for mode in "PP" if conn != "conv" else "P":
                    j += 1
                    dt, ks = 0.1, [3, 6, 12]
                    for _try in range(50):
                        cand = rng.randint(5, 300) / 100
                        if float(cand * 64).is_integer():
                            continue
                        kk = inexact_steps(cand, 12)
                        if kk and (j % 3 == 0 or any(float(k * cand) / cand > k for k in kk)):
                            dt, ks = cand, kk
                            break
                    up = [k for k in ks if float(k * dt) / dt > k]
                    kstar = rng.choice(up if up and j % 3 else ks)
                    K = kstar + rng.choice([0, 0, 1, 2])
                    c = make_case(rng, conn, syn, dt, K, "heterogeneous", K + rng.choice([3, 4, 6]), tol=0.0,
                                  clear=rng.choice([None, None, None, 2]), batch=1 if conn == "conv" else None)
                    c["mode"] = mode if j % 4 else "N"
                    c["D"] = [float((kstar if rng.random() < 0.5 else rng.randint(0, K)) * dt) for _ in c["D"]]
                    c["D"][rng.randrange(len(c["D"]))] = float(kstar * dt)
                    c["delaykind"] = "heterogeneous+inexact-float-quotient"
                    cases.append(c)
    return cases


def maxdelay_cases(rng, T, reps=1):
    """the supported MAXIMUM delay of a connection that is already running is re-assigned (`connection.synapse.delay = ...`: grown
    to make room for longer learned delays, shrunk, or re-assigned to a value with the same record size) once or twice, at steps
    where the record's write pointer is anywhere; new learned delays within the new maximum are (mostly) assigned at the same
    step, and the run continues for more than a record length.  Oracle: two undelayed twins (see `shifted_expectation`)."""
    cases = []
    for _ in range(reps):
        for conn in CONNS:
            for syn in SYN:
                dt = rng.choice([1.0, 0.5, 2.0, 1.0, 0.25])
                K0 = rng.randint(1, 4)
                c = make_case(rng, conn, syn, dt, K0, rng.choice(["heterogeneous", "heterogeneous", "homogeneous"]), T,
                              clear=rng.choice([None, None, None, 1]))
                c["maxdelay0"] = c["maxdelay"]
                nW = len(c["D"])
                K, cur = K0, list(c["D"])
                for tc in sorted(rng.sample(range(2, T - 3), rng.choice([1, 1, 2]))):
                    K1 = rng.choice([k for k in range(1, 7) if k != K] + [K + 2, K + 3])
                    c["steps"][tc]["setMax"] = float(K1 * dt)
                    if K1 < K and any(d > K1 * dt for d in cur) or rng.random() < 0.75:
                        cur = [float(rng.randint(0, K1) * dt) for _ in range(nW)]
                        cur[rng.randrange(nW)] = float(K1 * dt)      # one synapse uses the whole new range
                        c["steps"][tc]["setD"] = list(cur)
                    K = K1
                c["delaykind"] += "+max-reassigned"
                cases.append(c)
    return cases


def gen_cases(rng, thorough):
    cases = []
    T = 8 if not thorough else 14
    # grid: all 4 x 4 pairs, each with the delay kinds, dt in {1, 1/2}
    i = 0
    for conn in CONNS:
        for syn in SYN:
            for kind in ("heterogeneous", "homogeneous", "zero", "none", "offgrid", "subgrid", "beyond"):
                reps = 1 if not thorough else 3
                for _ in range(reps):
                    dt = [1.0, 0.5][i % 2]
                    K = [3, 1, 2, 4][i % 4] if kind != "zero" else [0, 2][i % 2]
                    if kind == "offgrid":
                        K = max(K, 2)
                    i += 1
                    cases.append(make_case(rng, conn, syn, dt, K, kind, T, over_none=(i % 5 == 0), tol=(0.0 if i % 3 else dt / 8),
                                           setter=(i % 4 == 1), clear=(T // 2 if i % 3 == 0 else None)))
    # dt = 1.3 (partial (float)): heterogeneous / homogeneous / zero
    for conn in CONNS:
        for syn in SYN:
            for kind in ("heterogeneous", "homogeneous") if not thorough else ("heterogeneous", "homogeneous", "zero", "none"):
                cases.append(make_case(rng, conn, syn, 1.3, rng.choice([1, 2, 3]), kind, T, clear=rng.choice([None, 3])))
    # the learned delays are re-assigned mid-run through the `delay` setter (history keeps running)
    for conn in CONNS:
        for syn in SYN:
            for rep in range(1 if not thorough else 3):
                cases.append(make_case(rng, conn, syn, rng.choice([1.0, 0.5]), rng.choice([2, 3]), rng.choice(["heterogeneous", "homogeneous", "zero"]),
                                       T, reassign=rng.choice([2, 3, 4]), clear=rng.choice([None, None, 6])))
    # reconfiguration by assignment after construction
    cases += reconf_cases(rng, T, reps=1 if not thorough else 3)
    # non-representable step times, long delays within a positive tolerance of the grid
    cases += tolerance_cases(rng, reps=1 if not thorough else 3)
    # the supported maximum delay is re-assigned while the connection is running
    cases += maxdelay_cases(rng, 16 if not thorough else 24, reps=2 if not thorough else 6)
    # random extras
    for _ in range(40 if not thorough else 400):
        kind = rng.choice(["heterogeneous", "heterogeneous", "homogeneous", "zero", "none", "offgrid", "subgrid", "beyond"])
        K = rng.randint(2 if kind == "offgrid" else 1, 5)
        cases.append(make_case(rng, rng.choice(CONNS), rng.choice(list(SYN)), rng.choice([1.0, 0.5, 2.0, 0.25]), K, kind,
                               rng.choice([6, 10, 16]) if not thorough else rng.choice([10, 20, 30]),
                               over_none=rng.random() < 0.3, tol=rng.choice([0.0, 0.0, 0.0625]), setter=rng.random() < 0.25,
                               clear=rng.choice([None, None, 2, 5]), reassign=rng.choice([None, None, None, 3])))
    # exact multiples of non-representable step times whose float quotient by dt is not whole, default tolerance 0 (drawn last: the earlier streams keep their draws)
    cases += floatgrid_cases(rng, reps=1 if not thorough else 4)
    return cases


# ---------------------------------------------------------------------------------------------

def key_of(c, d):
    obs = d[2].split(" ")[0]
    twin = ":twin" if "twin" in d[2] else ""
    rc = ":reconfigured(" + c["reconf"] + ")" if c.get("reconf") else ""
    return f"C06:{d[0]}:{c['conn']}:{c['syn']}:{c['delaykind']}{rc}:{obs}{twin}"


def describe(c, d):
    kind, t, what, where, want, got = d
    side = {"spec": "the time-shift specification", "model": "the code-shaped model"}[kind]
    rc = ""
    if c.get("ctor_dt", c["dt"]) != c["dt"] or c["ctor_maxdelay"] != c["maxdelay"]:
        rc = (f"; constructed with dt={c.get('ctor_dt', c['dt'])}, max delay={c['ctor_maxdelay']}, then assigned "
              f"{c.get('dt_via', 'connection')}.dt / synapse.delay and cleared")
    re = [(i, st["setMax"]) for i, st in enumerate(c["steps"]) if st.get("setMax") is not None]
    if re:
        rc += "; synapse.delay (supported maximum) re-assigned while running at " + ", ".join(f"step {i} to {v}" for i, v in re)
    if c["tol"]:
        rc += f"; interp_tol={c['tol']}, mode {c['mode']}"
    return (f"{c['conn']} x {SYN[c['syn']].__name__} (dt={c['dt']}, max delay={c['maxdelay']}, delays {c['delaykind']}{rc}) step {t}: "
            f"{what} at {list(where)} is {got}, {side} gives {want}")


def shrink(ctx, c, d):
    """truncate after the failing step; then batch 1"""
    def still(cc):
        try:
            ds = [x for x in check_case(ctx, cc) if x[0] == d[0] and x[2] == d[2]]
        except Exception:
            return None
        return ds[0] if ds else None
    best, bd = c, d
    cc = dict(c, steps=c["steps"][: d[1] + 1])
    r = still(cc)
    if r:
        best, bd = cc, r
    if best["batch"] > 1:
        n = math.prod(best["inshape"])
        cc = dict(best, batch=1, steps=[dict(s, x=s["x"][:n]) for s in best["steps"]])
        r = still(cc)
        if r:
            best, bd = cc, r
    return best, bd


def corpus_cases():
    import json
    from pathlib import Path
    d = Path(__file__).resolve().parent.parent.parent / "corpus" / "C06"
    return [json.loads(f.read_text()) for f in sorted(d.glob("*.json"))] if d.exists() else []


def explore(ctx) -> Exploration:
    torch.set_default_dtype(torch.float64)
    ex = Exploration()
    rng = ctx.rng
    thorough = ctx.tier == "thorough" or ctx.intensify
    transval.validate(ctx, SPEC["translate"], ex, per_fn=40 if not thorough else 200)
    cases = corpus_cases()
    ncorpus = len(cases)
    cases += gen_cases(rng, thorough)
    lines, plan = [], []
    import traceback
    for c in cases:
        try:
            real = run_real(c)
        except Exception as e:  # noqa: BLE001
            tb = traceback.extract_tb(e.__traceback__)
            if not any("/inferno/" in (fr.filename or "") for fr in tb[-6:]):
                raise
            # a configuration inside the property's quantifier cannot even be built / stepped: that IS a failing input
            where = next((f"{fr.filename.split('/inferno/')[-1]}:{fr.lineno} in {fr.name}" for fr in reversed(tb) if "/inferno/" in (fr.filename or "")), "")
            if len(ex.findings) < 6:
                ex.findings.append(Finding(kind="spec", key=f"C06:spec:{c['conn']}:{c['syn']}:{c['delaykind']}:raises",
                                           what=f"{c['conn']} x {SYN[c['syn']].__name__} (dt={c['dt']}, max delay={c['maxdelay']}, tol={c['tol']}, "
                                                f"overbound {c['curOver']}/{c['spkOver']}, delays {c['delaykind']}) raises {type(e).__name__}: "
                                                f"{str(e)[:160]} at {where}; the undelayed twin / the specification has a value",
                                           case={"cfg": c, "exception": f"{type(e).__name__}: {str(e)[:300]}", "where": where}))
            continue
        exp = shifted_expectation(c, real)
        spans = []
        for b in range(c["batch"]):
            a = len(lines)
            lines += row_lines(c, real, b)
            spans.append((a, len(lines)))
        plan.append((c, real, exp, spans))
    resp = ctx.run_driver(DRIVER, lines)
    if any(x == "bad-op" for x in resp):
        raise RuntimeError("driver rejected a line")
    failing = []
    floaty = {"cases": 0, "max_rel_dev_vs_twin": 0.0}
    for c, real, exp, spans in plan:
        ck, d1, d2, d3, E, R = real["dims"]
        ex.traces_validated += c["batch"]
        ex.count("connection", c["conn"])
        ex.count("synapse", c["syn"])
        ex.count("pair", c["conn"] + "x" + c["syn"])
        ex.count("delays", c["delaykind"])
        ex.count("dt", str(c["dt"]))
        ex.count("max delay / dt", str(c["maxdelay"] / c["dt"]))
        ex.count("max delay set by", "setter" if c["ctor_maxdelay"] != c["maxdelay"] else "constructor")
        ex.count("reconfigured after construction", c.get("reconf", "no"))
        ex.count("twin-shift applicable", str(exp is not None))
        ex.count("clear mid-run", str(any(s.get("clear") for s in c["steps"])))
        ex.count("interpolation tolerance", "0" if not c["tol"] else ("dt/8" if c["tol"] == c["dt"] / 8 else str(c["tol"])))
        ex.count("max delay re-assigned while running", str(sum(1 for s in c["steps"] if s.get("setMax") is not None)))
        nout = len(real["steps"][0]["out"][0]) if not isinstance(real["steps"][0]["out"], str) else 1
        ex.evaluations += len(c["steps"]) * c["batch"] * (nout + 2 * E * (R if real["delayedby"] else 1))
        if any(any(s["x"]) for s in c["steps"]):
            ex.nontriv((c["conn"], c["syn"], c["dt"], c["maxdelay"], tuple(c["W"]), tuple(c["D"] or ()), tuple(tuple(s["x"]) for s in c["steps"])))
        if c["cmp_tol"] > 1e-9 and exp is not None:
            floaty["cases"] += 1
            for o, e in zip(real["steps"], exp):
                if not isinstance(o["out"], str):
                    for ra, ea in zip(o["out"], e["out"]):
                        for p, q in zip(ra, ea):
                            floaty["max_rel_dev_vs_twin"] = max(floaty["max_rel_dev_vs_twin"], abs(p - q) / max(1.0, abs(p), abs(q)))
        ds = judge(c, real, exp, [resp[a:b] for a, b in spans])
        if real.get("reading"):
            ex.count("re-assigned maximum: history is", real["reading"])
        if ds:
            failing.append((c, ds[0]))
    seen = set()
    failing.sort(key=lambda cd: cd[1][0] != "spec")      # failing inputs against the specification first
    for c, d in failing:
        k = key_of(c, d)
        if k in seen or len(seen) >= 6:
            continue
        seen.add(k)
        small, sd = shrink(ctx, c, d)
        ex.findings.append(Finding(kind=sd[0], key=key_of(small, sd), what=describe(small, sd),
                                   case={"cfg": small, "step": sd[1], "observable": sd[2], "where": list(sd[3]),
                                         "expected": sd[4], "observed": sd[5],
                                         "disagreement": "code vs specification" if sd[0] == "spec" else "code vs code-shaped model"}))
    ex.rule = ("corpus (regression inputs of D14 and of the transposed-selector mutant) + grid: 4 connection kinds x 4 synapse kinds x delay tensors {heterogeneous, homogeneous, all-zero, no delay parameter, off-grid, "
               "single entries beyond max} with dt in {1, 1/2}, max delay in {0..4}*dt (and half steps), bias on/off, batch 1-2, optional clear() "
               "mid-run, max delay set by constructor or by the synapse's setter, tolerance 0 / dt/8, overbound default / None; the same pairs "
               "with dt = 1.3 (partial (float), 1e-6); reconfiguration stream: every pair built with another dt and/or max delay and then ASSIGNED "
               "(Connection.dt / Synapse.dt / Synapse.delay; size-preserving 1->7/8, 1->3/4, 1->1.3, 2.5dt<->3dt and size-changing), cleared, "
               "run against a twin built directly with the final values; tolerance stream: every pair x both interpolation modes with a non-representable dt "
               "in {1.3, 0.7, 0.1, 1.1, 0.3}, max delay 6..12 steps, interp_tol in {1e-5, 1e-3, dt/8} and delays within the tolerance of k*dt "
               "(float product, float32-rounded, +/- a fraction of the tolerance) = exact k-step shifts; float-grid stream: every pair with the DEFAULT "
               "tolerance 0, a non-representable dt drawn from the hundredths in [0.05, 3] and delays k*dt (k <= 14) whose floating-point quotient "
               "by dt is not a whole number (a rounding error above or below k) = exact k-step shifts; max-delay stream: every pair, the "
               "supported maximum re-assigned through Synapse.delay once or twice WHILE RUNNING (grow / shrink, any pointer position, new "
               "delays up to the new maximum), judged against two undelayed twins (history reset at the change / carried over faithfully: "
               "the run must agree with one of them throughout); random extras with dt in {1/4, 1/2, 1, 2}; every case is stepped on the delayed connection "
               "and on an undelayed twin; non-trivial = at least one input spike; distinct = distinct (pair, dt, weights, delays, spike trains)")
    ex.samples = [{k: v for k, v in cases[ncorpus].items() if k != "steps"}, {k: v for k, v in cases[-1].items() if k != "steps"}]
    ex.extra["streams"] = {"corpus": ncorpus, "generated": len(cases) - ncorpus, "driver_lines": len(lines)}
    ex.extra["partial_float_dt_1.3"] = floaty
    return ex


def replay(ctx, data) -> int:
    torch.set_default_dtype(torch.float64)
    case = data.get("failing_input")
    if not case:
        print("no failing input recorded:", data.get("broken"))
        return 1
    c = case["cfg"]
    print({k: v for k, v in c.items() if k != "steps"})
    for t, st in enumerate(c["steps"]):
        print(" step", t, st)
    ds = check_case(ctx, c)
    for d in ds:
        print("DISAGREEMENT", describe(c, d))
    if not ds:
        print("agrees")
    return 1 if ds else 0
