"""C02 — time-indexed select / insert on RecordTensor: correspondence + search.

Real side: a `RecordTensor` of float64 observations of shape (P,) on a fresh `inferno.Module`,
set up through public calls only (`incr`, `write`) to a given pointer and storage content; the
protocol lines are those of `lean/drivers/C02.lean`.  After every operation the real result is
compared with the code-shaped model (M stream: tie) and with the specification (S stream: the
property's wording — a disagreement there is a failing input).  Exact mode (Q): dyadic `dt`, times,
tolerances and values, rational kernels, outputs compared as exact rationals (the two linear
extrapolations divide by a non-power-of-two and are compared to 1e-12).  Float mode (F): Lean
`Float` with the operation order of the Python source, GENERATED Float kernels (exp pairs), doubles
as hex, 1e-12 relative.  Relational checks run on the REAL code alone: scalar-vs-tensor `select`,
scalar-vs-tensor `insert`, insert→select round trip for every shipped matching pair, acceptance against the
closed-form range [-tol, dt(N-1)+tol], integer / boolean and reduced-precision float storage against a float64 twin.
`reconfigured` stream: the real record REACHES the (dt, N) of its `begin` line by re-assignment of its public
attributes dt / duration / inclusive after construction (`random_history`; carried in the case as `history`, the
driver sees the resulting configuration only) and must behave like the freshly constructed record.
"""
from __future__ import annotations

import math
from fractions import Fraction
from pathlib import Path

import torch

import inferno
import inferno.functional as IF
from inferno.core.infrastructure import RecordTensor

from runner import Exploration, Finding
import transval
from transval import hx, unhx

SPEC = {
    "prop": "C02",
    "lean_targets": ["InfernoVerif.Props.C02", "InfernoVerif.Props.C02Glue", "InfernoVerif.Props.C02GlueProg", "InfernoVerif.Lemmas.SelectQ", "InfernoVerif.Model.Select",
                     "InfernoVerif.Model.SelectQ", "InfernoVerif.Gen.InterpolationF",
                     "InfernoVerif.Gen.ExtrapolationF", "InfernoVerif.Gen.Dispatch"],
    "prop_files": ["InfernoVerif/Props/C02.lean", "InfernoVerif/Props/C02Glue.lean", "InfernoVerif/Props/C02GlueProg.lean"],
    "lemma_files": ["InfernoVerif/Lemmas/Select.lean", "InfernoVerif/Lemmas/SelectQ.lean", "InfernoVerif/Lemmas/SelectCast.lean"],
    "model_files": ["InfernoVerif/Model/Select.lean", "InfernoVerif/Model/SelectQ.lean",
                    "InfernoVerif/Gen/InterpolationR.lean", "InfernoVerif/Gen/ExtrapolationR.lean",
                    "InfernoVerif/Gen/InterpolationF.lean", "InfernoVerif/Gen/ExtrapolationF.lean"],
    "translate": ["Interpolation", "Extrapolation", "SelectSites", "RingProg", "SelectProg"],
    "driver_targets": ["InfernoVerif.Model.Select", "InfernoVerif.Model.SelectQ",
                       "InfernoVerif.Gen.InterpolationF", "InfernoVerif.Gen.ExtrapolationF",
                       "InfernoVerif.Gen.Dispatch"],
    "assumptions": [
        "theorems are over exact reals (dt > 0, tol >= 0); the exact stream uses dyadic dt in {1/4,1/2,1,2}, dyadic times, tolerances "
        "and values, for which torch float64 arithmetic is exact; non-dyadic dt (0.3, 1.3) is a separate stream judged with the "
        "property's own tolerance (1e-6) and times kept 1e-3 away from every decision boundary — partial (float)",
        "storage dtype float64, observation shape (P,), CPU; dtype conversion of inserted values and autograd are not modelled; integer "
        "and boolean storage is covered by a twin relation only (same calls on a float64 record holding the same numbers, sample-selecting "
        "kernels for insert / boolean storage); float16 / bfloat16 / float32 storage likewise by a twin relation (integer-valued samples, "
        "sample-selecting kernels exactly, arithmetic kernels to 4 eps of the storage type; times are float64 / float32 as given by the caller)",
        "a record that reaches its step time and size by re-assignment of dt / duration / inclusive after construction is judged by the "
        "specification of the resulting (dt, N): the driver is told the resulting configuration only",
        "one storage column per element (a scalar-time call acts identically on every column; a tensor-time call addresses one column per element)",
        "the same offset is used for insert and select in the round trip (their defaults differ: 0 and 1)",
    ],
}
DRIVER = "drivers/C02.lean"

INTERP = {"previous": IF.interp_previous, "next": IF.interp_next, "nearest": IF.interp_nearest,
          "linear": IF.interp_linear, "expdecay": IF.interp_expdecay, "expratedecay": IF.interp_expratedecay}
EXTRAP = {"previous": IF.extrap_previous, "next": IF.extrap_next, "neighbors": IF.extrap_neighbors,
          "nearest": IF.extrap_nearest, "linear_forward": IF.extrap_linear_forward,
          "linear_backward": IF.extrap_linear_backward, "expdecay": IF.extrap_expdecay,
          "expratedecay": IF.extrap_expratedecay}
KW = {"expdecay": "time_constant", "expratedecay": "rate_constant"}
RAT_INTERP = ["previous", "next", "nearest", "linear"]
RAT_EXTRAP = ["previous", "next", "neighbors", "nearest", "linear_forward", "linear_backward"]
INEXACT_EXTRAP = {"linear_forward", "linear_backward"}
# shipped matching pairs (extrap, interp)
PAIRS = [("previous", "previous"), ("next", "next"), ("nearest", "nearest"), ("linear_forward", "linear"),
         ("linear_backward", "linear"), ("expdecay", "expdecay"), ("expratedecay", "expratedecay"),
         ("neighbors", "previous"), ("neighbors", "next"), ("neighbors", "nearest"), ("neighbors", "linear")]
T64 = torch.float64


# ---------------------------------------------------------------------------------------------
# wire format

def fr(x) -> Fraction:
    return x if isinstance(x, Fraction) else Fraction(x)


def q_s(x) -> str:
    if isinstance(x, float) and not math.isfinite(x):
        return "nan" if x != x else ("inf" if x > 0 else "-inf")     # never produced by the exact model
    f = fr(x)
    return f"{f.numerator}/{f.denominator}"


def num_s(mode: str, x) -> str:
    return q_s(float(x)) if mode == "Q" else hx(float(x))


def num_p(mode: str, tok: str):
    if mode == "Q":
        return float(tok) if tok in ("nan", "inf", "-inf") else Fraction(tok)
    return unhx(tok)


def vals_s(mode, xs) -> str:
    xs = list(xs)
    return ",".join(num_s(mode, x) for x in xs) if xs else "-"


def adj_parse(mode, tok):
    if tok == "N":
        return None
    _, a, b = tok.split(":")
    a, b = float(num_p(mode, a)), float(num_p(mode, b))
    return lambda x, a=a, b=b: a * x + b


def tok_close(mode: str, a: str, b: str, rtol: float) -> bool:
    """compare two response payloads (one side of `M … || S …`) token-wise, numerically"""
    if a == b:
        return True
    if a.startswith(("err", "ok", "noslot", "harness")) or b.startswith(("err", "ok", "noslot", "harness")):
        return False
    pa, pb = a.split(";"), b.split(";")
    if len(pa) != len(pb):
        return False
    for xa, xb in zip(pa, pb):
        if xa.startswith("ptr=") or xb.startswith("ptr="):
            if xa != xb:
                return False
            continue
        ra, rb = xa.split("|"), xb.split("|")
        if len(ra) != len(rb):
            return False
        for va, vb in zip(ra, rb):
            la, lb = va.split(","), vb.split(",")
            if len(la) != len(lb):
                return False
            for p, q in zip(la, lb):
                if p == q:
                    continue
                if p == "-" or q == "-":
                    return False
                if mode == "Q" and (p in ("nan", "inf", "-inf") or q in ("nan", "inf", "-inf")):
                    return False
                x, y = num_p(mode, p), num_p(mode, q)
                if mode == "F":
                    if x != x and y != y:
                        continue
                    if x != x or y != y:
                        return False
                    if math.isinf(x) or math.isinf(y):
                        if x == y:
                            continue
                        return False
                if x == y:
                    continue
                if rtol == 0:
                    return False
                if abs(x - y) > rtol * max(1, abs(x), abs(y)):
                    return False
    return True


def split_resp(resp: str):
    if resp.startswith("M ") and " || S " in resp:
        m, s = resp[2:].split(" || S ", 1)
        return m.strip(), s.strip()
    return resp.strip(), resp.strip()


# ---------------------------------------------------------------------------------------------
# real side

HIST_DT_POOL = [0.25, 0.5, 1.0, 2.0, 4.0, 0.3, 1.3]


def duration_for(dt: float, n: int, inclusive: bool) -> float:
    """a duration for which the documented size formula max(ceil(T/dt) + [incl], 1) gives n (half a step of slack)"""
    return max(float(dt) * (n - 1.5), 0.0) if inclusive else float(dt) * (n - 0.5)


def random_history(rng, dt: float, n: int, kind: str | None = None):
    """A way of REACHING the configuration (step time dt, record size n) other than constructing it: the record is
    created with other settings and its public attributes dt / duration / inclusive are re-assigned (as the reducer /
    synapse dt setters do), possibly with pushes in between.  The property speaks about the record's current dt and N
    only, so every history must behave like the freshly constructed record.
    kinds: `<attr>-only` = created with the final values of the other two, one assignment; `<attr>-last` = all
    three re-assigned (plus random intermediate values), <attr> last; `mixed` = random order"""
    kind = kind or rng.choice(["dt-only", "dt-only", "duration-only", "inclusive-only", "dt-last", "duration-last",
                               "inclusive-last", "mixed"])
    incl = rng.random() < 0.5
    dur = duration_for(dt, n, incl)
    dt0 = rng.choice([d for d in HIST_DT_POOL if d != dt])
    n0 = rng.choice([k for k in range(1, 10) if k != n])
    incl0 = rng.random() < 0.5
    final = {"dt": float(dt), "duration": dur, "inclusive": incl}
    steps = []

    def maybe_push(p):
        if rng.random() < p:
            steps.append(["push", rng.randint(1, 3)])

    if kind.endswith("-only"):
        attr = kind[:-5]
        other = {"dt": dt0, "duration": duration_for(dt, n0, incl), "inclusive": not incl}[attr]
        start = dict(final, **{attr: other})
        maybe_push(0.5)
        steps.append([attr, final[attr]])
    else:
        start = {"dt": dt0, "duration": duration_for(dt0, n0, incl0), "inclusive": incl0}
        for _ in range(rng.randint(0, 2)):           # intermediate values
            a = rng.choice(["dt", "duration", "inclusive"])
            d_ = rng.choice(HIST_DT_POOL)
            steps.append([a, {"dt": d_, "duration": duration_for(d_, rng.randint(1, 9), rng.random() < 0.5),
                              "inclusive": rng.random() < 0.5}[a]])
            maybe_push(0.3)
        order = ["dt", "duration", "inclusive"]
        rng.shuffle(order)
        if kind != "mixed":
            attr = kind[:-5]
            order.remove(attr)
            order.append(attr)
        for a in order:
            maybe_push(0.3)
            steps.append([a, final[a]])
    return {"kind": kind, "create": [start["dt"], start["duration"], start["inclusive"]], "steps": steps}


def make_record(n: int, ptr: int, rows, dt: float, history=None):
    """RecordTensor with recordsz n, pointer ptr, storage rows `rows` (n x P), via public calls.
    `history` (see `random_history`): reach (dt, n) through re-assignment of dt / duration / inclusive instead."""
    P = len(rows[0])
    owner = inferno.Module()
    if history is None:
        RecordTensor.create(owner, "rec", float(dt), max(float(dt) * (n - 1.5), 0.0), torch.zeros(P, dtype=T64), inclusive=True)
        rt = owner.rec
    else:
        dt0, dur0, incl0 = history["create"]
        RecordTensor.create(owner, "rec", float(dt0), float(dur0), torch.zeros(P, dtype=T64), inclusive=bool(incl0))
        rt = owner.rec
        for attr, v in history["steps"]:
            if attr == "dt":
                rt.dt = float(v)
            elif attr == "duration":
                rt.duration = float(v)
            elif attr == "inclusive":
                rt.inclusive = bool(v)
            elif attr == "push":
                for j in range(int(v)):
                    rt.push(torch.full((P,), float(j + 1), dtype=T64))
            else:
                raise AssertionError(attr)
        assert rt.dt == float(dt), (rt.dt, dt)
    assert rt.recordsz == n, (rt.recordsz, n)
    if (ptr - rt.pointer) % n:
        rt.incr((ptr - rt.pointer) % n)
    assert rt.pointer == ptr
    for i in range(n):
        rt.write(torch.tensor(rows[i], dtype=T64), offset=(ptr - i) % n, inplace=True)
    assert rt.pointer == ptr and torch.equal(rt.value, torch.tensor(rows, dtype=T64))
    return owner, rt


class Real:
    def __init__(self, history=None):
        self.rt = None
        self.mode = "Q"
        self.history = history

    def exec(self, line):
        tok = line.split()
        try:
            return self._exec(tok)
        except ValueError:
            return "err ValueError"
        except (RuntimeError, TypeError, IndexError, KeyError, AttributeError, ZeroDivisionError) as e:
            return "err " + type(e).__name__

    def _dt(self, tok):
        dt = float(num_p(self.mode, tok))
        assert dt == self.rt.dt, (dt, self.rt.dt)
        return dt

    def _exec(self, tok):
        op, m = tok[0], self.mode
        if op == "begin":
            self.mode = m = tok[1]
            n, ptr, P = int(tok[2]), int(tok[3]), int(tok[4])
            rows = [[float(num_p(m, v)) for v in r.split(",")] for r in tok[5].split("|")]
            dt = float(num_p(m, tok[6]))
            self.owner, self.rt = make_record(n, ptr, rows, dt, self.history)
            self.n, self.P = n, P
            return "ok"
        rt = self.rt
        if op == "dump":
            v = rt.value
            mview = f"ptr={rt.pointer};" + "|".join(vals_s(m, v[i].tolist()) for i in range(v.shape[0]))
            sview = "|".join(vals_s(m, rt.read(k).tolist()) for k in range(v.shape[0]))
            return (mview, sview)
        if op == "selS":
            name, kp = tok[1], tok[2]
            self._dt(tok[3])
            tol, t, off = float(num_p(m, tok[4])), float(num_p(m, tok[5])), int(tok[6])
            kw = {KW[name]: float(num_p(m, kp))} if kp != "-" else None
            r = rt.select(t, INTERP[name], tolerance=tol, offset=off, interp_kwargs=kw)
            assert tuple(r.shape) == (self.P,)
            return vals_s(m, r.tolist())
        if op == "selT":
            name, kp = tok[1], tok[2]
            self._dt(tok[3])
            tol, off, D = float(num_p(m, tok[4])), int(tok[5]), int(tok[6])
            ts = [float(num_p(m, v)) for v in tok[7].split(",")]
            time = torch.tensor(ts, dtype=T64).reshape((self.P,) if D == 0 else (self.P, D))
            kw = {KW[name]: float(num_p(m, kp))} if kp != "-" else None
            r = rt.select(time, INTERP[name], tolerance=tol, offset=off, interp_kwargs=kw)
            assert tuple(r.shape) == tuple(time.shape)
            return vals_s(m, r.reshape(-1).tolist())
        if op in ("insS", "insT"):
            name, kp, adj = tok[1], tok[2], tok[3]
            self._dt(tok[4])
            tol, off, ip = float(num_p(m, tok[5])), int(tok[6]), tok[7] == "T"
            kw = {}
            if kp != "-":
                kw[KW[name]] = float(num_p(m, kp))
            if name in INEXACT_EXTRAP:
                kw["adjust"] = adj_parse(m, adj)
            obs = torch.tensor([float(num_p(m, v)) for v in tok[9].split(",")], dtype=T64)
            if op == "insS":
                time = float(num_p(m, tok[8]))
            else:
                time = torch.tensor([float(num_p(m, v)) for v in tok[8].split(",")], dtype=T64)
            before = rt.value.clone()
            try:
                rt.insert(obs, time, EXTRAP[name], tolerance=tol, offset=off, inplace=ip, extrap_kwargs=kw or None)
            except ValueError:
                if not torch.equal(rt.value, before):
                    return "err ValueError (storage changed)"
                raise
            return "ok"
        raise AssertionError(tok)


# ---------------------------------------------------------------------------------------------
# case construction

def b(x):
    return "T" if x else "F"


def ring_rows(rng, n, P, mode):
    """pairwise distinct dyadic contents (eighths), away from zero"""
    base = rng.randint(2, 9)
    return [[(base + 5 * i + 13 * j + (i * j) % 3) / (8 if mode == "Q" else 1) * (1 if (i + j) % 4 else -1)
             for j in range(P)] for i in range(n)]


def begin_line(mode, n, ptr, rows, dt):
    P = len(rows[0])
    return f"begin {mode} {n} {ptr} {P} " + "|".join(vals_s(mode, r) for r in rows) + f" {num_s(mode, dt)}"


def sweep_times(dt, n, tol):
    """times on and off the grid, at 0, at dt(n-1), at ±tol around grid points and limits, just outside"""
    dt, tol = Fraction(dt), Fraction(tol)
    hi = dt * (n - 1)
    eps = Fraction(1, 64)
    ts = set()
    j = -2
    while dt * j / 4 <= hi + dt / 2:
        ts.add(dt * j / 4)
        j += 1
    for k in range(0, n):
        g = dt * k
        for d in (tol, -tol, tol + eps, -tol - eps, tol - eps if tol > 0 else eps, eps, -eps):
            ts.add(g + d)
    for d in (tol, tol + eps, 2 * tol + eps):
        ts.add(-d)
        ts.add(hi + d)
    ts.add(dt * 3 / 8)
    ts.add(hi - dt * 3 / 8 if n > 1 else Fraction(0))
    return sorted(ts)


def sel_s(mode, name, kp, dt, tol, t, off):
    return f"selS {name} {kp} {num_s(mode, dt)} {num_s(mode, tol)} {num_s(mode, t)} {off}"


def sel_t(mode, name, kp, dt, tol, off, D, ts):
    return f"selT {name} {kp} {num_s(mode, dt)} {num_s(mode, tol)} {off} {D} {vals_s(mode, ts)}"


def ins_s(mode, name, kp, adj, dt, tol, off, ip, t, obs):
    return f"insS {name} {kp} {adj} {num_s(mode, dt)} {num_s(mode, tol)} {off} {b(ip)} {num_s(mode, t)} {vals_s(mode, obs)}"


def ins_t(mode, name, kp, adj, dt, tol, off, ip, ts, obs):
    return f"insT {name} {kp} {adj} {num_s(mode, dt)} {num_s(mode, tol)} {off} {b(ip)} {vals_s(mode, ts)} {vals_s(mode, obs)}"


def kparam(rng, mode, name):
    if name in KW:
        return num_s(mode, rng.choice([0.5, 1.0, 2.0, 5.0, 20.0]))
    return "-"


def adj_tok(rng, mode, name):
    if name in INEXACT_EXTRAP and rng.random() < 0.4:
        return f"aff:{num_s(mode, rng.choice([0.5, 1.0, 2.0]))}:{num_s(mode, rng.choice([0.0, 0.25, -1.0]))}"
    return "N"


def case(ops, rtol, stream):
    return {"ops": ops, "rtol": rtol, "stream": stream}


def select_sweep_cases(rng, maxn):
    """exact mode: every dt, n <= maxn, pointer, two tolerances; every sweep time x every rational kernel,
    scalar and tensor time (with and without the trailing time axis)"""
    out = []
    for dt in (0.25, 0.5, 1.0, 2.0):
        for n in range(1, maxn + 1):
            for ptr in range(n):
                for tol in (0.0, 0.125, 0.0625):
                    if tol == 0.0625 and (n + ptr) % 2:
                        continue
                    P = 2
                    rows = ring_rows(rng, n, P, "Q")
                    ops = [begin_line("Q", n, ptr, rows, dt)]
                    times = sweep_times(dt, n, tol)
                    off = rng.choice([1, 0, 2, n, -1, 1])
                    for i, t in enumerate(times):
                        for name in RAT_INTERP:
                            ops.append(sel_s("Q", name, "-", dt, tol, t, off))
                        name = RAT_INTERP[i % 4]
                        t2 = times[(i * 7 + 3) % len(times)]
                        ops.append(sel_t("Q", name, "-", dt, tol, off, 0, [t, t2]))
                        t3, t4 = times[(i * 5 + 1) % len(times)], times[(i * 3 + 2) % len(times)]
                        ops.append(sel_t("Q", RAT_INTERP[(i + 1) % 4], "-", dt, tol, off, 2, [t, t2, t3, t4]))
                    out.append(case(ops, 0.0, "select_sweep"))
    return out


def insert_cases(rng, maxn, per_cfg):
    """exact mode: insert at sweep times with every rational extrapolation, scalar (in-place / out-of-place)
    and tensor time, then dump and select at the same time with a matching interpolation"""
    out = []
    for dt in (0.25, 0.5, 1.0, 2.0):
        for n in range(1, maxn + 1):
            for ptr in range(n):
                tol = rng.choice([0.0, 0.125])
                times = sweep_times(dt, n, tol)
                picks = [rng.choice(times) for _ in range(per_cfg)]
                picks += [Fraction(0), Fraction(dt) * (n - 1), Fraction(dt) * (n - 1) + Fraction(tol) + Fraction(1, 64),
                          -Fraction(tol), Fraction(dt) * 3 / 8]
                for i, t in enumerate(picks):
                    P = 2
                    rows = ring_rows(rng, n, P, "Q")
                    name = RAT_EXTRAP[(i + ptr + n) % len(RAT_EXTRAP)] if i >= 6 else RAT_EXTRAP[i % 6]
                    adj = adj_tok(rng, "Q", name)
                    off = rng.choice([0, 0, 1, -1, n, 2])
                    obs = [rng.randint(-40, 40) / 8 for _ in range(P)]
                    ops = [begin_line("Q", n, ptr, rows, dt)]
                    kind = rng.choice(["S-in", "S-out", "T-in", "T-out"])
                    if kind[0] == "S":
                        ops.append(ins_s("Q", name, "-", adj, dt, tol, off, kind == "S-in", t, obs))
                    else:
                        t2 = rng.choice(times)
                        ops.append(ins_t("Q", name, "-", adj, dt, tol, off, kind == "T-in", [t, t2], obs))
                    ops.append("dump")
                    iname = {"previous": "previous", "next": "next", "nearest": "nearest", "neighbors": rng.choice(RAT_INTERP),
                             "linear_forward": "linear", "linear_backward": "linear"}[name]
                    ops.append(sel_s("Q", iname, "-", dt, tol, t, off))
                    ops.append(sel_t("Q", iname, "-", dt, tol, off, 0, [t, t]))
                    out.append(case(ops, 1e-12 if name in INEXACT_EXTRAP else 0.0, "insert_sweep"))
    return out


def float_cases(rng, count):
    """float mode, dyadic dt: every kernel incl. the exp pairs; on-grid tensor selects with exp kernels (exact-index bypass)"""
    out = []
    for c in range(count):
        dt = rng.choice([0.25, 0.5, 1.0, 2.0])
        n = rng.choice([1, 2, 3, 4, 5, 7])
        ptr = rng.randrange(n)
        P = rng.choice([1, 2, 3])
        tol = rng.choice([0.0, 0.125, 0.0625, 1e-6])
        rows = [[rng.randint(-40, 40) / 8 or 0.5 for _ in range(P)] for _ in range(n)]
        ops = [begin_line("F", n, ptr, rows, dt)]
        times = [float(t) for t in sweep_times(dt, n, tol if tol != 1e-6 else 0.0)]
        for _ in range(rng.randint(5, 9)):
            off = rng.choice([1, 0, -1, 2, n])
            r = rng.random()
            iname = rng.choice(["expdecay", "expratedecay", "expdecay", "expratedecay", "linear", "nearest", "previous", "next"])
            if r < 0.3:
                ops.append(sel_s("F", iname, kparam(rng, "F", iname), dt, tol, rng.choice(times), off))
            elif r < 0.6:
                D = rng.choice([0, 1, 3])
                ts = [rng.choice(times) for _ in range(P * max(D, 1))]
                if rng.random() < 0.5:      # make sure on-grid elements are present
                    ts[0] = dt * rng.randrange(n)
                ops.append(sel_t("F", iname, kparam(rng, "F", iname), dt, tol, off, D, ts))
            else:
                ename = rng.choice(list(EXTRAP))
                kp = kparam(rng, "F", ename)
                obs = [rng.randint(-40, 40) / 8 for _ in range(P)]
                ip = rng.random() < 0.5
                t = rng.choice(times)
                if rng.random() < 0.5:
                    ops.append(ins_s("F", ename, kp, adj_tok(rng, "F", ename), dt, tol, off, ip, t, obs))
                else:
                    ops.append(ins_t("F", ename, kp, adj_tok(rng, "F", ename), dt, tol, off, ip,
                                     [t] + [rng.choice(times) for _ in range(P - 1)], obs))
                ops.append("dump")
                match = [i for e, i in PAIRS if e == ename]
                mi = rng.choice(match)
                ops.append(sel_s("F", mi, kp if mi in KW else "-", dt, tol, t, off))
        out.append(case(ops, 1e-12, "float_dyadic"))
    return out


def random_cases(rng, count, big=False):
    """exact mode: random op sequences, 15% out-of-range times, large tolerances and offsets included; 10% of the
    times miss the tolerance band of a grid point by 2^-14 .. 2^-20 (still exact in float64)"""
    out = []
    for c in range(count):
        dt = rng.choice([0.25, 0.5, 1.0, 2.0])
        n = rng.choice([1, 2, 3, 4, 5, 6, 8] if not big else list(range(14, 21)))
        ptr = rng.randrange(n)
        P = rng.choice([1, 2, 3])
        tol = rng.choice([0.0, 0.0625, 0.125, 0.25, 1.0, 0.0, 0.125])
        rows = ring_rows(rng, n, P, "Q")
        ops = [begin_line("Q", n, ptr, rows, dt)]
        rtol = 0.0

        def rtime():
            if rng.random() < 0.15:
                return rng.choice([-1, 1]) * rng.randint(1, 40) / 16 + (dt * (n - 1) if rng.random() < 0.5 else 0)
            k = rng.randrange(n)
            r = rng.random()
            if r < 0.3:
                return dt * k
            if r < 0.5:
                return dt * k + rng.choice([-1, 1]) * tol
            if r < 0.6:      # just outside the tolerance of a grid point by a hair that is small RELATIVE to the time as well
                return dt * k + rng.choice([-1, 1]) * (tol + 2.0 ** -rng.choice([14, 16, 18, 20]))
            return min(max(dt * k + rng.randint(-15, 15) * dt / 16, -tol), dt * (n - 1) + tol)

        for _ in range(rng.randint(6, 14)):
            off = rng.randint(-2 * n, 2 * n)
            r = rng.random()
            if r < 0.3:
                ops.append(sel_s("Q", rng.choice(RAT_INTERP), "-", dt, tol, rtime(), off))
            elif r < 0.55:
                D = rng.choice([0, 1, 2, 4])
                ops.append(sel_t("Q", rng.choice(RAT_INTERP), "-", dt, tol, off, D, [rtime() for _ in range(P * max(D, 1))]))
            else:
                ename = rng.choice(RAT_EXTRAP)
                if ename in INEXACT_EXTRAP:
                    rtol = 1e-12
                obs = [rng.randint(-40, 40) / 8 for _ in range(P)]
                ip = rng.random() < 0.5
                if rng.random() < 0.5:
                    ops.append(ins_s("Q", ename, "-", adj_tok(rng, "Q", ename), dt, tol, off, ip, rtime(), obs))
                else:
                    ops.append(ins_t("Q", ename, "-", adj_tok(rng, "Q", ename), dt, tol, off, ip, [rtime() for _ in range(P)], obs))
                ops.append("dump")
        out.append(case(ops, rtol, "random_sequences" if not big else "random_sequences_big"))
    return out


def nondyadic_cases(rng, count):
    """float mode, dt in {0.3, 1.3}, tolerance 1e-6; times clearly on the grid (float product k*dt) or at
    least 1e-3 away from every grid point / range limit — partial (float)"""
    out = []
    for c in range(count):
        dt = rng.choice([0.3, 1.3])
        n = rng.choice([2, 3, 4, 6])
        ptr = rng.randrange(n)
        P = rng.choice([1, 2])
        tol = 1e-6
        rows = [[rng.randint(-40, 40) / 8 or 0.5 for _ in range(P)] for _ in range(n)]
        ops = [begin_line("F", n, ptr, rows, dt)]

        def rtime():
            k = rng.randrange(n)
            r = rng.random()
            if r < 0.35:
                return k * dt
            if r < 0.45:
                return k * dt + rng.choice([-1, 1]) * 3e-7
            if r < 0.55:
                return rng.choice([-1e-2, dt * (n - 1) + 1e-2])
            k = rng.randrange(n - 1)
            return (k + rng.choice([0.1, 0.25, 0.45, 0.55, 0.75, 0.9, 0.37])) * dt   # not the midpoint: `nearest` ties are a decision boundary

        for _ in range(rng.randint(5, 9)):
            off = rng.choice([1, 0, -1, 2])
            r = rng.random()
            iname = rng.choice(list(INTERP))
            if r < 0.35:
                ops.append(sel_s("F", iname, kparam(rng, "F", iname), dt, tol, rtime(), off))
            elif r < 0.6:
                D = rng.choice([0, 2])
                ops.append(sel_t("F", iname, kparam(rng, "F", iname), dt, tol, off, D, [rtime() for _ in range(P * max(D, 1))]))
            else:
                ename = rng.choice(list(EXTRAP))
                kp = kparam(rng, "F", ename)
                obs = [rng.randint(-40, 40) / 8 for _ in range(P)]
                t = rtime()
                if rng.random() < 0.5:
                    ops.append(ins_s("F", ename, kp, "N", dt, tol, off, rng.random() < 0.5, t, obs))
                else:
                    ops.append(ins_t("F", ename, kp, "N", dt, tol, off, rng.random() < 0.5, [t] + [rtime() for _ in range(P - 1)], obs))
                ops.append("dump")
        out.append(case(ops, 1e-9, "non_dyadic"))
    return out


def limit_probe_cases(rng, maxn):
    """exact mode, for records whose configuration is about to be reached by re-assignment: every dyadic dt, every
    2 <= n <= maxn; scalar and tensor selects and inserts at both range limits, +-tol around them, a quarter / half /
    whole step inside and beyond the upper one (on and off the grid), every rational kernel in rotation"""
    out = []
    for dt in (0.25, 0.5, 1.0, 2.0):
        for n in range(2, maxn + 1):
            for tol in (0.0, 0.125):
                ptr = rng.randrange(n)
                P = 2
                d, tl = Fraction(dt), Fraction(tol)
                hi = d * (n - 1)
                eps = Fraction(1, 64)
                times = [Fraction(0), -tl, -tl - eps, hi, hi + tl, hi + tl + eps, hi - tl, hi - d / 4, hi - d / 2, hi - d,
                         hi + d / 4, hi + d / 2, hi + d, hi + 2 * d, hi + d * (n - 1), hi - d * 3 / 8, hi / 2, hi * 2,
                         hi + d * 3, hi - eps, hi + eps if tl > 0 else hi + 2 * eps]
                off = rng.choice([1, 0, 2, -1])
                rows = ring_rows(rng, n, P, "Q")
                ops = [begin_line("Q", n, ptr, rows, dt)]
                for i, t in enumerate(times):
                    ops.append(sel_s("Q", RAT_INTERP[i % 4], "-", dt, tol, t, off))
                    ops.append(sel_t("Q", RAT_INTERP[(i + 1) % 4], "-", dt, tol, off, 0, [t, times[(i * 5 + 2) % len(times)]]))
                    ops.append(sel_t("Q", RAT_INTERP[(i + 2) % 4], "-", dt, tol, off, 2, [Fraction(0), t, hi, t]))
                out.append(case(ops, 0.0, "reconfigured"))
                for i, t in enumerate(times):
                    name = RAT_EXTRAP[(i + n) % len(RAT_EXTRAP)]
                    obs = [rng.randint(-40, 40) / 8 for _ in range(P)]
                    ops = [begin_line("Q", n, ptr, rows, dt)]
                    if i % 2:
                        ops.append(ins_s("Q", name, "-", "N", dt, tol, off, rng.random() < 0.5, t, obs))
                    else:
                        ops.append(ins_t("Q", name, "-", "N", dt, tol, off, rng.random() < 0.5, [t, rng.choice(times)], obs))
                    ops.append("dump")
                    out.append(case(ops, 1e-12 if name in INEXACT_EXTRAP else 0.0, "reconfigured"))
    return out


def attach_histories(rng, cases, stream="reconfigured"):
    """the same protocol text, but the real record reaches the (dt, n) of its `begin` line through re-assignment of
    dt / duration / inclusive after construction (the driver sees the resulting dt and n only: the specification is a
    function of the record's CURRENT step time and size)"""
    for c in cases:
        tok = c["ops"][0].split()
        mode, n, dt = tok[1], int(tok[2]), float(num_p(tok[1], tok[6]))
        c["history"] = random_history(rng, dt, n)
        c["stream"] = stream
    return cases


def corpus_cases():
    d = Path(__file__).resolve().parent.parent.parent / "corpus" / "C02"
    out = []
    if d.exists():
        for f in sorted(d.glob("*.ops")):
            lines = [l for l in f.read_text().splitlines() if l.strip() and not l.startswith("#")]
            rtol = 0.0
            if lines and lines[0].startswith("rtol "):
                rtol = float(lines[0].split()[1])
                lines = lines[1:]
            out.append(case(lines, rtol, "corpus"))
    return out


# ---------------------------------------------------------------------------------------------
# running cases

def exec_real(ops, history=None):
    ex = Real(history)
    out = []
    for line in ops:
        try:
            r = ex.exec(line)
        except Exception as e:  # an executor bug must not masquerade as a verdict
            r = f"harness-exception {type(e).__name__}: {e}"
        if isinstance(r, str):
            r = (r, r)
        out.append(r)
    return out


def compare_case(c, real, resp):
    mode = c["ops"][0].split()[1]
    for i, ((rm, rs), line) in enumerate(zip(real, resp)):
        dm, ds = split_resp(line)
        if not tok_close(mode, rs, ds, c["rtol"]):
            return (i, "spec", ds, rs)
        if not tok_close(mode, rm, dm, c["rtol"]):
            return (i, "model", dm, rm)
    return None


def protocol_failure(d):
    return any(x.startswith("harness-exception") for x in (d[2], d[3])) or "bad-op" in d[2]


def key_of(c, d):
    tok = c["ops"][d[0]].split()
    op = tok[0]
    if op == "dump" and d[0] > 0:
        tok = c["ops"][d[0] - 1].split()
        op = "after-" + tok[0]
    kern = tok[1] if len(tok) > 1 and not tok[0] == "begin" else "-"
    return f"C02:{d[1]}:{op}:{kern}"


def shrink(ctx, c, kind, max_tries=8):
    """the failing op is last; first try begin + that op alone (selects do not change the state),
    then begin + the last two / three ops, then greedy one-op deletion"""
    ops = list(c["ops"])
    hist = c.get("history")

    def fails(cand, h=None):
        h = h if h is not None else hist
        cc = dict(c, ops=cand)
        real = exec_real(cand, h)
        resp = ctx.run_driver(DRIVER, cand)
        d = compare_case(cc, real, resp)
        return d is not None and d[1] == kind and not protocol_failure(d) and d[0] == len(cand) - 1

    def shrink_history(c2):
        """drop re-assignment steps one at a time while the record still reaches (dt, n) (make_record asserts
        that; a history that no longer does is a harness exception, i.e. not `fails`) and the op still fails"""
        nonlocal hist
        if hist is None:
            return c2
        steps = list(hist["steps"])
        i = len(steps) - 1
        while i >= 0 and len(steps) > 1:
            cand = dict(hist, steps=steps[:i] + steps[i + 1:])
            if fails(c2["ops"], cand):
                steps = cand["steps"]
                hist = cand
            i -= 1
        return dict(c2, history=hist)

    for k in (1, 2, 3):
        if len(ops) > k + 1:
            cand = ops[:1] + ops[-k:]
            if fails(cand):
                return shrink_history(dict(c, ops=cand))
    tries = 0
    changed = True
    while changed and tries < max_tries:
        changed = False
        for i in range(len(ops) - 2, 0, -1):
            cand = ops[:i] + ops[i + 1:]
            tries += 1
            if tries > max_tries:
                break
            if fails(cand):
                ops = cand
                changed = True
    return shrink_history(dict(c, ops=ops))


def run_cases(ctx, cases, ex: Exploration, max_findings=4, do_shrink=True):
    flat = [l for c in cases for l in c["ops"]]
    reals = [exec_real(c["ops"], c.get("history")) for c in cases]
    resp = ctx.run_driver(DRIVER, flat)
    pos = 0
    nfound = 0
    per_stream = {}
    for c, real in zip(cases, reals):
        r = resp[pos:pos + len(c["ops"])]
        pos += len(c["ops"])
        ex.evaluations += len(c["ops"])
        ex.traces_validated += 1
        st = per_stream.setdefault(c["stream"], {"cases": 0, "ops": 0, "disagreements": 0})
        st["cases"] += 1
        st["ops"] += len(c["ops"])
        for l, (rm, rs) in zip(c["ops"], real):
            t = l.split()
            ex.count("ops", t[0])
            if t[0] in ("selS", "selT"):
                ex.count("interp", t[1])
            if t[0] in ("insS", "insT"):
                ex.count("extrap", t[1])
                ex.count("insert_path", t[0] + ("-inplace" if t[7] == "T" else "-outofplace"))
            if rm.startswith("err"):
                ex.count("errors", rm.split()[1] + ":" + t[0])
        ex.count("recordsz", c["ops"][0].split()[2])
        ex.count("reached_by", c["history"]["kind"] if c.get("history") else "construction")
        ex.count("dt", str(float(num_p(c["ops"][0].split()[1], c["ops"][0].split()[6]))))
        if any(not rm.startswith(("err", "ok", "harness")) for (rm, _), l in zip(real, c["ops"]) if not l.startswith(("begin", "dump"))) \
                or any(l.startswith("ins") and rm == "ok" for (rm, _), l in zip(real, c["ops"])):
            ex.nontriv(tuple(c["ops"]) if not c.get("history") else (tuple(c["ops"]), repr(c["history"])))
        d = compare_case(c, real, r)
        if d is None:
            continue
        if protocol_failure(d):
            raise RuntimeError(f"harness/driver protocol failure on {c['ops'][:d[0] + 1]}: {d}")
        st["disagreements"] += 1
        nfound += 1
        if nfound > max_findings:
            continue
        small = dict(c, ops=c["ops"][: d[0] + 1])
        if do_shrink:
            small = shrink(ctx, small, d[1])
        real2 = exec_real(small["ops"], small.get("history"))
        resp2 = ctx.run_driver(DRIVER, small["ops"])
        d2 = compare_case(small, real2, resp2) or d
        ex.findings.append(Finding(
            kind=d2[1], key=key_of(small, d2),
            what=f"op `{small['ops'][d2[0]]}`: expected `{d2[2]}` observed `{d2[3]}`"
                 + (f" (record created with dt, duration, inclusive = {small['history']['create']}, then re-assigned: "
                    f"{small['history']['steps']})" if small.get("history") else ""),
            case={"ops": small["ops"], "rtol": small["rtol"], "stream": small["stream"], "index": d2[0],
                  "expected": d2[2], "observed": d2[3],
                  **({"history": small["history"],
                      "history_meaning": "the record was created with create=[dt, duration, inclusive] and then its public "
                                         "attributes were re-assigned in the order of `steps` (push k = k pushes) before the "
                                         "storage was filled; the `begin` line gives the resulting dt and record size"}
                     if small.get("history") else {}),
                  "disagreement": "code vs specification" if d2[1] == "spec" else "code vs code-shaped model"}))
    return per_stream


# ---------------------------------------------------------------------------------------------
# relational checks on the real code alone

def _kw(name, c):
    return {KW[name]: c} if name in KW else None


def close_t(a: torch.Tensor, b_: torch.Tensor, rtol: float) -> bool:
    if a.shape != b_.shape:
        return False
    if rtol == 0:
        return bool(torch.equal(a, b_))
    return bool(torch.all((a - b_).abs() <= rtol * torch.maximum(torch.ones_like(a), torch.maximum(a.abs(), b_.abs()))))


def relational(ctx, ex: Exploration, count: int):
    """(a) select: scalar time == tensor time filled with it (with and without the time axis);
    (b) insert: scalar time (both write modes) == tensor time filled with it;
    (c) insert then select at the same time with a matching pair returns the inserted observation;
    (d) dyadic configurations: a time is accepted iff it lies in [-tol, dt*(N-1)+tol] (closed form, exact).
    Every other case runs on a record that reaches its (dt, N) by re-assignment of dt / duration / inclusive."""
    rng = ctx.rng
    stats = {"select_scalar_vs_tensor": 0, "insert_scalar_vs_tensor": 0, "round_trip": 0, "records_reached_by_reassignment": 0,
             "acceptance_vs_closed_form": 0}
    found = 0
    for c in range(count):
        dyadic = rng.random() < 0.8
        dt = rng.choice([0.25, 0.5, 1.0, 2.0]) if dyadic else rng.choice([0.3, 1.3])
        n = rng.choice([1, 2, 3, 4, 5, 8])
        ptr = rng.randrange(n)
        P = rng.choice([1, 2, 3])
        tol = rng.choice([0.0, 0.125, 0.0625]) if dyadic else 1e-6
        rows = [[rng.randint(-40, 40) / 8 or 0.5 for _ in range(P)] for _ in range(n)]
        if dyadic:
            times = [float(t) for t in sweep_times(dt, n, tol)]
            t = rng.choice(times)
        else:
            k = rng.randrange(n)
            t = k * dt if rng.random() < 0.4 or n == 1 else (rng.randrange(n - 1) + rng.choice([0.1, 0.25, 0.5, 0.75, 0.9])) * dt
        off = rng.choice([0, 1, -1, 2, n])
        const = rng.choice([0.5, 1.0, 2.0, 20.0])
        hist = random_history(rng, dt, n) if c % 2 else None      # every other case: (dt, n) reached by re-assignment
        if hist is not None and dyadic and n > 1 and rng.random() < 0.5:   # lean on the upper range limit
            hi_ = dt * (n - 1)
            t = hi_ + rng.choice([0.0, tol, tol + 1 / 64, -tol, -dt / 4, -dt / 2, dt / 4, dt / 2, dt, -1 / 64, 2 * dt])
        desc = {"n": n, "ptr": ptr, "dt": dt, "tol": tol, "rows": rows, "t": t, "offset": off, "const": const}
        if hist is not None:
            desc["history"] = hist
            stats["records_reached_by_reassignment"] += 1

        def report(rel, what, extra):
            nonlocal found
            found += 1
            if found <= 4:
                ex.findings.append(Finding(kind="spec", key=f"C02:relation:{rel}:{extra.get('kernel', '-')}", what=what,
                                           case={"relation": rel, **desc, **extra}))

        # (a)
        iname = rng.choice(list(INTERP))
        owner_a, rt = make_record(n, ptr, rows, dt, hist)
        try:
            rs = rt.select(t, INTERP[iname], tolerance=tol, offset=off, interp_kwargs=_kw(iname, const))
            es = None
        except ValueError:
            rs, es = None, "ValueError"
        for D in (0, 3):
            time = torch.full((P,) if D == 0 else (P, D), t, dtype=T64)
            try:
                rT = rt.select(time, INTERP[iname], tolerance=tol, offset=off, interp_kwargs=_kw(iname, const))
                eT = None
            except ValueError:
                rT, eT = None, "ValueError"
            ex.evaluations += 1
            stats["select_scalar_vs_tensor"] += 1
            ok = es == eT and (es is not None or close_t(rs.unsqueeze(-1).expand(P, D) if D else rs, rT, 0.0 if dyadic else 1e-12))
            if not ok:
                report("select_scalar_vs_tensor",
                       f"select({t}) scalar gives {es or rs.tolist()} but tensor time (D={D}) gives {eT or rT.tolist()} [{iname}]",
                       {"kernel": iname, "D": D})
        # closed form of the accepted range (exact for the dyadic configurations): a time is accepted iff it lies in
        # [-tol, dt*(N-1) + tol] for the record's CURRENT dt and N
        accept = (-Fraction(tol) <= Fraction(t) <= Fraction(dt) * (n - 1) + Fraction(tol)) if dyadic else None
        if accept is not None:
            ex.evaluations += 1
            stats["acceptance_vs_closed_form"] += 1
            if accept != (es is None):
                report("range_acceptance",
                       f"select({t}) with dt={dt}, N={n}, tolerance={tol} " + ("raised ValueError" if es else f"returned {rs.tolist()}")
                       + f" but the range [-tol, dt*(N-1)+tol] = [{-tol}, {dt * (n - 1) + tol}] " + ("contains" if accept else "does not contain") + " it",
                       {"kernel": iname, "call": "select"})
        # (b) + (c)
        ename, iname2 = rng.choice(PAIRS)
        obs = torch.tensor([rng.randint(-40, 40) / 8 or 0.25 for _ in range(P)], dtype=T64)
        kw = _kw(ename, const)
        results = []
        for path in ("S-in", "S-out", "T-in", "T-out"):
            owner, rt = make_record(n, ptr, rows, dt, hist)
            time = t if path[0] == "S" else torch.full((P,), t, dtype=T64)
            try:
                rt.insert(obs, time, EXTRAP[ename], tolerance=tol, offset=off, inplace=path.endswith("in"), extrap_kwargs=kw)
                results.append((path, rt.value.clone(), (owner, rt)))
            except ValueError:
                results.append((path, "ValueError", (owner, rt)))
        ex.evaluations += 4
        stats["insert_scalar_vs_tensor"] += 1
        v0 = results[0][1]
        if accept is not None:
            ex.evaluations += 1
            stats["acceptance_vs_closed_form"] += 1
            if accept != (not isinstance(v0, str)):
                report("range_acceptance",
                       f"insert at {t} with dt={dt}, N={n}, tolerance={tol} " + ("raised ValueError" if isinstance(v0, str) else "was accepted")
                       + f" but the range [-tol, dt*(N-1)+tol] = [{-tol}, {dt * (n - 1) + tol}] " + ("contains" if accept else "does not contain") + " it",
                       {"kernel": ename, "call": "insert", "obs": obs.tolist()})
        for path, v, _ in results[1:]:
            same = (isinstance(v0, str) and v == v0) or (not isinstance(v0, str) and not isinstance(v, str)
                                                          and close_t(v0, v, 0.0 if dyadic and ename not in INEXACT_EXTRAP else 1e-12))
            if not same:
                report("insert_scalar_vs_tensor",
                       f"insert at {t} [{ename}]: path S-in leaves {v0 if isinstance(v0, str) else v0.tolist()} but path {path} leaves {v if isinstance(v, str) else v.tolist()}",
                       {"kernel": ename, "path": path, "obs": obs.tolist()})
                break
        if not isinstance(v0, str):
            exact_pair = ename in ("previous", "next", "nearest", "neighbors") and iname2 != "linear"
            for path, v, (_owner, rt) in results:
                if isinstance(v, str):
                    continue
                for tens in (False, True):
                    time = torch.full((P,), t, dtype=T64) if tens else t
                    try:
                        got = rt.select(time, INTERP[iname2], tolerance=tol, offset=off, interp_kwargs=_kw(iname2, const))
                    except ValueError:
                        got = torch.full((P,), float("nan"), dtype=T64)   # insert accepted the time, select rejects it
                    ex.evaluations += 1
                    stats["round_trip"] += 1
                    if not close_t(got, obs, 0.0 if exact_pair and dyadic else 1e-9):
                        report("round_trip",
                               f"insert({obs.tolist()}, t={t}, {ename}, path {path}) then select(t, {iname2}, {'tensor' if tens else 'scalar'}) returns {got.tolist()}",
                               {"kernel": f"{ename}/{iname2}", "path": path, "obs": obs.tolist(), "tensor_select": tens})
                        break
        ex.nontriv(("rel", c, n, ptr, dt, t))
    ex.extra["relational_checks_on_real_code"] = stats


SELECTING_INTERP = ["previous", "next", "nearest"]
SELECTING_EXTRAP = ["previous", "next", "nearest", "neighbors"]


def make_record_dtype(n, ptr, rows, dt, dtype, history=None):
    """as `make_record`, storage of another dtype (integer-valued rows), via public calls"""
    P = len(rows[0])
    owner = inferno.Module()
    if history is None:
        RecordTensor.create(owner, "rec", float(dt), max(float(dt) * (n - 1.5), 0.0), torch.zeros(P, dtype=dtype), inclusive=True)
        rt = owner.rec
    else:
        dt0, dur0, incl0 = history["create"]
        RecordTensor.create(owner, "rec", float(dt0), float(dur0), torch.zeros(P, dtype=dtype), inclusive=bool(incl0))
        rt = owner.rec
        for attr, v in history["steps"]:
            if attr == "push":
                for j in range(int(v)):
                    rt.push(torch.ones(P, dtype=dtype))
            else:
                setattr(rt, attr, float(v) if attr != "inclusive" else bool(v))
    assert rt.recordsz == n and rt.dt == float(dt) and rt.value.dtype == dtype, (rt.recordsz, n, rt.dt, dt, rt.value.dtype)
    if (ptr - rt.pointer) % n:
        rt.incr((ptr - rt.pointer) % n)
    for i in range(n):
        rt.write(torch.tensor(rows[i], dtype=dtype), offset=(ptr - i) % n, inplace=True)
    assert rt.pointer == ptr and torch.equal(rt.value, torch.tensor(rows, dtype=dtype))
    return owner, rt


def dtype_twins(ctx, ex: Exploration, count: int):
    """Which samples are hit and what is interpolated from them does not depend on the storage dtype: a record with
    integer (int64 / int32: spike counts) or boolean (spikes) storage and a float64 twin holding the same numbers
    (the twin is what the specification streams judge) are driven with the same select / insert calls.
    select: every kernel on integer storage (result compared by value, 1e-6 relative: the default float dtype is
    float32), the three sample-selecting kernels on boolean storage; insert: the sample-selecting extrapolations
    (they write the observation itself), storage compared by value afterwards."""
    rng = ctx.rng
    stats = {"select": 0, "insert": 0, "by_dtype": {}}
    found = 0
    for c in range(count):
        dtype = rng.choice([torch.int64, torch.int32, torch.int64, torch.bool])
        dt = rng.choice([0.25, 0.5, 1.0, 2.0])
        n = rng.choice([2, 3, 4, 5, 8])
        ptr = rng.randrange(n)
        P = rng.choice([1, 2, 3])
        tol = rng.choice([0.0, 0.125, 0.0625, 1e-6])
        if dtype == torch.bool:
            rows = [[float(rng.random() < 0.5) for _ in range(P)] for _ in range(n)]
        else:
            rows = [[float(rng.randint(-40, 40)) for _ in range(P)] for _ in range(n)]
        times = [float(t) for t in sweep_times(dt, n, tol if tol != 1e-6 else 0.0)]
        off = rng.choice([0, 1, -1, 2, n])
        const = rng.choice([0.5, 1.0, 2.0, 20.0])
        hist = random_history(rng, dt, n) if c % 3 == 0 else None
        sd = str(dtype).replace("torch.", "")
        stats["by_dtype"][sd] = stats["by_dtype"].get(sd, 0) + 1
        desc = {"storage_dtype": sd, "n": n, "ptr": ptr, "dt": dt, "tol": tol, "rows": rows, "offset": off, "const": const}
        if hist is not None:
            desc["history"] = hist

        def report(rel, what, extra):
            nonlocal found
            found += 1
            if found <= 3:
                ex.findings.append(Finding(kind="spec", key=f"C02:relation:{rel}:{extra.get('kernel', '-')}", what=what,
                                           case={"relation": rel, **desc, **extra}))

        def attempt(fn):
            try:
                return fn(), None
            except (ValueError, RuntimeError, TypeError, IndexError, NotImplementedError) as e:
                return None, type(e).__name__

        _of, rf = make_record(n, ptr, rows, dt, hist)
        _oi, ri = make_record_dtype(n, ptr, rows, dt, dtype, hist)
        for _ in range(4):
            t = rng.choice(times)
            iname = rng.choice(SELECTING_INTERP if dtype == torch.bool else list(INTERP))
            for tens in (False, True):
                time = torch.full((P,), t, dtype=T64) if tens else t
                vf, ef = attempt(lambda: rf.select(time, INTERP[iname], tolerance=tol, offset=off, interp_kwargs=_kw(iname, const)))
                vi, ei = attempt(lambda: ri.select(time, INTERP[iname], tolerance=tol, offset=off, interp_kwargs=_kw(iname, const)))
                ex.evaluations += 1
                stats["select"] += 1
                if ef != ei or (ef is None and not close_t(vi.to(T64), vf, 1e-6)):
                    report("storage_dtype_select",
                           f"select({t}, {iname}, {'tensor' if tens else 'scalar'} time) on {sd} storage gives {ei or vi.tolist()} "
                           f"but {ef or vf.tolist()} on the float64 twin holding the same numbers",
                           {"kernel": iname, "t": t, "tensor_time": tens})
        ename = rng.choice(SELECTING_EXTRAP)
        t = rng.choice(times)
        obs = [float(rng.random() < 0.5) if dtype == torch.bool else float(rng.randint(-40, 40)) for _ in range(P)]
        for tens in (False, True):
            for ip in (True, False):
                _of, rf = make_record(n, ptr, rows, dt, hist)
                _oi, ri = make_record_dtype(n, ptr, rows, dt, dtype, hist)
                time = torch.full((P,), t, dtype=T64) if tens else t
                _, ef = attempt(lambda: rf.insert(torch.tensor(obs, dtype=T64), time, EXTRAP[ename], tolerance=tol, offset=off, inplace=ip))
                _, ei = attempt(lambda: ri.insert(torch.tensor(obs, dtype=dtype), time, EXTRAP[ename], tolerance=tol, offset=off, inplace=ip))
                ex.evaluations += 1
                stats["insert"] += 1
                if ef != ei or not close_t(ri.value.to(T64), rf.value, 0.0) or ri.pointer != rf.pointer:
                    report("storage_dtype_insert",
                           f"insert({obs}, t={t}, {ename}, {'tensor' if tens else 'scalar'} time, inplace={ip}) on {sd} storage: "
                           f"{ei or ri.value.tolist()} but {ef or rf.value.tolist()} on the float64 twin",
                           {"kernel": ename, "t": t, "tensor_time": tens, "inplace": ip, "obs": obs})
        ex.nontriv(("dtype", c, sd, n, ptr, dt))
    ex.extra["storage_dtype_twins"] = stats


FLOAT_STORAGE = [torch.float16, torch.bfloat16, torch.float32]


def fine_times(rng, dt, n, tol, count):
    """times that miss the tolerance band of a grid point by a hair: k*dt +- (tol + 2^-j), j = 7..16 (all exact in
    float64 for dyadic tol; far above float64 resolution for tol = 1e-6) — off the grid by MORE than the tolerance,
    yet by less than the resolution of a reduced-precision float at the magnitude of the later grid points"""
    out = []
    hi = dt * (n - 1)
    for _ in range(count):
        k = rng.randrange(n)
        s = rng.choice([-1, 1])
        outside = rng.random() < 0.12            # a hair beyond a range limit: must be rejected
        if k == 0:
            s = -1 if outside else 1
        elif k == n - 1:
            s = 1 if outside else -1
        t = dt * k + s * (tol + 2.0 ** -rng.randint(7, 16))
        if outside or -tol <= t <= hi + tol:
            out.append(t)
    return out


def float_storage_twins(ctx, ex: Exploration, count: int):
    """Which samples are hit does not depend on the floating point type the observations are STORED in: the time of a
    select / insert call is the caller's number (a Python float, a float64 or float32 time tensor) and is judged
    against the grid as such.  A record with float16 / bfloat16 / float32 storage holding integers (exact in all of
    them) and a float64 twin holding the same numbers are driven with the same calls: scalar times and PER-ELEMENT
    time tensors (with and without the trailing time axis; float64, or float32 when every time is exact in float32),
    times from the sweep plus times that miss the tolerance band of a grid point by 2^-7 .. 2^-16 on records of up to
    33 samples (so that the miss is below the storage type's resolution at that time).  Sample-selecting kernels are
    compared exactly; the arithmetic kernels to the storage type's resolution (4 eps (1 + max |stored|)), their
    result may be computed in the storage type.  Inserts: the sample-selecting extrapolations, storage compared exactly."""
    rng = ctx.rng
    stats = {"select": 0, "insert": 0, "by_dtype": {}, "fine_off_grid_times": 0, "float32_time_tensors": 0}
    found = 0
    for c in range(count):
        dtype = FLOAT_STORAGE[c % 3]
        dt = rng.choice([0.25, 0.5, 1.0, 2.0])
        n = rng.choice([2, 3, 5, 8, 12, 17, 24, 33])
        ptr = rng.randrange(n)
        P = rng.choice([1, 2, 3])
        tol = rng.choice([0.0, 0.125, 0.0625, 1e-6, 1e-6])
        rows = [[float(rng.randint(-40, 40)) for _ in range(P)] for _ in range(n)]
        top = 1.0 + max(abs(v) for r in rows for v in r)
        coarse = [float(t) for t in sweep_times(dt, min(n, 6), tol if tol != 1e-6 else 0.0)]
        coarse = [t for t in coarse if -tol <= t <= dt * (n - 1) + tol] + [dt * (n - 1), dt * (n - 1) + tol]
        fine = fine_times(rng, dt, n, tol, 24)
        stats["fine_off_grid_times"] += len(fine)
        off = rng.choice([0, 1, -1, 2, n])
        const = rng.choice([0.5, 1.0, 2.0, 20.0])
        hist = random_history(rng, dt, n) if c % 4 == 3 else None
        sd = str(dtype).replace("torch.", "")
        stats["by_dtype"][sd] = stats["by_dtype"].get(sd, 0) + 1
        desc = {"storage_dtype": sd, "n": n, "ptr": ptr, "dt": dt, "tol": tol, "rows": rows, "offset": off, "const": const}
        if hist is not None:
            desc["history"] = hist
        eps = torch.finfo(dtype).eps

        def report(rel, what, extra):
            nonlocal found
            found += 1
            if found <= 3:
                ex.findings.append(Finding(kind="spec", key=f"C02:relation:{rel}:{extra.get('kernel', '-')}", what=what,
                                           case={"relation": rel, **desc, **extra}))

        def attempt(fn):
            try:
                return fn(), None
            except Exception as e:  # noqa: BLE001 — an exception where the twin has a value is a finding, not a harness error
                return None, type(e).__name__

        def pick():
            return rng.choice(fine) if fine and rng.random() < 0.7 else rng.choice(coarse)

        def same(vi, vf, iname):
            if vi.shape != vf.shape:
                return False
            if iname in SELECTING_INTERP:
                return close_t(vi.to(T64), vf, 0.0)
            return bool(torch.all((vi.to(T64) - vf).abs() <= 4 * eps * top))

        _of, rf = make_record(n, ptr, rows, dt, hist)
        _oi, ri = make_record_dtype(n, ptr, rows, dt, dtype, hist)
        for q in range(6):
            iname = rng.choice(SELECTING_INTERP + SELECTING_INTERP + list(INTERP))
            kw = _kw(iname, const)
            D = rng.choice([None, 0, 0, 2, 3])           # None = scalar time
            if D is None:
                ts = [pick()]
                time_f = time_i = ts[0]
                tdesc = "scalar"
            else:
                ts = [pick() for _ in range(P * max(D, 1))]
                shape = (P,) if D == 0 else (P, D)
                time_f = torch.tensor(ts, dtype=T64).reshape(shape)
                tdt = T64
                if rng.random() < 0.5 and torch.equal(time_f.to(torch.float32).to(T64), time_f):
                    tdt = torch.float32
                    stats["float32_time_tensors"] += 1
                time_i = time_f.to(tdt)
                tdesc = f"{str(tdt).replace('torch.', '')} tensor of shape {list(shape)}"
            vf, ef = attempt(lambda: rf.select(time_f, INTERP[iname], tolerance=tol, offset=off, interp_kwargs=kw))
            vi, ei = attempt(lambda: ri.select(time_i, INTERP[iname], tolerance=tol, offset=off, interp_kwargs=kw))
            ex.evaluations += 1
            stats["select"] += 1
            if ef != ei or (ef is None and not same(vi, vf, iname)):
                if D is not None and found < 3:          # shrink: one time, repeated, no trailing axis
                    for t1 in dict.fromkeys(ts):
                        tf1 = torch.full((P,), t1, dtype=T64)
                        ti1 = tf1.to(time_i.dtype)
                        vf1, ef1 = attempt(lambda: rf.select(tf1, INTERP[iname], tolerance=tol, offset=off, interp_kwargs=kw))
                        vi1, ei1 = attempt(lambda: ri.select(ti1, INTERP[iname], tolerance=tol, offset=off, interp_kwargs=kw))
                        if ef1 != ei1 or (ef1 is None and not same(vi1, vf1, iname)):
                            ts, D, vf, ef, vi, ei = [t1] * P, 0, vf1, ef1, vi1, ei1
                            tdesc = f"{str(time_i.dtype).replace('torch.', '')} tensor of shape {[P]}"
                            break
                report("float_storage_select",
                       f"select(times {ts} as {tdesc}, {iname}, tolerance={tol}, offset={off}) on {sd} storage (dt={dt}, N={n}) gives "
                       f"{ei or vi.reshape(-1).tolist()} but {ef or vf.reshape(-1).tolist()} on the float64 twin holding the same numbers",
                       {"kernel": iname, "times": ts, "time": tdesc, "D": D,
                        "expected": ef or vf.reshape(-1).tolist(), "observed": ei or vi.reshape(-1).tolist()})
        ename = rng.choice(SELECTING_EXTRAP)
        obs = [float(rng.randint(-40, 40)) for _ in range(P)]
        for tens in (False, True):
            ts = [pick() for _ in range(P if tens else 1)]
            ip = rng.random() < 0.5
            _of, rf = make_record(n, ptr, rows, dt, hist)
            _oi, ri = make_record_dtype(n, ptr, rows, dt, dtype, hist)
            time = torch.tensor(ts, dtype=T64) if tens else ts[0]
            _, ef = attempt(lambda: rf.insert(torch.tensor(obs, dtype=T64), time, EXTRAP[ename], tolerance=tol, offset=off, inplace=ip))
            _, ei = attempt(lambda: ri.insert(torch.tensor(obs, dtype=dtype), time, EXTRAP[ename], tolerance=tol, offset=off, inplace=ip))
            ex.evaluations += 1
            stats["insert"] += 1
            if ef != ei or not close_t(ri.value.to(T64), rf.value, 0.0) or ri.pointer != rf.pointer:
                report("float_storage_insert",
                       f"insert({obs}, times {ts} as {'float64 tensor' if tens else 'scalar'}, {ename}, tolerance={tol}, offset={off}, inplace={ip}) "
                       f"on {sd} storage (dt={dt}, N={n}): {ei or ri.value.tolist()} but {ef or rf.value.tolist()} on the float64 twin",
                       {"kernel": ename, "times": ts, "tensor_time": tens, "inplace": ip, "obs": obs,
                        "expected": ef or rf.value.tolist(), "observed": ei or ri.value.tolist()})
        ex.nontriv(("fstore", c, sd, n, ptr, dt))
    ex.extra["float_storage_twins"] = stats


def nondyadic_probe(ctx, ex):
    """information only (partial (float)): (i) nominal grid points reached by ACCUMULATING dt (t += dt) with
    tolerance 0 for non-dyadic dt — how many does the real code treat as off-grid (interpolation invoked)?
    (ii) nearest/nearest round trip at the bracket midpoint +- a few ulps (the one kernel decision that
    exact arithmetic settles by a tie rule)"""
    calls = []

    def probe(p, n_, s, d):
        calls.append(1)
        return p

    total = off = 0
    for dt in (0.3, 1.3, 0.1):
        n = 12
        owner, rt = make_record(n, 0, [[float(i)] for i in range(n)], dt)
        t = 0.0
        for k in range(n):
            calls.clear()
            try:
                rt.select(t, probe, tolerance=0.0, offset=1)
            except ValueError:
                calls.append(1)
            total += 1
            off += bool(calls)
            t += dt
    mid_total = mid_bad = 0
    for dt in (0.3, 1.3, 0.1, 0.7):
        n = 5
        for k in range(n - 1):
            t0 = (k + 0.5) * dt
            for d in range(-3, 4):
                tt = t0
                for _ in range(abs(d)):
                    tt = math.nextafter(tt, math.inf if d > 0 else -math.inf)
                owner, rt = make_record(n, 0, [[float(10 + i)] for i in range(n)], dt)
                obs = torch.tensor([99.0], dtype=T64)
                rt.insert(obs, tt, IF.extrap_nearest, tolerance=1e-6, offset=0, inplace=True)
                got = rt.select(tt, IF.interp_nearest, tolerance=1e-6, offset=0)
                mid_total += 1
                mid_bad += got.item() != 99.0
    ex.evaluations += total + mid_total
    return {"accumulated_grid_points": total, "treated_off_grid_or_rejected_with_tolerance_0": off,
            "nearest_midpoint_round_trips": mid_total, "nearest_midpoint_round_trip_failures": mid_bad,
            "note": "with the default tolerance 1e-6 every accumulated grid point is on the grid; informational, not judged"}


# ---------------------------------------------------------------------------------------------

def explore(ctx) -> Exploration:
    ex = Exploration()
    rng = ctx.rng
    thorough = ctx.tier == "thorough" or ctx.intensify
    transval.validate(ctx, SPEC["translate"], ex, per_fn=60 if not thorough else 300)
    cases = corpus_cases()
    ncorpus = len(cases)
    sweep = select_sweep_cases(rng, 5 if not thorough else 8)
    ins = insert_cases(rng, 5 if not thorough else 7, 8 if not thorough else 20)
    flt = float_cases(rng, 300 if not thorough else 4000)
    rnd = random_cases(rng, 300 if not thorough else 5000) + random_cases(rng, 30 if not thorough else 400, big=True)
    nd = nondyadic_cases(rng, 100 if not thorough else 1500)
    rec = attach_histories(rng, limit_probe_cases(rng, 5 if not thorough else 8)
                           + select_sweep_cases(rng, 3 if not thorough else 5)
                           + insert_cases(rng, 4 if not thorough else 6, 3 if not thorough else 8)
                           + float_cases(rng, 60 if not thorough else 800)
                           + random_cases(rng, 150 if not thorough else 2500)
                           + random_cases(rng, 10 if not thorough else 150, big=True)
                           + nondyadic_cases(rng, 40 if not thorough else 600))
    cases += sweep + ins + flt + rnd + nd + rec
    per_stream = run_cases(ctx, cases, ex)
    relational(ctx, ex, 400 if not thorough else 8000)
    dtype_twins(ctx, ex, 150 if not thorough else 2500)
    float_storage_twins(ctx, ex, 240 if not thorough else 3000)
    ex.extra["streams"] = per_stream
    ex.extra["non_dyadic"] = {"label": "partial (float)", **per_stream.get("non_dyadic", {}),
                              "judged_with": "tolerance 1e-6 (the property's), values to 1e-9 relative",
                              "probe": nondyadic_probe(ctx, ex)}
    ex.rule = ("cases = corpus + exhaustive sweep (every dyadic dt in {1/4,1/2,1,2}, every n <= %d, every pointer, tolerances 0, 1/16, 1/8; "
               "times on the grid, quarter steps off it, 0, dt(n-1), +-tol around every grid point and both range limits, +-1/64 beyond; "
               "every rational interpolation, scalar time and tensor time with and without the trailing time axis) + insert sweep "
               "(every rational extrapolation, scalar in-place/out-of-place and tensor paths, followed by dump = value + every read(k), and a "
               "select at the same time) + float-mode sequences with the exp kernels + seeded random sequences (n up to 8 and 14..20, "
               "offsets in [-2n,2n], tolerances up to 1, 15%% out-of-range times) + a non-dyadic dt stream + a `reconfigured` stream (a probe of both "
               "range limits for every dyadic dt and n, and smaller editions of all the streams above, run on records that REACH the dt and "
               "record size of their `begin` line by re-assignment of dt / duration / inclusive after construction — one attribute only, all "
               "three with a chosen one last, random order, random intermediate values, pushes in between — judged by the same specification "
               "of the resulting dt and N); plus relational checks on the real "
               "code (scalar vs tensor select/insert, insert-select round trip, acceptance against the closed-form range, half of them on re-assigned "
               "records; int64/int32/bool storage against a float64 twin; float16/bfloat16/float32 storage against a float64 twin "
               "with scalar times and per-element float64/float32 time tensors that miss the tolerance band of a grid point by 2^-7..2^-16 "
               "on records of up to 33 samples). A case is non-trivial when some select returned values "
               "or some insert succeeded on the real object; distinct = distinct protocol text" % (5 if not thorough else 8))
    ex.samples = [sweep[5]["ops"][:6], ins[3]["ops"], flt[0]["ops"][:5], nd[0]["ops"][:4],
                  {"history": rec[0]["history"], "ops": rec[0]["ops"][:5]}]
    ex.extra["stream_sizes"] = {"corpus": ncorpus, "select_sweep": len(sweep), "insert_sweep": len(ins), "float_dyadic": len(flt),
                                "random_sequences": len(rnd), "non_dyadic": len(nd), "reconfigured": len(rec)}
    return ex


def replay(ctx, data) -> int:
    fi = data.get("failing_input", data)
    if fi.get("relation"):
        print("relational finding on the real code:", fi)
        ex = Exploration()
        return 1
    ops = fi.get("ops")
    if not ops:
        print("replay file has no op sequence (proof/tie breakage without failing input):", data.get("broken"))
        return 1
    c = case(ops, fi.get("rtol", 0.0), fi.get("stream", "replay"))
    if fi.get("history"):
        c["history"] = fi["history"]
        print("record reached by:", fi["history"])
    real = exec_real(ops, fi.get("history"))
    resp = ctx.run_driver(DRIVER, ops)
    for l, r, d in zip(ops, real, resp):
        print(f"{l}\n    real: M {r[0]} || S {r[1]}\n    lean: {d}")
    d = compare_case(c, real, resp)
    print("DISAGREEMENT" if d else "agrees", d or "")
    return 1 if d else 0
