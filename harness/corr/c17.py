"""C17 — correspondence + relational search for layers (Serial / Biclique / RecurrentSerial) and clear().

Three checks per generated scenario, all on REAL layers built from real connections, synapses and
neurons:

(a) driver: the real run is recorded component by component (forward hooks: what every connection /
    neuron group received and returned; wrapped `clear`: when it was cleared) and handed to
    `lean/drivers/C17.lean` as tapes; the Lean layer model (code shaped) and the Lean specification
    are run on those tapes and must (i) hand every component exactly the input the real component
    got, (ii) clear it exactly when the real one was cleared, (iii) return the layer outputs the real
    layer returned.  Wiring arithmetic is exact: connection outputs are integer valued (integer
    weights, delta synapses), float64 everywhere.
(b) manual composition: an identically built twin set of components is called by hand in the
    documented order; outputs must be bit-identical to the layer's.
(c) clear / replay: after p steps (every p), with learned parameters changed in between, `clear()`
    must succeed, leave parameters and adaptations untouched, put every dynamic state where a
    freshly built twin carrying the same parameters has it, and replaying the inputs must give the
    twin's outputs step by step.
"""
from __future__ import annotations

import copy
import json
import math

import torch

import inferno  # noqa: F401
from inferno.extra import ExactNeuron
from inferno.neural import (ALIF, LIF, Biclique, DeltaCurrent, DeltaPlusCurrent, LinearDense, LinearDirect,
                            LinearLateral, RecurrentSerial, Serial)

from runner import Exploration, Finding
import seqcheck

torch.set_default_dtype(torch.float64)

SPEC = {
    "prop": "C17",
    "lean_targets": ["InfernoVerif.Props.C17", "InfernoVerif.Props.C17b", "InfernoVerif.Props.C17GlueProg", "InfernoVerif.Props.C17Run"],
    "translate": ["LayerProg"],
    "driver_targets": ["InfernoVerif.Model.Layer", "InfernoVerif.Drv.Proto"],
    "prop_files": ["InfernoVerif/Props/C17.lean", "InfernoVerif/Props/C17b.lean", "InfernoVerif/Props/C17GlueProg.lean", "InfernoVerif/Props/C17Run.lean"],
    "lemma_files": ["InfernoVerif/Lemmas/Layer.lean", "InfernoVerif/Lemmas/LayerInst.lean"],
    "model_files": ["InfernoVerif/Model/Layer.lean"],
    "driver": "drivers/C17.lean",
    "assumptions": [
        "components are abstract in the theorems (any state type / step function); two component contracts are hypotheses: "
        "`neuron.spike` read after a call equals that call's output (C03; neurons with refrac_t >= dt are generated, refrac_t = 0 "
        "is the known finding D4), and each component's own clear() behaves like a fresh twin (checked on the real components by (c))",
        "no connection_kwargs / neuron_kwargs / extra wiring kwargs are passed; trainable_feedback cells are built but not trained",
        "component names are distinct (ModuleDict keys); Biclique inputs name every connection or a non-empty subset of them (in any "
        "order for the commutative built-in modes, in registration order for the order-sensitive custom callable); a step that "
        "drives a subset is judged against the specification of the biclique layer of exactly the driven connections (the Lean "
        "driver is started anew, on the continuing component tapes, whenever the driven set changes); an empty inputs dictionary "
        "is not generated",
        "RecurrentSerial.clear(submodules=False) and a neuron group called directly while no feedback is stored are presented to the "
        "driver as the start of a new run on the continuing component tapes (stored feedback = none, components as they are); "
        "clear(clear_feedback=False) is not generated",
        "integer-valued connection outputs and float64 tensors so that sum/mean/prod/min/max and transforms are exact; "
        "mean inputs are multiples of 12 so the mean is integral",
        "tensors are immutable values in the Lean model: a transform named `x_` is the same function of values as `x`. Sharing of "
        "tensor OBJECTS between consumers (an in-place user transform on a tensor the layer hands to several places) is covered by "
        "the harness only: real in-place transforms (Tensor.mul_/add_/clamp_/neg_) are generated on the Serial transform, on Biclique "
        "post-input and pre-output transforms (per connection / per group, >= 2 groups, every combine mode) and on the three "
        "RecurrentSerial out-transforms, and judged against the specification evaluated on fresh values; the RecurrentSerial "
        "in-transforms act on spike tensors (bool) and are generated out-of-place only",
        "device CPU",
    ],
}
DRIVER = "drivers/C17.lean"
DT = torch.float64


# ---------------------------------------------------------------------------------------------
# formatting

def shp_s(shape):
    return "s" if len(shape) == 0 else "x".join(str(int(x)) for x in shape)


def ten_s(t):
    t = t.detach()
    out = []
    for v in t.to(torch.float64).reshape(-1).tolist():
        if v != v:
            out.append("?")
        elif float(v).is_integer():
            out.append(str(int(v)))
        else:
            out.append(repr(v))
    return shp_s(t.shape) + ":" + ",".join(out)


def tens_s(ts):
    return ";".join(ten_s(t) for t in ts) if len(ts) else "-"


TRANS = {
    "id": lambda x: x,
    "neg": lambda x: -x.to(DT),
    "inv": lambda x: 1 - x.to(DT),
    "relu": lambda x: x.to(DT).clamp_min(0),
}


INPLACE = {
    "neg_": lambda x: x.neg_(),
    "relu_": lambda x: x.clamp_(min=0),
    "clamp01_": lambda x: x.clamp_(0, 1),
}
TRANS["clamp01"] = lambda x: x.to(DT).clamp(0, 1)


def is_inplace(name):
    return name.endswith("_")


def pure_name(name):
    return name[:-1] if is_inplace(name) else name


def trans_py(name):
    """the callable handed to the real layer; names ending in `_` mutate their argument in place and return it"""
    if name in TRANS:
        return TRANS[name]
    if name in INPLACE:
        return INPLACE[name]
    if name.startswith("scale") and is_inplace(name):
        k = int(name[5:-1])
        return lambda x, k=k: x.mul_(k)
    if name.startswith("add") and is_inplace(name):
        c = int(name[3:-1])
        return lambda x, c=c: x.add_(c)
    if name.startswith("scale"):
        k = int(name[5:])
        return lambda x, k=k: k * x.to(DT)
    if name.startswith("add"):
        c = int(name[3:])
        return lambda x, c=c: x.to(DT) + c
    raise AssertionError(name)


def custom_combine(tensors, **kwargs):
    return sum((j + 1) * t for j, t in enumerate(tensors.values()))


# ---------------------------------------------------------------------------------------------
# building real layers from a scenario

def make_conn(c, B, dt):
    syn = (DeltaCurrent if c["syn"] == "delta" else DeltaPlusCurrent).partialconstructor(float(c["q"]) * dt)
    delay = None if c["delay"] is None else c["delay"] * dt
    if c["type"] == "dense":
        conn = LinearDense(tuple(c["in"]), tuple(c["out"]), dt, synapse=syn, bias=c["bias"], delay=delay, batch_size=B)
    elif c["type"] == "direct":
        conn = LinearDirect(tuple(c["in"]), dt, synapse=syn, bias=c["bias"], delay=delay, batch_size=B)
    else:
        conn = LinearLateral(tuple(c["in"]), dt, synapse=syn, bias=c["bias"], delay=delay, batch_size=B)
    set_params(conn, c["w"], c.get("b"), c.get("d"), dt)
    return conn


def set_params(conn, w, b, d, dt):
    conn.weight = torch.tensor(w, dtype=DT).reshape(conn.weight.shape)
    if conn.bias is not None and b is not None:
        conn.bias = torch.tensor(b, dtype=DT).reshape(conn.bias.shape)
    if conn.delay is not None and d is not None:
        conn.delay = torch.tensor(d, dtype=DT).reshape(conn.delay.shape) * dt


def make_neuron(n, B, dt):
    if n["type"] == "LIF":
        return LIF(tuple(n["shape"]), dt, rest_v=-60.0, reset_v=-65.0, thresh_v=-57.0, refrac_t=n["refrac"] * dt,
                   time_constant=n["tc"], resistance=n["R"], batch_size=B)
    if n["type"] == "ALIF":
        m = ALIF(tuple(n["shape"]), dt, rest_v=-60.0, reset_v=-65.0, thresh_eq_v=-57.0, refrac_t=n["refrac"] * dt,
                 tc_membrane=n["tc"], tc_adaptation=(8.0, 16.0), spike_increment=(1.0, 0.5), resistance=n["R"], batch_size=B)
        m.train()
        return m
    if n["type"] == "Exact":
        return ExactNeuron(tuple(n["shape"]), dt, rest_v=-60.0, thresh_v=-50.0, batch_size=B)
    raise AssertionError(n)


def build(sc):
    B, dt = sc["B"], sc["dt"]
    conns = [make_conn(c, B, dt) for c in sc["conns"]]
    neurs = [make_neuron(n, B, dt) for n in sc["neurons"]]
    if sc["kind"] == "serial":
        t = sc["trans"]
        layer = Serial(conns[0], neurs[0], transform=(None if t == "none" else (lambda x, f=trans_py(t), **kw: f(x))))
    elif sc["kind"] == "biclique":
        cl = [(c["name"], m) if c["post"] == "none" else (c["name"], m, trans_py(c["post"])) for c, m in zip(sc["conns"], conns)]
        nl = [(n["name"], m) if n["pre"] == "none" else (n["name"], m, trans_py(n["pre"])) for n, m in zip(sc["neurons"], neurs)]
        layer = Biclique(cl, nl, combine=(custom_combine if sc["combine"] == "custom" else sc["combine"]))
    else:
        t = sc["rtrans"]

        def opt(name):
            return None if name == "none" else trans_py(name)

        def optmany(name):
            return None if name == "none" else (lambda x, f=trans_py(name): (f(x),))

        layer = RecurrentSerial(conns[0], conns[1], conns[2], neurs[0], neurs[1],
                                feedfwd_out_transform=opt(t[0]), lateral_out_transform=opt(t[1]),
                                feedback_out_transform=opt(t[2]), lateral_in_transform=optmany(t[3]),
                                feedback_in_transform=optmany(t[4]), trainable_feedback=sc.get("trainable", False))
    return layer, conns, neurs


def tname(t):
    return "id" if t == "none" else t


def layer_inputs(sc, ev):
    """tensors for one step event"""
    if sc["kind"] == "biclique":
        return {k: tuple(torch.tensor(v, dtype=DT).reshape(sc["B"], *shape_of(sc, k)) for v in vs) for k, vs in ev["inputs"]}
    return tuple(torch.tensor(v, dtype=DT).reshape(sc["B"], *sc["conns"][0]["in"]) for v in ev["inputs"])


def shape_of(sc, cname):
    return next(c["in"] for c in sc["conns"] if c["name"] == cname)


def call_layer(sc, layer, x):
    if sc["kind"] == "biclique":
        return layer(x, capture_intermediate=True)
    return layer(*x, capture_intermediate=True)


def apply_learn(sc, conns, ev):
    for conn, p in zip(conns, ev["params"]):
        set_params(conn, p["w"], p.get("b"), p.get("d"), sc["dt"])


# ---------------------------------------------------------------------------------------------
# (a) recorded real run -> driver lines

def comp_names(sc):
    if sc["kind"] == "serial":
        return ["serial"], ["serial"]
    if sc["kind"] == "biclique":
        return [c["name"] for c in sc["conns"]], [n["name"] for n in sc["neurons"]]
    return ["feedfwd", "lateral", "feedback"], ["feedfwd", "feedback"]


def begin_line(sc, cn=None):
    """`cn` (biclique only): the connections DRIVEN in this segment, in registration order — a biclique layer called with an
    `inputs` dictionary naming a subset of its connections must behave as the biclique layer of exactly those connections"""
    if sc["kind"] == "serial":
        return f"begin serial {tname(sc['trans'])}"
    if sc["kind"] == "biclique":
        cs = "|".join(f"{c['name']}:{tname(c['post'])}" for c in sc["conns"] if cn is None or c["name"] in cn)
        ns = "|".join(f"{n['name']}:{tname(n['pre'])}" for n in sc["neurons"])
        return f"begin biclique {sc['combine']} {cs} {ns}"
    return "begin recurrent " + " ".join(tname(t) for t in sc["rtrans"])


def plan_segments(sc):
    """The Lean driver runs ONE layer per `begin` block with every connection named on every step and knows `clear` only as
    the full clear.  Its components are tapes (they replay what the real components received / returned), so a run can be cut
    into consecutive blocks without losing any state.  A new block starts
      * biclique: whenever the SET of driven connections changes (the block's layer = the biclique of the driven connections:
        'only input modules that have keys in inputs will be run and added to the positional argument of wiring');
      * recurrent: after `clear_fb` (layer.clear(submodules=False): stored feedback forgotten, components untouched) and after
        `kick` (a neuron group stepped on its own while no feedback is stored) — in the new block the specification starts
        with 'no feedback spikes of a previous step', the components simply continue.
    returns a list of (driven names or None, events)"""
    segs, cur = [], {"cn": None, "events": []}
    for ev in sc["events"]:
        if ev["op"] == "step" and sc["kind"] == "biclique":
            names = frozenset(k for k, _ in ev["inputs"])
            if cur["cn"] is None:
                cur["cn"] = names
            elif names != cur["cn"]:
                segs.append(cur)
                cur = {"cn": names, "events": []}
            cur["events"].append(ev)
        elif ev["op"] in ("clear_fb", "kick"):
            cur["events"].append(ev)
            segs.append(cur)
            cur = {"cn": None, "events": []}
        else:
            cur["events"].append(ev)
    if cur["events"] or not segs:
        segs.append(cur)
    return [(g["cn"], g["events"]) for g in segs]


def kick_tensor(sc, ev):
    n = sc["neurons"][ev["target"]]
    return torch.tensor(ev["values"], dtype=DT).reshape(sc["B"], *n["shape"]) * float(ev["amp"])


def record_run(sc):
    """runs the real layer through the scenario's events; returns (driver lines, real views)"""
    layer, conns, neurs = build(sc)
    cn_all, nn = comp_names(sc)
    rec = {"tapes": {}, "mute": False}

    last_out = {}

    def hook(key):
        def fn(module, args, output):
            if rec["mute"]:
                return
            rec["tapes"].setdefault(key, []).append(f"tape {key} call {tens_s(args)} {ten_s(output)}")
            if key.startswith("c:"):
                last_out[key[2:]] = output.detach().clone()
        return fn

    def wrap_clear(key, m, is_neuron):
        orig = m.clear

        def wrapped(**kw):
            orig(**kw)
            rec["tapes"].setdefault(key, []).append(f"tape {key} clear {ten_s(m.spike) if is_neuron else '1:0'}")
        m.__dict__["clear"] = wrapped      # inferno.Module.__setattr__ routes class attributes to descriptors

    for k, m in zip(cn_all, conns):
        m.register_forward_hook(hook("c:" + k))
        wrap_clear("c:" + k, m, False)
    for k, m in zip(nn, neurs):
        m.register_forward_hook(hook("n:" + k))
        wrap_clear("n:" + k, m, True)

    all_lines, all_views, outs = [], [], []
    for seg_cn, events in plan_segments(sc):
        cn = [k for k in cn_all if seg_cn is None or k in seg_cn]
        head = [begin_line(sc, cn)]
        for k, m in zip(nn, neurs):
            head.append(f"peek n:{k} {ten_s(m.spike)}")
        for k in cn:
            head.append(f"peek c:{k} 1:0")
        rec["tapes"] = {}
        ops, views = [], []
        side_err = None
        for ev in events:
            if ev["op"] == "learn":
                apply_learn(sc, conns, ev)
                continue
            if ev["op"] == "clear":
                ops.append("clear")
                try:
                    layer.clear()
                    views.append(("ok", "ok"))
                except Exception as e:
                    views.append((f"err {type(e).__name__}", f"err {type(e).__name__}"))
                outs.append(None)
                continue
            if ev["op"] == "clear_fb":
                # components must stay untouched (a component clear here lands on the tape and is left over at `end`)
                try:
                    layer.clear(submodules=False)
                except Exception as e:
                    side_err = side_err or f"err {type(e).__name__} in layer.clear(submodules=False)"
                outs.append(None)
                continue
            if ev["op"] == "kick":
                rec["mute"] = True
                try:
                    neurs[ev["target"]](kick_tensor(sc, ev))
                except Exception as e:
                    side_err = side_err or f"err {type(e).__name__} in a direct call of neuron group {ev['target']}"
                rec["mute"] = False
                outs.append(None)
                continue
            x = layer_inputs(sc, ev)
            if sc["kind"] == "biclique":
                ops.append("step " + "|".join(f"{k}={tens_s(v)}" for k, v in x.items()))
            else:
                ops.append("step " + tens_s(x))
            try:
                res = call_layer(sc, layer, x)
            except Exception as e:
                views.append((f"err {type(e).__name__}", f"err {type(e).__name__}"))
                outs.append(None)
                continue
            res = clone_res(res)
            outs.append(res)
            views.append(step_view(sc, res, neurs, nn, cn_all, hooked=(dict(last_out) if mutates_conn_outputs(sc) else None)))
        ops.append("end")
        views.append(("consistent", "consistent") if side_err is None else (side_err, side_err))
        lines = list(head)
        for key in ["c:" + k for k in cn] + ["n:" + k for k in nn]:
            lines += rec["tapes"].get(key, [])
        nhead = len(lines)
        all_lines += lines + ops
        all_views += [("ok", "ok")] * nhead + views
    return all_lines, all_views, outs


def mutates_conn_outputs(sc):
    """an in-place transform applied directly to a connection's output tensor: the intermediate dictionary the layer
    returns then shows the user's mutation, so the connection outputs are taken from the forward hooks instead"""
    if sc["kind"] == "serial":
        return is_inplace(sc["trans"])
    if sc["kind"] == "biclique":
        return any(is_inplace(c["post"]) for c in sc["conns"])
    return any(is_inplace(t) for t in sc["rtrans"][:3])


def has_inplace(sc):
    if sc["kind"] == "biclique":
        return mutates_conn_outputs(sc) or any(is_inplace(n["pre"]) for n in sc["neurons"])
    return mutates_conn_outputs(sc)


def clone_res(res):
    if isinstance(res, torch.Tensor):
        return res.detach().clone()
    if isinstance(res, dict):
        return {k: clone_res(v) for k, v in res.items()}
    if isinstance(res, (tuple, list)):
        return tuple(clone_res(v) for v in res)
    return res


def step_view(sc, res, neurs, nn, cn, hooked=None):
    """canonical text of one layer call: M = outputs + intermediates, S = same + shape claim"""
    flag = ""
    if hooked is not None and sc["kind"] == "serial":
        res = (res[0], hooked["serial"])
    if hooked is not None and sc["kind"] == "biclique":
        res = (res[0], {k: hooked[k] for k in res[1]})
    if sc["kind"] == "serial":
        (o, y) = res
        m = f"out={ten_s(o)} mid={ten_s(y)}"
        if tuple(o.shape) != tuple(neurs[0].batchedshape):
            flag = f" [output shape {tuple(o.shape)} != neuron batched shape {tuple(neurs[0].batchedshape)}]"
    elif sc["kind"] == "biclique":
        (od, yd) = res
        m = "out=" + "|".join(f"{k}={ten_s(v)}" for k, v in od.items()) + " mid=" + "|".join(f"{k}={ten_s(yd[k])}" for k in cn if k in yd)
        for k, neuron in zip(nn, neurs):
            if k not in od or tuple(od[k].shape) != tuple(neuron.batchedshape):
                flag += f" [output '{k}' shape {tuple(od[k].shape) if k in od else None} != neuron batched shape {tuple(neuron.batchedshape)}]"
    else:
        ((o1, o2), _mid) = res
        m = f"out={ten_s(o1)} fb={ten_s(o2)}"
        if tuple(o1.shape) != tuple(neurs[0].batchedshape) or tuple(o2.shape) != tuple(neurs[1].batchedshape):
            flag = " [output shapes != neuron batched shapes]"
    return (m, m + flag)


# ---------------------------------------------------------------------------------------------
# (b) manual composition with a twin set of components

def fresh_trans(name):
    """the VALUE of a transform, computed on a fresh copy (what the specification means by transform(x))"""
    f = trans_py(tname(name))
    return (lambda x: f(x.clone())) if is_inplace(name) else f


def manual_run(sc):
    """components of an identically built twin, called by hand in the documented order; every transform is
    evaluated on a fresh copy of its argument, every neuron group gets its own freshly combined tensor"""
    _layer, conns, neurs = build(sc)
    outs = []
    fb = None
    for ev in sc["events"]:
        if ev["op"] == "learn":
            apply_learn(sc, conns, ev)
            continue
        if ev["op"] == "clear":
            for m in conns:
                m.clear()
            for m in neurs:
                m.clear()
            fb = None
            outs.append(None)
            continue
        if ev["op"] == "clear_fb":          # forget the stored feedback only
            fb = None
            outs.append(None)
            continue
        if ev["op"] == "kick":              # a neuron group stepped on its own
            neurs[ev["target"]](kick_tensor(sc, ev))
            outs.append(None)
            continue
        x = layer_inputs(sc, ev)
        if sc["kind"] == "serial":
            t = fresh_trans(sc["trans"])
            y = conns[0](*x)
            outs.append((neurs[0](t(y)), y))
        elif sc["kind"] == "biclique":
            ys = {}
            for k, v in x.items():
                ys[k] = conns[[c["name"] for c in sc["conns"]].index(k)](*v)
            tr = {k: fresh_trans(next(c["post"] for c in sc["conns"] if c["name"] == k))(v) for k, v in ys.items()}
            st = torch.stack(list(tr.values()), 0)
            mode = sc["combine"]
            z = {"sum": lambda: st.sum(0), "mean": lambda: st.mean(0), "prod": lambda: st.prod(0),
                 "min": lambda: st.min(0).values, "max": lambda: st.max(0).values,
                 "custom": lambda: custom_combine(tr)}[mode]()
            od = {n["name"]: m(fresh_trans(n["pre"])(z)) for n, m in zip(sc["neurons"], neurs)}
            outs.append((od, ys))
        else:
            t = [fresh_trans(a) for a in sc["rtrans"]]
            if fb is None:
                fb = torch.zeros_like(neurs[1].spike)
            a = conns[0](*x)
            bb = conns[2](t[4](fb))
            o1 = neurs[0](t[0](a) + t[2](bb))
            lat = conns[1](t[3](o1))
            o2 = neurs[1](t[1](lat))
            fb = o2
            outs.append(((o1, o2), {"feedfwd": a, "feedback": bb, "lateral": lat}))
    return outs


def same(a, b):
    if a is None or b is None:
        return a is None and b is None
    if isinstance(a, torch.Tensor):
        return isinstance(b, torch.Tensor) and a.shape == b.shape and torch.equal(a.to(DT), b.to(DT))
    if isinstance(a, dict):
        return isinstance(b, dict) and list(a.keys()) == list(b.keys()) and all(same(a[k], b[k]) for k in a)
    if isinstance(a, (tuple, list)):
        return isinstance(b, (tuple, list)) and len(a) == len(b) and all(same(x, y) for x, y in zip(a, b))
    return a == b


def show(res):
    if res is None:
        return "None"
    if isinstance(res, torch.Tensor):
        return ten_s(res)
    if isinstance(res, dict):
        return "{" + ", ".join(f"{k}: {show(v)}" for k, v in res.items()) + "}"
    return "(" + ", ".join(show(v) for v in res) + ")"


# ---------------------------------------------------------------------------------------------
# (c) clear at every position, replay against a fresh twin carrying the same parameters

PARAM_KEYS = ("weight_", "bias_", "delay_", "threshold_adaptation_")


def dynamic_state(conns, neurs, layer):
    d = {}
    for i, c in enumerate(conns):
        d[f"conn{i}.synapse.spike"] = c.synapse.spike.clone()
        d[f"conn{i}.synapse.current"] = c.synapse.current.clone()
        d[f"conn{i}.synspike"] = c.synspike.clone()
        d[f"conn{i}.syncurrent"] = c.syncurrent.clone()
    for i, n in enumerate(neurs):
        d[f"neuron{i}.voltage"] = n.voltage.clone()
        d[f"neuron{i}.refrac"] = n.refrac.clone()
        d[f"neuron{i}.spike"] = n.spike.clone()
    if hasattr(layer, "feedback_spikes"):
        d["feedback_spikes"] = None if layer.feedback_spikes is None else layer.feedback_spikes.clone()
    return d


def params_of(conns, neurs):
    d = {}
    for i, m in enumerate(list(conns) + list(neurs)):
        for k, v in m.state_dict().items():
            if k.split(".")[-1] in PARAM_KEYS:
                d[f"{i}.{k}"] = v.clone()
    return d


def clear_replay(sc, p):
    """run p steps, learn, clear, then replay all steps; compare with a fresh twin carrying the same parameters.
    returns None or (what, detail)"""
    steps = [ev for ev in sc["events"] if ev["op"] == "step"]
    learn = next((ev for ev in sc["events"] if ev["op"] == "learn"), None)
    layer, conns, neurs = build(sc)
    for ev in steps[:p]:
        call_layer(sc, layer, layer_inputs(sc, ev))
    if learn is not None:
        apply_learn(sc, conns, learn)
    before = params_of(conns, neurs)
    try:
        layer.clear()
    except Exception as e:
        return (f"clear-raises:{type(e).__name__}", f"layer.clear() after {p} steps raised {type(e).__name__}: {e}")
    after = params_of(conns, neurs)
    for k in before:
        if not same(before[k], after[k]):
            return ("clear-changes-parameters", f"after {p} steps, clear() changed learned parameter / adaptation {k}")
    twin, tconns, tneurs = build(sc)
    if learn is not None:
        apply_learn(sc, tconns, learn)
    for m, t in zip(list(conns) + list(neurs), list(tconns) + list(tneurs)):        # adaptations are kept: the twin carries them
        sd = {k: v for k, v in m.state_dict().items() if k.split(".")[-1] in PARAM_KEYS}
        t.load_state_dict(sd, strict=False)
    ds, dt_ = dynamic_state(conns, neurs, layer), dynamic_state(tconns, tneurs, twin)
    for k in ds:
        if not same(ds[k], dt_[k]):
            return ("clear-leaves-state", f"after {p} steps + clear(), {k} = {show(ds[k])} but a freshly built layer has {show(dt_[k])}")
    for i, ev in enumerate(steps):
        x = layer_inputs(sc, ev)
        r1 = call_layer(sc, layer, x)
        r2 = call_layer(sc, twin, layer_inputs(sc, ev))
        if not same(r1, r2):
            return ("replay-differs", f"cleared after {p} steps: replay step {i} gives {show(r1)}, fresh twin gives {show(r2)}")
    return None


# ---------------------------------------------------------------------------------------------
# scenario generation

def rints(rng, n, lo, hi, mult=1):
    return [mult * rng.randint(lo, hi) for _ in range(n)]


def randshape(rng, maxdims, maxsize, maxprod):
    while True:
        s = [rng.randint(1, maxsize) for _ in range(rng.randint(1, maxdims))]
        if math.prod(s) <= maxprod:
            return s


def gen_conn(rng, name, ctype, inshape, outshape, mult=1, allow_delay=True):
    M, N = math.prod(inshape), math.prod(outshape)
    wn = {"dense": N * M, "direct": M, "lateral": M * M}[ctype]
    delay = rng.choice([None, None, 2]) if allow_delay else None
    c = {"name": name, "type": ctype, "in": list(inshape), "out": list(outshape if ctype == "dense" else inshape),
         "bias": rng.random() < 0.4, "delay": delay, "syn": rng.choice(["delta", "plus"]), "q": rng.choice([1, 2, 4]),
         "w": rints(rng, wn, -2, 6, mult)}
    c["b"] = rints(rng, N if ctype == "dense" else M, -3, 3, mult)
    if delay is not None:
        c["d"] = rints(rng, wn, 0, delay)
    return c


def gen_params(rng, c, mult=1):
    p = {"w": rints(rng, len(c["w"]), -2, 6, mult), "b": rints(rng, len(c["b"]), -3, 3, mult)}
    if c["delay"] is not None:
        p["d"] = rints(rng, len(c["w"]), 0, c["delay"])
    return p


def gen_neuron(rng, name, shape):
    t = rng.choice(["LIF", "LIF", "ALIF", "Exact"])
    return {"name": name, "type": t, "shape": list(shape), "refrac": rng.choice([1, 2, 3]), "tc": rng.choice([2.0, 4.0, 8.0]),
            "R": rng.choice([1.0, 2.0, 4.0])}


def conn_type_for(rng, inshape, outshape):
    if list(inshape) == list(outshape):
        return rng.choice(["dense", "direct", "lateral"])
    return "dense"


def spikes(rng, n, p=0.5):
    return [1 if rng.random() < p else 0 for _ in range(n)]


def gen_events(rng, sc, T, with_clear=True, partial=None):
    """`partial` (biclique): None = draw; "all" = every connection driven on every step; "fixed" = one non-empty proper
    subset of the registered connections driven throughout; "varying" = a fresh non-empty subset on every step"""
    evs = []
    B = sc["B"]
    if sc["kind"] == "biclique":
        if partial is None:
            partial = rng.choice(["all", "all", "fixed", "varying"])
        if len(sc["conns"]) < 2:
            partial = "all"
        names = [c["name"] for c in sc["conns"]]
        fixed = set(rng.sample(names, rng.randint(1, len(names) - 1))) if partial == "fixed" else None
    for t in range(T):
        if sc["kind"] == "biclique":
            order = list(sc["conns"])
            if partial == "fixed":
                order = [c for c in order if c["name"] in fixed]
            elif partial == "varying":
                sub = set(rng.sample(names, rng.randint(1, len(names))))
                order = [c for c in order if c["name"] in sub]
            if sc["combine"] != "custom" and rng.random() < 0.5:
                rng.shuffle(order)
            inputs = []
            for c in order:
                vs = [spikes(rng, B * math.prod(c["in"]))]
                if c["syn"] == "plus" and rng.random() < 0.4:
                    vs.append(rints(rng, B * math.prod(c["in"]), -2, 2, sc["mult"]))
                inputs.append([c["name"], vs])
            evs.append({"op": "step", "inputs": inputs})
        else:
            c = sc["conns"][0]
            vs = [spikes(rng, B * math.prod(c["in"]))]
            if c["syn"] == "plus" and rng.random() < 0.4:
                vs.append(rints(rng, B * math.prod(c["in"]), -2, 2, sc["mult"]))
            evs.append({"op": "step", "inputs": vs})
    if with_clear and T >= 2:
        # clear (sometimes twice in a row, sometimes right at the start) and a parameter change somewhere
        pos = rng.randint(0, T)
        evs.insert(pos, {"op": "clear"})
        if rng.random() < 0.3:
            evs.insert(rng.randint(0, len(evs)), {"op": "clear"})
        evs.insert(rng.randint(0, len(evs)), {"op": "learn", "params": [gen_params(rng, c, sc["mult"]) for c in sc["conns"]]})
    if sc["kind"] == "recurrent" and with_clear:
        add_first_step_events(rng, sc, evs)
    return evs


def gen_kick(rng, sc, target=None):
    target = (1 if rng.random() < 0.8 else 0) if target is None else target
    n = sc["B"] * math.prod(sc["neurons"][target]["shape"])
    vals = spikes(rng, n, 0.7)
    if not any(vals):
        vals[rng.randrange(n)] = 1
    return {"op": "kick", "target": target, "values": vals, "amp": 500}


def add_first_step_events(rng, sc, evs, p_fb=0.5, p_kick=0.4):
    """'first steps' of a recurrent layer other than the one of a brand-new layer: the stored feedback forgotten on its own
    (`clear(submodules=False)`) at random positions of the run, and neuron groups that were stepped on their own (a strong
    current: they spike) while the layer holds no feedback (before its first step, right after clear() / clear(submodules=False))"""
    if rng.random() < p_fb:
        for _ in range(rng.choice([1, 1, 2, 3])):
            evs.insert(rng.randint(1, len(evs)), {"op": "clear_fb"})
    if rng.random() < p_kick:
        spots = [0] + [i + 1 for i, e in enumerate(evs) if e["op"] in ("clear", "clear_fb")]
        for pos in sorted(set(rng.sample(spots, min(len(spots), rng.choice([1, 1, 2])))), reverse=True):
            evs.insert(pos, gen_kick(rng, sc))


def gen_scenario(rng, kind=None, T=None):
    kind = kind or rng.choice(["serial", "biclique", "biclique", "recurrent", "recurrent"])
    B = rng.randint(1, 3)
    dt = rng.choice([0.5, 1.0, 2.0])
    sc = {"kind": kind, "B": B, "dt": dt, "mult": 1}
    base = ["none", "id", "neg", "relu", "scale2", "scale-3", "add12", "add-24", "clamp01"]
    inpl = ["neg_", "relu_", "scale2_", "scale-3_", "add12_", "add-24_", "clamp01_"]

    class _Tr:
        """transform names for tensors the layer owns (connection outputs, the combined input): out-of-place ones and,
        about a third of the time, in-place ones (Tensor.mul_/add_/clamp_/neg_)"""
        def pick(self, integral_mean=False):
            pool = inpl if rng.random() < 0.35 else base
            if integral_mean:
                pool = [t for t in pool if not t.startswith("clamp01")]
            return rng.choice(pool)
    tr = _Tr()
    if kind == "serial":
        i, o = randshape(rng, 3, 3, 8), randshape(rng, 2, 3, 6)
        ct = conn_type_for(rng, i, o)
        sc["conns"] = [gen_conn(rng, "serial", ct, i, o)]
        sc["neurons"] = [gen_neuron(rng, "serial", sc["conns"][0]["out"])]
        sc["trans"] = tr.pick()
    elif kind == "biclique":
        sc["combine"] = rng.choice(["sum", "mean", "prod", "min", "max", "custom"])
        sc["mult"] = 12 if sc["combine"] == "mean" else 1
        o = randshape(rng, 2, 3, 6)
        nc, nnr = rng.randint(1, 4 if sc["combine"] != "prod" else 3), rng.randint(1, 3)
        sc["conns"] = []
        for j in range(nc):
            i = randshape(rng, 2, 3, 6) if rng.random() < 0.7 else list(o)
            c = gen_conn(rng, f"c{j}", conn_type_for(rng, i, o), i, o, sc["mult"])
            c["post"] = tr.pick(integral_mean=(sc["combine"] == "mean"))
            if sc["combine"] == "prod":
                c["w"] = [max(-2, min(3, w)) for w in c["w"]]
            sc["conns"].append(c)
        sc["neurons"] = []
        for j in range(nnr):
            n = gen_neuron(rng, f"n{j}", o)
            n["pre"] = tr.pick()
            sc["neurons"].append(n)
    else:
        i, o = randshape(rng, 2, 3, 6), randshape(rng, 2, 3, 6)
        f = randshape(rng, 2, 3, 6) if rng.random() < 0.6 else list(o)
        sc["conns"] = [gen_conn(rng, "feedfwd", conn_type_for(rng, i, o), i, o),
                       gen_conn(rng, "lateral", conn_type_for(rng, o, f), o, f),
                       gen_conn(rng, "feedback", conn_type_for(rng, f, o), f, o)]
        sc["neurons"] = [gen_neuron(rng, "feedfwd", o), gen_neuron(rng, "feedback", f)]
        sc["rtrans"] = [tr.pick(), tr.pick(), tr.pick(), rng.choice(["none", "id", "inv"]),
                        rng.choice(["none", "id", "inv"])]
        sc["trainable"] = (sc["conns"][1]["type"] != "dense" or True) and rng.random() < 0.3 and list(f) == list(o)
    sc["events"] = gen_events(rng, sc, T or rng.randint(3, 7))
    return sc


def boundary_scenarios(rng):
    out = []
    for kind in ("serial", "biclique", "recurrent"):
        sc = gen_scenario(rng, kind, T=4)
        sc["B"] = 1
        sc["events"] = gen_events(rng, sc, 4)
        out.append(sc)
    # every combine mode, two neuron groups, batch 1 (the shape of D20's symptom) and batch 3
    for mode in ("sum", "mean", "prod", "min", "max", "custom"):
        for B in (1, 3):
            while True:
                sc = gen_scenario(rng, "biclique", T=3)
                if sc["combine"] == mode and len(sc["neurons"]) >= 2:
                    break
            sc["B"] = B
            sc["events"] = gen_events(rng, sc, 3)
            out.append(sc)
    # aliasing: an in-place pre-output transform on a NON-LAST neuron group, and an in-place post-input transform
    # with >= 2 groups, for every combine mode (every group must still get pre_i(combine{post_j(y_j)}) of fresh values)
    cyc = ["clamp01_", "scale2_", "add12_", "neg_", "relu_", "scale-3_"]
    for j, mode in enumerate(("sum", "mean", "prod", "min", "max", "custom")):
        for where in ("pre", "post"):
            while True:
                sc = gen_scenario(rng, "biclique", T=3)
                if sc["combine"] == mode and len(sc["neurons"]) >= 2:
                    break
            for n in sc["neurons"]:
                n["pre"] = "id"
            for c in sc["conns"]:
                c["post"] = "none"
            if where == "pre":
                sc["neurons"][0]["pre"] = cyc[j]
                sc["neurons"][-1]["pre"] = "none"
            else:
                sc["conns"][0]["post"] = cyc[(j + 1) % 6] if mode != "mean" or not cyc[(j + 1) % 6].startswith("clamp") else "scale2_"
            out.append(sc)
    for kind in ("serial", "recurrent"):
        sc = gen_scenario(rng, kind, T=3)
        if kind == "serial":
            sc["trans"] = "scale2_"
        else:
            sc["rtrans"][:3] = ["add12_", "clamp01_", "scale-3_"]
        out.append(sc)
    # clear as the very first and the very last operation; clear twice
    sc = gen_scenario(rng, "recurrent", T=3)
    steps = [e for e in sc["events"] if e["op"] == "step"]
    sc["events"] = [{"op": "clear"}] + steps + [{"op": "clear"}, {"op": "clear"}] + steps[:1]
    out.append(sc)
    sc = gen_scenario(rng, "serial", T=3)
    steps = [e for e in sc["events"] if e["op"] == "step"]
    sc["events"] = [{"op": "clear"}] + steps + [{"op": "clear"}] + steps
    out.append(sc)
    # every combine mode with >= 2 registered connections of which only some are driven: one proper subset throughout, and a
    # different subset on every step (each neuron group gets the combination of the outputs actually handed to the wiring)
    for mode in ("sum", "mean", "prod", "min", "max", "custom"):
        for partial in ("fixed", "varying"):
            while True:
                sc = gen_scenario(rng, "biclique", T=4)
                if sc["combine"] == mode and len(sc["conns"]) >= 2:
                    break
            sc["events"] = gen_events(rng, sc, 4, partial=partial)
            out.append(sc)
    # recurrent 'first steps': the stored feedback forgotten (clear(submodules=False)) after every step; a feedback group that
    # was stepped on its own before the layer's first step and again after each kind of clear
    sc = gen_scenario(rng, "recurrent", T=5)
    steps = [e for e in sc["events"] if e["op"] == "step"]
    sc["events"] = [e for st in steps for e in (st, {"op": "clear_fb"})] + steps[:2]
    out.append(sc)
    sc = gen_scenario(rng, "recurrent", T=4)
    steps = [e for e in sc["events"] if e["op"] == "step"]
    sc["events"] = ([gen_kick(rng, sc, 1)] + steps[:2] + [{"op": "clear_fb"}, gen_kick(rng, sc, 1)] + steps[2:] +
                    [{"op": "clear"}, gen_kick(rng, sc, 1), gen_kick(rng, sc, 0)] + steps[:2])
    out.append(sc)
    return out


# ---------------------------------------------------------------------------------------------
# running one scenario through the three checks

def check_driver(ctx, sc):
    """(a): returns (n_lines, disagreement or None, lines)"""
    lines, views, outs = record_run(sc)
    resp = ctx.run_driver(DRIVER, lines)
    d = seqcheck.compare_case(lines, views, resp)
    if d is not None and ("bad-op" in d[2] or any(str(x).startswith("harness-exception") for x in (d[2], d[3]))):
        raise RuntimeError(f"harness/driver protocol failure: {d} on {lines[:d[0] + 1][-3:]}")
    return lines, d, outs


def check_manual(sc, outs):
    """(b)"""
    mo = manual_run(sc)
    k = 0
    for ev in sc["events"]:
        if ev["op"] == "learn":
            continue
        a, b_ = outs[k], mo[k]
        if ev["op"] == "step" and a is not None and mutates_conn_outputs(sc):
            a, b_ = a[0], b_[0]
        if ev["op"] == "step" and a is not None and not same(a, b_):
            return (k, f"layer returns {show(outs[k])}, components called by hand in the documented order give {show(mo[k])}")
        k += 1
    return None


def shorten(sc, fails):
    """smallest failing prefix of the event list (keeping the scenario otherwise)"""
    best = sc
    for n in range(1, len(sc["events"])):
        cand = dict(sc, events=sc["events"][:n])
        try:
            if fails(cand):
                best = cand
                break
        except Exception:
            continue
    return best


def key_for(sc, what):
    extra = f":{sc['combine']}" if sc["kind"] == "biclique" else ""
    return f"C17:{sc['kind']}{extra}:{what}"


def purified(sc, which):
    """the same scenario with the in-place transforms of one family replaced by their out-of-place twins"""
    c = copy.deepcopy(sc)
    if c["kind"] == "biclique":
        if which == "post":
            for x in c["conns"]:
                x["post"] = pure_name(x["post"])
        else:
            for x in c["neurons"]:
                x["pre"] = pure_name(x["pre"])
    elif c["kind"] == "serial":
        c["trans"] = pure_name(c["trans"])
    else:
        c["rtrans"] = [pure_name(t) for t in c["rtrans"]]
    return c


def aliasing_class(sc, fails):
    """if a wiring disagreement disappears once the in-place transforms of one family are made out-of-place,
    the cause is tensor-object sharing inside the layer: name the family"""
    if fails is None or not has_inplace(sc):
        return None
    try:
        if sc["kind"] == "biclique":
            if any(is_inplace(c["post"]) for c in sc["conns"]) and not fails(purified(sc, "post")):
                return "inplace-post-reapplied"
            if any(is_inplace(n["pre"]) for n in sc["neurons"]) and not fails(purified(sc, "pre")):
                return "inplace-pre-aliased"
        elif not fails(purified(sc, "all")):
            return "inplace-transform-aliased"
    except Exception:
        return None
    return None


def run_scenarios(ctx, scenarios, ex, max_findings=6):
    # (a) all scenarios through ONE driver process
    recs = []
    flat = []
    for sc in scenarios:
        lines, views, outs = record_run(sc)
        recs.append((sc, lines, views, outs))
        flat += lines
    resp = ctx.run_driver(DRIVER, flat)
    pos = 0
    nf = 0
    for sc, lines, views, outs in recs:
        r = resp[pos:pos + len(lines)]
        pos += len(lines)
        nsteps = sum(1 for e in sc["events"] if e["op"] == "step")
        ex.evaluations += len([l for l in lines if l.startswith(("step", "clear", "end"))])
        ex.traces_validated += 1
        spiked = any(("1" in v[0].split("out=", 1)[-1].split(" ")[0].split(":")[-1]) for l, v in zip(lines, views) if l.startswith("step") and "out=" in v[0])
        if spiked:
            ex.nontriv(json.dumps(sc, sort_keys=True))
        found = []
        d = seqcheck.compare_case(lines, views, r)
        if d is not None:
            if "bad-op" in d[2] or any(str(x).startswith("harness-exception") for x in (d[2], d[3])):
                raise RuntimeError(f"harness/driver protocol failure: {d} on line `{lines[d[0]]}`")
            what = "clear-raises" if (lines[d[0]] == "clear" and str(d[3]).startswith("err")) else \
                   ("layer-raises" if str(d[3]).startswith("err") else
                    ("output-shape" if "shape" in str(d[3]) and "[" in str(d[3]) else "wiring"))
            found.append((d[1], what, f"op #{d[0]} `{lines[d[0]][:200]}`: Lean {'specification' if d[1] == 'spec' else 'model'} gives `{d[2][:600]}`, real layer gives `{d[3][:600]}`",
                          lambda c: check_driver(ctx, c)[1] is not None))
        # (b)
        try:
            mb = check_manual(sc, outs)
        except Exception as e:
            mb = (-1, f"manual composition raised {type(e).__name__}: {e}")
        ex.evaluations += nsteps
        if mb is not None:
            found.append(("spec", "manual-composition", f"step {mb[0]}: {mb[1][:900]}", lambda c: check_manual(c, record_run(c)[2]) is not None))
        # (c)
        for p in range(nsteps + 1):
            ex.evaluations += nsteps + 1
            try:
                cr = clear_replay(sc, p)
            except Exception as e:
                cr = (f"replay-raises:{type(e).__name__}", f"clear/replay at position {p} raised {type(e).__name__}: {e}")
            ex.count("clear_position", str(p))
            if cr is not None:
                found.append(("spec", cr[0], cr[1][:900], None))
                break
        for kind, what, text, fails in found:
            nf += 1
            if nf > max_findings:
                break
            small = shorten(sc, fails) if fails else sc
            cls = aliasing_class(small, fails) if what in ("wiring", "manual-composition") else None
            if cls == "inplace-post-reapplied":
                key = "C17:biclique:inplace-post-reapplied"
                text = ("in-place post-input transform is applied once per neuron group to the same connection output "
                        "(later groups get post(post(y))): ") + text
            elif cls:
                key = key_for(sc, "wiring") if what == "wiring" else key_for(sc, what)
                text = f"[{cls}: disappears with the out-of-place twin of the transform] " + text
            else:
                key = key_for(sc, what)
            ex.findings.append(Finding(kind=kind, key=key, what=text, case={"scenario": small, "check": what, "aliasing": cls}))


def explore(ctx) -> Exploration:
    ex = Exploration()
    rng = ctx.rng
    thorough = ctx.tier == "thorough" or ctx.intensify
    scenarios = corpus_scenarios()
    ncorpus = len(scenarios)
    bnd = boundary_scenarios(rng)
    n = 110 if not thorough else 900
    rnd = [gen_scenario(rng) for _ in range(n)]
    scenarios += bnd + rnd
    for sc in scenarios:
        ex.count("layer", sc["kind"])
        ex.count("batch", str(sc["B"]))
        if sc["kind"] == "biclique":
            ex.count("combine", sc["combine"])
            ex.count("biclique_size", f"{len(sc['conns'])}x{len(sc['neurons'])}")
            if len(sc["neurons"]) >= 2 and any(is_inplace(n["pre"]) for n in sc["neurons"][:-1]):
                ex.count("aliasing", "inplace-pre-on-non-last-group")
            if len(sc["neurons"]) >= 2 and any(is_inplace(c["post"]) for c in sc["conns"]):
                ex.count("aliasing", "inplace-post-with-2+-groups")
            for c in sc["conns"]:
                ex.count("transform", c["post"])
            for nn_ in sc["neurons"]:
                ex.count("transform", nn_["pre"])
        elif sc["kind"] == "serial":
            ex.count("transform", sc["trans"])
        else:
            for t in sc["rtrans"]:
                ex.count("transform", t)
        for c in sc["conns"]:
            ex.count("connection", c["type"] + ("+delay" if c["delay"] is not None else ""))
            ex.count("synapse", c["syn"])
        for nn_ in sc["neurons"]:
            ex.count("neuron", nn_["type"])
        for e in sc["events"]:
            ex.count("events", e["op"])
        if sc["kind"] == "biclique":
            for e in sc["events"]:
                if e["op"] == "step":
                    ex.count("biclique_driven", "all" if len(e["inputs"]) == len(sc["conns"]) else "proper-subset")
        ex.count("driver_blocks", str(len(plan_segments(sc))))
    run_scenarios(ctx, scenarios, ex)
    ex.rule = ("scenarios = corpus + boundary (batch 1, every combine mode with >= 2 neuron groups at batch 1 and 3, clear as first / "
               "last / repeated operation) + seeded random layers: Serial, Biclique (1-4 connections x 1-3 neuron groups, post-input and "
               "pre-output transforms, sum/mean/prod/min/max/custom combine, permuted input dictionaries) and RecurrentSerial (five "
               "transforms, trainable feedback on/off) from real LinearDense/Direct/Lateral connections (bias, delays 0-2 steps, "
               "DeltaCurrent / DeltaPlusCurrent with injected current, multi-dimensional shapes) and real LIF / ALIF (training mode, "
               "adapting thresholds) / ExactNeuron groups; 3-7 steps of random spike inputs with clear() and a parameter change at random "
               "positions. Per scenario: (a) recorded real run replayed through the Lean model and specification on tapes, (b) manual "
               "composition twin, (c) clear() after every prefix length then replay against a fresh twin with the same parameters. "
               "Biclique runs drive all connections, one proper subset throughout, or a fresh subset per step (the driver then sees the "
               "biclique layer of the driven connections, block by block). Recurrent runs also contain clear(submodules=False) "
               "(feedback forgotten, components untouched) and neuron groups stepped on their own with a strong current while no "
               "feedback is stored (before the first step, after either clear): the next step is a 'first' step and must see no "
               "feedback spikes. Non-trivial = some layer output contained a spike; distinct = distinct scenario JSON")
    ex.samples = [bnd[0], rnd[0]]
    ex.extra["streams"] = {"corpus": ncorpus, "boundary": len(bnd), "random": len(rnd)}
    return ex


def corpus_scenarios():
    from pathlib import Path
    d = Path(__file__).resolve().parent.parent.parent / "corpus" / "C17"
    out = []
    if d.exists():
        for f in sorted(d.glob("*.json")):
            out.append(json.loads(f.read_text()))
    return out


def replay(ctx, data) -> int:
    case = data.get("failing_input") or {}
    sc = case.get("scenario") or data.get("scenario")
    if not sc:
        print("replay file has no scenario (proof/tie breakage without failing input):", data.get("broken"))
        return 1
    print(json.dumps({k: v for k, v in sc.items() if k != "events"}, indent=1))
    bad = 0
    lines, d, outs = check_driver(ctx, sc)
    resp = ctx.run_driver(DRIVER, lines)
    _l, views, _o = record_run(sc)
    for l, v, r in zip(lines, views, resp):
        if l.startswith(("step", "clear", "end")):
            print(f"{l[:160]}\n    real: M {v[0][:300]} || S {v[1][:300]}\n    lean: {r[:700]}")
    if d:
        print("DISAGREEMENT (a)", d)
        bad = 1
    try:
        mb = check_manual(sc, outs)
    except Exception as e:
        mb = (-1, repr(e))
    if mb:
        print("DISAGREEMENT (b)", mb)
        bad = 1
    nsteps = sum(1 for e in sc["events"] if e["op"] == "step")
    for p in range(nsteps + 1):
        try:
            cr = clear_replay(sc, p)
        except Exception as e:
            cr = ("raises", repr(e))
        if cr:
            print("DISAGREEMENT (c)", cr)
            bad = 1
            break
    print("agrees" if not bad else "violates")
    return bad
