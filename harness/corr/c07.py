"""C07 — spike traces and fold reducers equal their closed forms over any event history.

Tie (a): the one-step trace functions and interpolation kernels are GENERATED from /repo
(`Gen/Trace{R,F}.lean`, `Gen/Interpolation{R,F}.lean`) and validated against the Python originals on
every run (`transval`).  Tie (b): the FoldReducer machine (`Model/Reducer.lean`, executed by
`drivers/C07.lean` on the generated Float folds) is compared with the REAL reducer classes after
every operation: `peek`, `dump`, `view` (scalar and per-element tensor times, on and off the grid,
out of range), the configuration read back through public attributes (`dt`, `duration`,
`data_.recordsz`, `decay`, `_count`, `_initial`).

Three comparisons per answer:
  M   real vs the code-shaped machine (ring + pointer + `_initial` + lazy initialise)   -> kind 'model'
  S   real vs the specification machine of the driver (list of fold values)             -> kind 'spec'
  S2  real vs closed-form sums computed here, independently of any recurrence           -> kind 'spec'
Also the functional API `inferno.trace_*` / `exp_trace_*` / `exprate_trace_*` iterated directly.
"""
from __future__ import annotations

import json
import math
import weakref
from pathlib import Path

import torch

import inferno
from inferno import observe as obsv

from runner import Exploration, Finding
import transval
from transval import hx, unhx

SPEC = {
    "prop": "C07",
    "lean_targets": ["InfernoVerif.Props.C07", "InfernoVerif.Props.C07Glue", "InfernoVerif.Props.C07GlueProg", "InfernoVerif.Model.Reducer", "InfernoVerif.Gen.Dispatch"],
    "prop_files": ["InfernoVerif/Props/C07.lean", "InfernoVerif/Props/C07Glue.lean", "InfernoVerif/Props/C07GlueProg.lean"],
    "lemma_files": ["InfernoVerif/Lemmas/Trace.lean", "InfernoVerif/Lemmas/Reducer.lean"],
    "model_files": ["InfernoVerif/Model/Reducer.lean", "InfernoVerif/Gen/TraceF.lean", "InfernoVerif/Gen/TraceR.lean",
                    "InfernoVerif/Gen/InterpolationF.lean", "InfernoVerif/Gen/InterpolationR.lean",
                    "InfernoVerif/Gen/SmoothingF.lean", "InfernoVerif/Gen/SmoothingR.lean"],
    "translate": ["Trace", "Interpolation", "Smoothing", "ReducerSites", "ReducerProg"],
    "driver_targets": ["InfernoVerif.Model.Reducer", "InfernoVerif.Gen.TraceF", "InfernoVerif.Gen.InterpolationF",
                       "InfernoVerif.Gen.SmoothingF", "InfernoVerif.Gen.Dispatch"],
    "assumptions": [
        "theorems are over exact reals; the correspondence runs float64 with dyadic observations, amplitudes, times (exact) and compares "
        "to 1e-9 relative where exp is involved, bit-for-bit otherwise — partial (float)",
        "a reducer over a tensor = the one-element machine on every element (folds and kernels are element-wise); observation shapes are "
        "constant between deinitialisations (a shape change after clear(keepshape=True) raises in the code and is not generated)",
        "EventReducer.fold, CAReducer.fold and pass-through are hand transcribed ONCE, generic in the scalar type "
        "(Model/Reducer.lean), not translator-generated (they are methods, not in the translator's list); the einsum of "
        "EligibilityTraceReducer is computed by the harness (the reducer is driven with one field element per site)",
        "the non-finite initial values of EventReducer ('inf', 'nan') are modelled in the theorems by one absorbing value XR.nonfin",
        "a dt / duration assignment that grows the record of an ALREADY-OBSERVING reducer pads the new slots with zeros, not with the "
        "fill value (C13's resize; theorem resize_while_observing) — this is the specified behaviour and is generated, also for "
        "EventReducer 'inf'/'nan'; after clear (either keepshape) the next observation shows the fill value everywhere (D34 repair)",
        "CPU, float64 default dtype; view tolerance below half a step",
    ],
}
DRIVER = "drivers/C07.lean"
KINDS = ["NT", "CT", "SNT", "SCT", "CNT", "CCT", "ELIG", "EV", "PT", "EMA", "CA"]
CLASS = {"NT": "NearestTraceReducer", "CT": "CumulativeTraceReducer", "SNT": "ScaledNearestTraceReducer",
         "SCT": "ScaledCumulativeTraceReducer", "CNT": "ConditionalNearestTraceReducer",
         "CCT": "ConditionalCumulativeTraceReducer", "ELIG": "EligibilityTraceReducer", "EV": "EventReducer",
         "PT": "PassthroughReducer", "EMA": "EMAReducer", "CA": "CAReducer"}
TRACE = {"NT", "CT", "SNT", "SCT", "CNT", "CCT", "ELIG"}
COND = {"CNT", "CCT", "ELIG"}
EXACT = {"EV", "PT", "EMA", "CA"}          # no exp anywhere: Lean Float and torch float64 agree bit for bit
INIT = {"inf": math.inf, "zero": 0.0, "nan": math.nan}


# ---------------------------------------------------------------------------------------------
# values on the wire

def vec(v):
    return ",".join(hx(x) for x in v) if len(v) else "-"


def unvec(tok):
    return [unhx(x) for x in tok.split(",")]


def b(x):
    return "T" if x else "F"


def same(a: float, c: float, exact: bool) -> bool:
    if a == c:
        return True
    if math.isnan(a) or math.isnan(c):
        return math.isnan(a) and math.isnan(c)
    if math.isinf(a) or math.isinf(c) or exact:
        return False
    return abs(a - c) <= 1e-9 * max(1.0, abs(a), abs(c))


def same_ans(a, c, exact: bool) -> bool:
    """answers: None | 'ok' | ('err', name) | ('vec', [..]) | ('rows', [[..]..]) | ('cfg', n, dt, dur, decay|None, count|None, initial)"""
    if a is None or c is None or isinstance(a, str) or isinstance(c, str):
        return a == c
    if a[0] != c[0]:
        return False
    if a[0] == "err":
        return a[1] == c[1]
    if a[0] == "vec":
        return len(a[1]) == len(c[1]) and all(same(x, y, exact) for x, y in zip(a[1], c[1]))
    if a[0] == "rows":
        return len(a[1]) == len(c[1]) and all(len(r) == len(q) and all(same(x, y, exact) for x, y in zip(r, q))
                                              for r, q in zip(a[1], c[1]))
    if a[0] == "cfg":
        ok = a[1] == c[1] and same(a[2], c[2], True) and same(a[3], c[3], True) and a[6] == c[6]
        if a[4] is not None and c[4] is not None:
            ok = ok and same(a[4], c[4], False)
        if a[5] is not None and c[5] is not None:
            ok = ok and a[5] == c[5]
        return ok
    raise AssertionError(a)


def parse_half(tok: str):
    tok = tok.strip()
    if tok == "ok":
        return "ok"
    if tok == "N":
        return None
    if tok.startswith("err "):
        return ("err", tok[4:])
    if "|" in tok:
        return ("rows", [unvec(r) for r in tok.split("|")])
    return ("vec", unvec(tok))


def parse_resp(line: str, op):
    assert line.startswith("M ") and " || S " in line, line
    m, s = line[2:].split(" || S ", 1)
    if op[0] == "cfg":
        def cfg(t):
            n, dt, dur, dec, cnt, ini = t.split()
            return ("cfg", int(n), unhx(dt), unhx(dur), unhx(dec), int(cnt), ini == "T")
        return cfg(m), cfg(s)
    pm, ps = parse_half(m), parse_half(s)
    if op[0] == "dump":                      # a one-slot record is one row
        pm = ("rows", [pm[1]]) if pm is not None and pm[0] == "vec" else pm
        ps = ("rows", [ps[1]]) if ps is not None and ps[0] == "vec" else ps
    return pm, ps


# ---------------------------------------------------------------------------------------------
# configuration -> real reducer / driver `begin` line

class _Reshaper:
    def f(self, x):
        return x.unsqueeze(-1)


def crit_fn(c):
    op, v = c
    return (lambda x: x > v) if op == "gt" else (lambda x: x >= v)


def build(cfg):
    k = cfg["kind"]
    kw = dict(duration=cfg["dur"], inclusive=cfg["incl"], inplace=False)
    dt = cfg["dt"]
    if k in ("NT", "CT"):
        cls = obsv.NearestTraceReducer if k == "NT" else obsv.CumulativeTraceReducer
        return cls(dt, cfg["tau"], cfg["A"], cfg["target"], cfg["tol"], **kw)
    if k in ("SNT", "SCT"):
        cls = obsv.ScaledNearestTraceReducer if k == "SNT" else obsv.ScaledCumulativeTraceReducer
        return cls(dt, cfg["tau"], cfg["A"], cfg["scale"], crit_fn(cfg["crit"]), **kw)
    if k in ("CNT", "CCT"):
        cls = obsv.ConditionalNearestTraceReducer if k == "CNT" else obsv.ConditionalCumulativeTraceReducer
        return cls(dt, cfg["tau"], cfg["A"], cfg["scale"], **kw)
    if k == "ELIG":
        from inferno.learn.trainers.three_factor_stdp import EligibilityTraceReducer
        h = _Reshaper()
        r = EligibilityTraceReducer(dt, cfg["tau"], obs_reshape=weakref.WeakMethod(h.f), cond_reshape=weakref.WeakMethod(h.f),
                                    duration=cfg["dur"], inclusive=cfg["incl"])
        r._keepalive = h
        return r
    if k == "EV":
        return obsv.EventReducer(dt, crit_fn(cfg["crit"]), cfg["initial"], cfg["dur"], cfg["incl"], False)
    if k == "PT":
        return obsv.PassthroughReducer(dt, cfg["dur"], cfg["incl"], False)
    if k == "EMA":
        return obsv.EMAReducer(dt, cfg["alpha"], cfg["dur"], cfg["incl"], False)
    if k == "CA":
        return obsv.CAReducer(dt, cfg["dur"], cfg["incl"], False)
    raise AssertionError(k)


def begin_line(cfg):
    k = cfg["kind"]
    head = f"begin {hx(cfg['dt'])} {hx(cfg['dur'])} {b(cfg['incl'])} {k}"
    opt = lambda v: "N" if v is None else hx(v)
    crit = lambda c: f"{c[0]}:{hx(c[1])}"
    if k in ("NT", "CT"):
        return f"{head} {hx(cfg['tau'])} {hx(cfg['A'])} {hx(cfg['target'])} {opt(cfg['tol'])}"
    if k in ("SNT", "SCT"):
        return f"{head} {hx(cfg['tau'])} {hx(cfg['A'])} {hx(cfg['scale'])} {crit(cfg['crit'])}"
    if k in ("CNT", "CCT"):
        return f"{head} {hx(cfg['tau'])} {hx(cfg['A'])} {hx(cfg['scale'])}"
    if k == "ELIG":
        return f"{head} {hx(cfg['tau'])}"
    if k == "EV":
        return f"{head} {crit(cfg['crit'])} {hx(INIT[cfg['initial']])}"
    if k == "EMA":
        return f"{head} {hx(cfg['alpha'])}"
    return head


def op_line(op):
    t = op[0]
    if t == "obs":
        _, ip, shape, vals, conds = op
        return f"obs {b(ip)} {vec(vals)} " + ("-" if conds is None else ",".join(b(c) for c in conds))
    if t == "clear":
        return f"clear {b(op[1])}"
    if t in ("peek", "dump", "cfg"):
        return t
    if t == "view":
        return f"view {op[1]} {hx(op[2])} {vec(op[3])}"
    if t in ("setdt", "setdur"):
        return f"{t} {hx(op[1])}"
    raise AssertionError(op)


def case_lines(case):
    return [begin_line(case["cfg"])] + [op_line(o) for o in case["ops"]]


# ---------------------------------------------------------------------------------------------
# real side

def tolist(t):
    return [float(x) for x in t.detach().to(torch.float64).reshape(-1)]


class Real:
    def __init__(self, cfg):
        self.cfg = cfg
        self.r = build(cfg)
        self.shape = None

    def exec(self, op):
        try:
            return self._exec(op)
        except Exception as e:
            return ("err", type(e).__name__)

    def _exec(self, op):
        r, t = self.r, op[0]
        k = self.cfg["kind"]
        if t == "obs":
            _, ip, shape, vals, conds = op
            self.shape = tuple(shape)
            if self.cfg.get("bool_obs"):
                x = torch.tensor([v != 0.0 for v in vals]).reshape(self.shape)
            else:
                x = torch.tensor(vals, dtype=torch.float64).reshape(self.shape)
            r.inplace = ip
            if k in ("CNT", "CCT"):
                r(x, torch.tensor(conds).reshape(self.shape))
            elif k == "ELIG":
                # field dimension of size one: einsum('b ... r, b ... r -> b ...') = obs * cond, computed here
                r(x, torch.ones(self.shape, dtype=torch.float64))
            else:
                r(x)
            # the caller's observation buffer is reused after the call (overwritten in place, every other observation): the
            # reducer must hold what it observed, not a reference to the caller's tensor
            self._nobs = getattr(self, "_nobs", 0) + 1
            if self._nobs % 2 == 0:
                with torch.no_grad():
                    x.zero_() if x.dtype == torch.bool else x.mul_(0).sub_(7.0)
            return "ok"
        if t == "clear":
            r.clear(keepshape=op[1])
            return "ok"
        if t == "peek":
            v = r.peek()
            lat = r.latest
            assert (v is None) == (lat is None)
            return None if v is None else ("vec", tolist(v))
        if t == "dump":
            v = r.dump()
            return None if v is None else ("rows", [tolist(v[i]) for i in range(v.shape[0])])
        if t == "view":
            _, mode, tol, times = op
            if mode == "S":
                v = r.view(float(times[0]), tol)
            else:
                shape = self.shape if self.shape is not None else (len(times),)
                v = r.view(torch.tensor(times, dtype=torch.float64).reshape(shape), tol)
            return None if v is None else ("vec", tolist(v))
        if t == "setdt":
            r.dt = op[1]
            return "ok"
        if t == "setdur":
            r.duration = op[1]
            return "ok"
        if t == "cfg":
            dec = float(r.decay) if hasattr(r, "decay") else None
            cnt = int(r._count) if k == "CA" else None
            return ("cfg", int(r.data_.recordsz), float(r.dt), float(r.duration), dec, cnt, bool(r._initial))
        raise AssertionError(op)


# ---------------------------------------------------------------------------------------------
# S2: the specification with CLOSED-FORM values, computed independently (no recurrence)

def recsz(dt, dur, incl):
    return max(math.ceil(dur / dt) + (1 if incl else 0), 1)


def rhe(x):
    return round(x)          # Python rounds half to even, as torch.round


class Oracle:
    def __init__(self, cfg):
        c = self.cfg = cfg
        self.dt, self.dur, self.incl = c["dt"], c["dur"], c["incl"]
        self.n = recsz(self.dt, self.dur, self.incl)
        self.hist = None          # newest first, list of vectors
        self.log = []             # since the last clear: (values, conds, time of the observation)
        self.time = 0.0
        self.fill = INIT[c["initial"]] if c["kind"] == "EV" else 0.0

    def _match(self, o, cnd):
        c, k = self.cfg, self.cfg["kind"]
        if k in ("NT", "CT"):
            return o == c["target"] if c["tol"] is None else abs(o - c["target"]) <= c["tol"]
        if k in ("SNT", "SCT", "EV"):
            op, v = c["crit"]
            return o > v if op == "gt" else o >= v
        if k in ("CNT", "CCT"):
            return bool(cnd)
        return True

    def _value(self, e):
        """closed form of the fold value of element e after the observations in self.log"""
        c, k = self.cfg, self.cfg["kind"]
        m = len(self.log) - 1
        obs = [self.log[i][0][e] for i in range(m + 1)]
        cnd = [None if self.log[i][1] is None else self.log[i][1][e] for i in range(m + 1)]
        T = [self.log[i][2] for i in range(m + 1)]
        hit = [i for i in range(m + 1) if self._match(obs[i], cnd[i])]
        if k in TRACE:
            tau = c["tau"]
            if k in ("NT", "CT"):
                amp = lambda i: c["A"]
            elif k == "ELIG":
                amp = lambda i: (1 / tau) * obs[i]
            else:
                amp = lambda i: c["scale"] * obs[i] + c["A"]
            if k in ("CT", "SCT", "CCT", "ELIG"):
                return math.fsum(amp(i) * math.exp(-(T[m] - T[i]) / tau) for i in hit)
            return amp(hit[-1]) * math.exp(-(T[m] - T[hit[-1]]) / tau) if hit else 0.0
        if k == "EV":
            if hit:
                return T[m] - T[hit[-1]]
            return self.fill + (T[m] - T[0])
        if k == "PT":
            return obs[m]
        if k == "CA":
            return math.fsum(obs) / (m + 1)
        if k == "EMA":
            a = c["alpha"]
            return (1 - a) ** m * obs[0] + math.fsum(a * (1 - a) ** (m - i) * obs[i] for i in range(1, m + 1))
        raise AssertionError(k)

    def _interp(self, older, newer, elapsed):
        k = self.cfg["kind"]
        if k in TRACE:
            return older * math.exp(-elapsed / self.cfg["tau"])
        if k == "EV":
            return older + elapsed
        if k == "PT":
            return older
        return older + (newer - older) / self.dt * elapsed

    def _resize(self, n2):
        if self.hist is not None and n2 != self.n:
            P = len(self.hist[0])
            self.hist = (self.hist + [[0.0] * P for _ in range(max(0, n2 - self.n))])[:n2]
        self.n = n2

    def exec(self, op):
        t = op[0]
        if t == "obs":
            _, ip, shape, vals, conds = op
            if self.log:
                self.time += self.dt
            self.log.append((list(vals), None if conds is None else list(conds), self.time))
            x = [self._value(e) for e in range(len(vals))]
            base = self.hist if self.hist is not None else [[self.fill] * len(vals) for _ in range(self.n)]
            self.hist = ([x] + base)[: self.n]
            return "ok"
        if t == "clear":
            self.hist, self.log, self.time = None, [], 0.0
            return "ok"
        if t == "peek":
            return None if self.hist is None else ("vec", list(self.hist[0]))
        if t == "dump":
            return None if self.hist is None else ("rows", [list(r) for r in self.hist])
        if t == "view":
            _, mode, tol, times = op
            if self.hist is None:
                return None
            P = len(self.hist[0])
            ts = [times[0]] * P if mode == "S" else list(times)
            if any(x < -tol or x > self.dt * (self.n - 1) + tol for x in ts):
                return ("err", "ValueError")
            out = []
            for e, x in enumerate(ts):
                k = rhe(x / self.dt)
                if abs(self.dt * k - x) <= tol:
                    out.append(self.hist[k][e])
                else:
                    kc, kf = math.ceil(x / self.dt), math.floor(x / self.dt)
                    out.append(self._interp(self.hist[kc][e], self.hist[kf][e], kc * self.dt - x))
            return ("vec", out)
        if t == "setdt":
            self.dt = op[1]
            self._resize(recsz(self.dt, self.dur, self.incl))
            return "ok"
        if t == "setdur":
            self.dur = op[1]
            self._resize(recsz(self.dt, self.dur, self.incl))
            return "ok"
        if t == "cfg":
            dec = math.exp(-self.dt / self.cfg["tau"]) if self.cfg["kind"] in TRACE else None
            cnt = len(self.log) if self.cfg["kind"] == "CA" else None
            return ("cfg", self.n, self.dt, self.dur, dec, cnt, self.hist is None)
        raise AssertionError(op)


# ---------------------------------------------------------------------------------------------
# generators

DTS = [0.25, 0.5, 1.0, 2.0]


def make_cfg(rng, kind, dur_steps=None, bool_obs=None):
    dt = rng.choice(DTS)
    steps = dur_steps if dur_steps is not None else rng.choice([0, 0, 1, 2, 2.5, 3, 4, 6])
    cfg = dict(kind=kind, dt=dt, dur=steps * dt, incl=rng.random() < 0.4)
    if kind in TRACE:
        cfg["tau"] = rng.choice([2.0, 4.0, 5.0, 10.0, 20.0])
    if kind in ("NT", "CT", "SNT", "SCT", "CNT", "CCT"):
        cfg["A"] = rng.choice([1.0, 0.5, -1.0, 2.0, 0.25])
    if kind in ("NT", "CT"):
        cfg["bool_obs"] = rng.random() < 0.5 if bool_obs is None else bool_obs
        if cfg["bool_obs"]:
            cfg["target"], cfg["tol"] = rng.choice([1.0, 1.0, 0.0]), rng.choice([None, None, 0.25])
        else:
            cfg["target"], cfg["tol"] = rng.choice([1.0, 0.0, 0.5, -0.25]), rng.choice([None, 0.125, 0.25, 0.5])
    if kind in ("SNT", "SCT", "CNT", "CCT"):
        cfg["scale"] = rng.choice([0.5, 1.0, -0.25, 2.0, 0.0])
    if kind in ("SNT", "SCT", "EV"):
        cfg["crit"] = [rng.choice(["gt", "ge"]), rng.choice([0.0, 0.5, -0.25, 0.25])]
    if kind == "EV":
        cfg["initial"] = rng.choice(["inf", "inf", "zero", "nan"])
        cfg["bool_obs"] = rng.random() < 0.3 if bool_obs is None else bool_obs
    if kind in ("PT", "CA"):
        cfg["bool_obs"] = rng.random() < 0.25 if bool_obs is None else bool_obs
    if kind == "EMA":
        cfg["alpha"] = rng.choice([0.25, 0.5, 0.125, 0.75, 1.0, 0.0])
    return cfg


def gen_obs(rng, cfg, P, sparse):
    k = cfg["kind"]
    vals = []
    for _ in range(P):
        if cfg.get("bool_obs"):
            vals.append(1.0 if rng.random() < (0.25 if sparse else 0.6) else 0.0)
        elif k in ("NT", "CT") and rng.random() < 0.6:
            # at, on the edge of, or just outside the tolerance band around the target
            tol = cfg["tol"] or 0.0
            vals.append(cfg["target"] + rng.choice([0.0, tol, -tol, tol + 0.125, -tol - 0.125, 0.0]))
        else:
            vals.append(rng.randint(-16, 16) / 8)
    conds = [rng.random() < (0.3 if sparse else 0.6) for _ in range(P)] if k in ("CNT", "CCT") else None
    return vals, conds


def view_ops(rng, n, dt, P, tol=None):
    """one on-grid, one near-grid, one off-grid (scalar and tensor), sometimes out of range"""
    tol = tol if tol is not None else rng.choice([1e-7, 1e-7, 0.0, 0.0625 * dt])
    out = []
    ks = list(range(n))
    k = rng.choice(ks)
    out.append(["view", "S", tol, [k * dt]])
    out.append(["view", "T", tol, [rng.choice(ks) * dt for _ in range(P)]])
    if tol > 0:
        out.append(["view", "S", tol, [k * dt + rng.choice([-1, 1]) * tol / 2 if 0 < k < n - 1 else k * dt]])
    if n >= 2:
        fr = [0.25, 0.5, 0.75, 0.125, 0.875]
        out.append(["view", "S", tol, [(rng.randrange(n - 1) + rng.choice(fr)) * dt]])
        out.append(["view", "T", tol, [(rng.randrange(n - 1) + rng.choice(fr + [0.0, 1.0])) * dt for _ in range(P)]])
    if rng.random() < 0.15:
        out.append(["view", "S", tol, [dt * (n - 1) + dt]])
        bad = [0.0] * P
        bad[rng.randrange(P)] = rng.choice([-dt, dt * n])
        out.append(["view", "T", tol, bad])
    return out


def random_case(rng, kind, length, mode):
    """mode: 'plain' | 'clear' | 'config'"""
    cfg = make_cfg(rng, kind)
    shape = rng.choice([(1,), (3,), (2, 2), (4,)])
    if kind == "ELIG":
        shape = (1,) + tuple(shape)                 # leading batch dimension
    P = math.prod(shape)
    sparse = rng.random() < 0.5
    ops = [["cfg"], ["peek"], ["dump"], ["view", "S", 1e-7, [0.0]]]
    dt, dur, incl = cfg["dt"], cfg["dur"], cfg["incl"]
    nobs = 0
    if mode == "config" and rng.random() < 0.8:
        # temporal configuration assigned BEFORE the first observation (D6 / D7)
        for _ in range(rng.randint(1, 2)):
            if rng.random() < 0.5:
                dur = rng.choice([1, 2, 3, 2.5, 4]) * dt
                ops += [["setdur", dur], ["cfg"]]
            else:
                dt = rng.choice([d for d in DTS if d != dt])
                ops += [["setdt", dt], ["cfg"]]
    for _ in range(length):
        n = recsz(dt, dur, incl)
        u = rng.random()
        if (mode == "clear" and u < 0.12) or (mode == "config" and u < 0.06):
            keep = rng.random() < 0.5
            ops += [["clear", keep], ["cfg"], ["peek"], ["dump"]]
            if not keep:
                if rng.random() < 0.3:
                    shape = rng.choice([(1,), (3,), (2, 2), (2,)])
                    if kind == "ELIG":
                        shape = (1,) + tuple(shape)
                    P = math.prod(shape)
            nobs = 0
            continue
        if mode == "config" and u < 0.2:
            if rng.random() < 0.5:
                dur = rng.choice([1, 2, 3, 2.5, 4, 6]) * dt
                ops += [["setdur", dur], ["cfg"]]
            else:
                dt = rng.choice([d for d in DTS if d != dt])
                ops += [["setdt", dt], ["cfg"]]
            if nobs:
                ops += [["dump"]]
            continue
        vals, conds = gen_obs(rng, cfg, P, sparse)
        ops.append(["obs", rng.random() < 0.5, list(shape), vals, conds])
        nobs += 1
        ops.append(["peek"])
        v = rng.random()
        if v < 0.35:
            ops.append(["dump"])
        if v > 0.5:
            ops += view_ops(rng, n, dt, P)
        if rng.random() < 0.1:
            ops.append(["cfg"])
    ops += [["dump"], ["cfg"]]
    return {"cfg": cfg, "ops": ops, "stream": mode}


def regrow_case(rng, kind):
    """observe, clear(keepshape), GROW the record by a dt / duration assignment, observe again, look at every slot
    (D34: the new slots must show the fill value — inf / nan for EventReducer — exactly as on a new reducer);
    then grow again WHILE observing (new slots are zero: resize_while_observing)"""
    cfg = make_cfg(rng, kind, dur_steps=rng.choice([1, 2, 3]))
    if kind == "EV":
        cfg["initial"] = rng.choice(["inf", "nan", "inf", "zero"])
    shape = (1, 2) if kind == "ELIG" else rng.choice([(2,), (3,), (1,)])
    P = math.prod(shape)
    dt, dur, incl = cfg["dt"], cfg["dur"], cfg["incl"]
    ops = []

    def observe(k):
        for _ in range(k):
            vals, conds = gen_obs(rng, cfg, P, False)
            ops.append(["obs", rng.random() < 0.5, list(shape), vals, conds])
        ops.append(["peek"])

    def look():
        n = recsz(dt, dur, incl)
        ops.append(["dump"])
        ops.append(["view", "T", 1e-7, [rng.randrange(n) * dt for _ in range(P)]])
        ops.append(["view", "S", 1e-7, [(n - 1) * dt]])

    observe(rng.randint(1, 3))
    for keep in ([True, rng.random() < 0.7] if rng.random() < 0.5 else [True]):
        ops.append(["clear", keep])
        if rng.random() < 0.5 or dt == DTS[0]:
            dur = dur + rng.choice([2, 3, 4]) * dt
            ops += [["setdur", dur], ["cfg"]]
        else:
            dt = rng.choice([d for d in DTS if d < dt])
            if recsz(dt, dur, incl) < 3:
                dur = 3 * dt
                ops += [["setdur", dur]]
            ops += [["setdt", dt], ["cfg"]]
        ops += [["peek"], ["dump"]]
        observe(rng.randint(1, 2))
        look()
    dur = dur + rng.choice([2, 3]) * dt          # grow while observing: zero padding
    ops += [["setdur", dur], ["cfg"]]
    look()
    observe(1)
    look()
    return {"cfg": cfg, "ops": ops, "stream": "regrow"}


def exhaustive_case(rng, kind, T):
    """every boolean event history of length T at once: element e follows the bits of e"""
    cfg = make_cfg(rng, kind, dur_steps=rng.choice([2, 3]), bool_obs=True)
    if kind in ("NT", "CT"):
        cfg["target"], cfg["tol"] = 1.0, None
    if kind in ("SNT", "SCT", "EV"):
        cfg["crit"] = ["gt", 0.5]
    P = 2 ** T
    ops = []
    n = recsz(cfg["dt"], cfg["dur"], cfg["incl"])
    for t in range(T):
        bits = [float((e >> t) & 1) for e in range(P)]
        conds = [bool((e >> t) & 1) for e in range(P)] if kind in ("CNT", "CCT") else None
        if kind in ("CNT", "CCT"):
            bits = [rng.randint(-8, 8) / 8] * P
        ops += [["obs", t % 2 == 0, [P] if kind != "ELIG" else [1, P], bits, conds], ["peek"]]
    ops += [["dump"]]
    for k in range(n):
        ops.append(["view", "S", 1e-7, [k * cfg["dt"]]])
    if n >= 2:
        ops.append(["view", "S", 1e-7, [0.5 * cfg["dt"]]])
        ops.append(["view", "T", 1e-7, [((e % (n - 1)) + 0.25) * cfg["dt"] for e in range(P)]])
    return {"cfg": cfg, "ops": ops, "stream": "exhaustive"}


# multiples of the tolerance by which an observation is displaced from the target: inside, ON the edge (a match), and outside the
# band by a hair (2^-10 of the tolerance), by a fraction, by a few tolerances, by many — the band is ABSOLUTE: |h - h*| <= eps
# whatever the magnitude of h*
BAND_MULT = [0.0, 0.5, 1.0, 1.0, 1 + 2 ** -10, 1 + 2 ** -6, 1.125, 1.25, 1.5, 2.0, 3.0, 5.0, 17.0, 100.0, 1000.0]


def band_cfg(rng, cfg):
    """target of any magnitude (2^-4 .. 5*2^20, either sign, or 0) with a dyadic tolerance 2^-3 .. 2^-10 — everything exact in
    float64, so whether an observation is an event is decided without rounding"""
    cfg["bool_obs"] = False
    cfg["target"] = rng.choice([1.0, -1.0]) * rng.choice([1.0, 1.0, 3.0, 5.0]) * 2.0 ** rng.choice([-4, 0, 3, 7, 10, 10, 12, 16, 20])
    if rng.random() < 0.1:
        cfg["target"] = 0.0
    cfg["tol"] = 2.0 ** -rng.choice([3, 6, 8, 8, 10])
    return cfg


def band_obs(rng, cfg, P):
    vals = []
    for _ in range(P):
        u = rng.random()
        if u < 0.8:
            vals.append(cfg["target"] + rng.choice([-1.0, 1.0]) * rng.choice(BAND_MULT) * cfg["tol"])
        elif u < 0.9:
            vals.append(rng.choice([0.0, -cfg["target"], cfg["target"] / 2, cfg["target"] * 2]))
        else:
            vals.append(rng.randint(-16, 16) / 8)
    return vals


def tolband_case(rng, kind):
    """NearestTraceReducer / CumulativeTraceReducer with a tolerance, targets of every magnitude, observations placed at
    multiples of the tolerance around the target (see BAND_MULT); every slot of the record is read back"""
    cfg = band_cfg(rng, make_cfg(rng, kind, dur_steps=rng.choice([0, 2, 3, 4]), bool_obs=False))
    shape = rng.choice([(4,), (6,), (2, 3), (8,)])
    P = math.prod(shape)
    dt, n = cfg["dt"], recsz(cfg["dt"], cfg["dur"], cfg["incl"])
    ops = []
    for _ in range(rng.randint(5, 10)):
        ops += [["obs", rng.random() < 0.5, list(shape), band_obs(rng, cfg, P), None], ["peek"]]
        if rng.random() < 0.3:
            ops += view_ops(rng, n, dt, P)
        if rng.random() < 0.1:
            ops += [["clear", rng.random() < 0.5], ["peek"]]
    ops += [["dump"], ["cfg"]]
    return {"cfg": cfg, "ops": ops, "stream": "tolband"}


def corpus_cases():
    d = Path(__file__).resolve().parent.parent.parent / "corpus" / "C07"
    out = []
    if d.exists():
        for f in sorted(d.glob("*.json")):
            c = json.loads(f.read_text())
            c["ops"] = unjson(c["ops"])
            out.append(c)
    return out


def unjson(a):
    """inverse of `jsonable` (non-finite floats are stored as their repr)"""
    if isinstance(a, str) and a in ("inf", "-inf", "nan"):
        return float(a)
    if isinstance(a, list):
        return [unjson(x) for x in a]
    return a


# ---------------------------------------------------------------------------------------------
# running and judging one case

def run_real(case):
    ex = Real(case["cfg"])
    return [ex.exec(op) for op in case["ops"]]


def run_oracle(case):
    o = Oracle(case["cfg"])
    out = []
    for op in case["ops"]:
        try:
            out.append(o.exec(op))
        except (IndexError, ZeroDivisionError, OverflowError) as e:   # e.g. view index beyond a resized record
            out.append(("err", "oracle-" + type(e).__name__))
    return out


def judge(case, real, resp, oracle):
    """first disagreement: (index, kind, which, expected, observed) or None; spec findings take precedence"""
    exact = case["cfg"]["kind"] in EXACT
    exact2 = case["cfg"]["kind"] in ("EV", "PT")
    for i, op in enumerate(case["ops"]):
        r = real[i]
        m = s = None
        if resp is not None:
            m, s = parse_resp(resp[i], op)
        o = oracle[i]
        if not (isinstance(o, tuple) and o[0] == "err" and str(o[1]).startswith("oracle-")):
            if not same_ans(r, o, exact2):
                return (i, "spec", "closed-form", o, r)
        if resp is not None:
            if not same_ans(r, s, exact):
                return (i, "spec", "lean-spec", s, r)
            if not same_ans(r, m, exact):
                return (i, "model", "lean-model", m, r)
    return None


def key_of(case, d):
    op = case["ops"][d[0]][0]
    return f"C07:{d[1]}:{case['cfg']['kind']}:{op}"


def shrink(ctx, case, kind, use_driver, max_tries=25, which=None):
    if which == "closed-form":          # judged without the driver: cheap, so shrink harder
        use_driver, max_tries = False, 200
    cur = dict(case)
    ops = list(case["ops"])
    tries = 0

    def fails(c):
        real, orc = run_real(c), run_oracle(c)
        resp = ctx.run_driver(DRIVER, case_lines(c))[1:] if use_driver else None
        d = judge(c, real, resp, orc)
        return d is not None and d[1] == kind

    changed = True
    while changed and tries < max_tries:
        changed = False
        for i in range(len(ops) - 2, -1, -1):
            if tries >= max_tries:
                break
            cand = dict(cur, ops=ops[:i] + ops[i + 1:])
            tries += 1
            try:
                if fails(cand):
                    ops = cand["ops"]
                    changed = True
            except Exception:
                pass
    return dict(cur, ops=ops)


def jsonable(a):
    if isinstance(a, float):
        return a if math.isfinite(a) else repr(a)
    if isinstance(a, (list, tuple)):
        return [jsonable(x) for x in a]
    return a


def run_cases(ctx, cases, ex: Exploration, use_driver: bool, max_findings=4):
    lines, spans = [], []
    for c in cases:
        ls = case_lines(c)
        spans.append((len(lines) + 1, len(lines) + len(ls)))
        lines += ls
    resp = ctx.run_driver(DRIVER, lines) if use_driver else None
    found = 0
    for c, (a, z) in zip(cases, spans):
        real, orc = run_real(c), run_oracle(c)
        r = resp[a:z] if resp is not None else None
        if r is not None and any(x == "bad-op" for x in resp[a - 1:z]):
            raise RuntimeError(f"driver rejected a request of case {c['cfg']}")
        ex.evaluations += len(c["ops"])
        ex.traces_validated += 1
        k = c["cfg"]["kind"]
        ex.count("class", CLASS[k])
        ex.count("stream", c.get("stream", "?"))
        ex.count("dt", str(c["cfg"]["dt"]))
        ex.count("recordsz", str(recsz(c["cfg"]["dt"], c["cfg"]["dur"], c["cfg"]["incl"])))
        for op, rr in zip(c["ops"], real):
            ex.count("ops", op[0] + (":" + op[1] if op[0] == "view" else (":" + b(op[1]) if op[0] == "clear" else "")))
            if isinstance(rr, tuple) and rr[0] == "err":
                ex.count("errors", rr[1])
        if any(isinstance(rr, tuple) and rr[0] in ("vec", "rows") for rr in real):
            ex.nontriv((json.dumps(c["cfg"], sort_keys=True), json.dumps(c["ops"])))
        d = judge(c, real, r, orc)
        if d is None:
            continue
        found += 1
        if found > max_findings:
            continue
        small = shrink(ctx, dict(c, ops=c["ops"][: d[0] + 1]), d[1], use_driver, which=d[2])
        real2, orc2 = run_real(small), run_oracle(small)
        resp2 = ctx.run_driver(DRIVER, case_lines(small))[1:] if use_driver else None
        d2 = judge(small, real2, resp2, orc2) or d
        if d2 is d:
            small = dict(c, ops=c["ops"][: d[0] + 1])
        ex.findings.append(Finding(
            kind=d2[1], key=key_of(small, d2),
            what=f"{CLASS[k]} op {small['ops'][d2[0]][:2]}: {d2[2]} expects {jsonable(d2[3])}, real code gives {jsonable(d2[4])}",
            case={"cfg": small["cfg"], "ops": jsonable(small["ops"]), "index": d2[0], "against": d2[2],
                  "expected": jsonable(d2[3]), "observed": jsonable(d2[4]),
                  "disagreement": "code vs specification" if d2[1] == "spec" else "code vs code-shaped model"}))


# ---------------------------------------------------------------------------------------------
# functional API (inferno.trace_* called directly)

def functional_stream(ctx, ex: Exploration, ncase: int, use_driver: bool):
    rng = ctx.rng
    names = ["trace_nearest", "trace_cumulative", "exp_trace_nearest", "exp_trace_cumulative",
             "exprate_trace_nearest", "exprate_trace_cumulative", "trace_nearest_scaled",
             "trace_cumulative_scaled", "trace_cumulative_value"]
    cases, lines, spans = [], [], []
    nband = max(12, ncase // 3)          # the six target / tolerance functions again, on the `tolband` inputs
    for i in range(ncase + nband):
        band = i >= ncase
        fn = names[i % len(names)] if not band else names[(i - ncase) % 6]
        dt, tau = rng.choice(DTS), rng.choice([2.0, 4.0, 5.0, 10.0])
        A, sc = rng.choice([1.0, 0.5, -1.0, 2.0]), rng.choice([0.5, 1.0, -0.25])
        target, tol = rng.choice([1.0, 0.0, 0.5]), rng.choice([None, 0.125, 0.25])
        crit = [rng.choice(["gt", "ge"]), rng.choice([0.0, 0.5, 0.25])]
        T, P = rng.randint(1, 12), rng.randint(1, 4)
        if band:
            bc = band_cfg(rng, {})
            target, tol, P = bc["target"], bc["tol"], rng.randint(3, 6)
            seq = [band_obs(rng, bc, P) for _ in range(T)]
        else:
            seq = [[rng.choice([target, target + (tol or 0.0), target - (tol or 0.0) - 0.125, rng.randint(-8, 8) / 8])
                    for _ in range(P)] for _ in range(T)]
        decay = math.exp(-dt / tau)
        f = getattr(inferno, fn)
        if fn in ("trace_nearest", "trace_cumulative"):
            call = lambda o, x: f(o, x, decay=decay, amplitude=A, target=target, tolerance=tol)
        elif fn.startswith("exp_"):
            call = lambda o, x: f(o, x, step_time=dt, time_constant=tau, amplitude=A, target=target, tolerance=tol)
        elif fn.startswith("exprate_"):
            call = lambda o, x: f(o, x, step_time=dt, rate_constant=1 / tau, amplitude=A, target=target, tolerance=tol)
        elif fn.endswith("_scaled"):
            call = lambda o, x: f(o, x, decay=decay, amplitude=A, scale=sc, matchfn=crit_fn(crit))
        else:
            call = lambda o, x: f(o, x, decay=decay, scale=sc)
        kind = {"trace_nearest": "NT", "exp_trace_nearest": "NT", "exprate_trace_nearest": "NT",
                "trace_cumulative": "CT", "exp_trace_cumulative": "CT", "exprate_trace_cumulative": "CT",
                "trace_nearest_scaled": "SNT", "trace_cumulative_scaled": "SCT", "trace_cumulative_value": "ELIG"}[fn]
        cfg = dict(kind=kind, dt=dt, dur=0.0, incl=False, tau=tau, A=A, target=target, tol=tol, scale=sc, crit=crit)
        if kind == "ELIG":
            # the reducer fixes scale = 1/tau: feed observations pre-multiplied so that (1/tau)·o' = sc·o
            cfg["premul"] = sc * tau
        x, got = None, []
        with torch.no_grad():
            for row in seq:
                x = call(torch.tensor(row, dtype=torch.float64), x)
                got.append(tolist(x))
        mul = cfg.get("premul", 1.0)
        case = {"cfg": cfg, "ops": [op for row in seq for op in (["obs", False, [P], [v * mul for v in row], None], ["peek"])],
                "stream": ("functional-band:" if band else "functional:") + fn}
        cases.append((case, got, fn, seq))
        ls = case_lines(case)
        spans.append((len(lines) + 1, len(lines) + len(ls)))
        lines += ls
    resp = ctx.run_driver(DRIVER, lines) if use_driver else None
    for (case, got, fn, seq), (a, z) in zip(cases, spans):
        orc = run_oracle(case)
        ex.evaluations += len(got)
        ex.count("functional" if case["stream"].startswith("functional:") else "functional-band", fn)
        ex.nontriv(("functional", fn, json.dumps(case["cfg"], sort_keys=True), json.dumps(seq)))
        peeks_o = [o for op, o in zip(case["ops"], orc) if op[0] == "peek"]
        peeks_m = None
        if resp is not None:
            rr = resp[a:z]
            peeks_m = [parse_resp(l, op)[0] for op, l in zip(case["ops"], rr) if op[0] == "peek"]
        for t, g in enumerate(got):
            bad = None
            if not same_ans(("vec", g), peeks_o[t], False):
                bad = ("spec", "closed-form", peeks_o[t])
            elif peeks_m is not None and not same_ans(("vec", g), peeks_m[t], False):
                bad = ("model", "lean-model", peeks_m[t])
            if bad:
                ex.findings.append(Finding(
                    kind=bad[0], key=f"C07:{bad[0]}:functional:{fn}",
                    what=f"inferno.{fn} iterated {t + 1} steps: {bad[1]} expects {jsonable(bad[2])}, real code gives {g}",
                    case={"function": fn, "cfg": case["cfg"], "observations": seq[: t + 1], "expected": jsonable(bad[2]),
                          "observed": g, "disagreement": "code vs specification" if bad[0] == "spec" else "code vs code-shaped model"}))
                break


# ---------------------------------------------------------------------------------------------

def build_cases(ctx, thorough):
    rng = ctx.rng
    cases = corpus_cases()
    ncorpus = len(cases)
    per = 14 if not thorough else 120
    length = 14 if not thorough else 36
    for kind in KINDS:
        cases.append(exhaustive_case(rng, kind, 5 if not thorough else 8))
        for mode in ("plain", "clear", "config"):
            for _ in range(per):
                cases.append(random_case(rng, kind, rng.randint(4, length), mode))
        for _ in range(max(3, per // 3) * (3 if kind == "EV" else 1)):
            cases.append(regrow_case(rng, kind))
    for kind in ("NT", "CT"):
        for _ in range(10 if not thorough else 80):
            cases.append(tolband_case(rng, kind))
    return cases, ncorpus


def _explore(ctx, use_driver: bool) -> Exploration:
    torch.set_default_dtype(torch.float64)
    ex = Exploration()
    thorough = ctx.tier == "thorough" or ctx.intensify
    if use_driver:
        transval.validate(ctx, SPEC["translate"], ex, per_fn=40 if not thorough else 200)
    cases, ncorpus = build_cases(ctx, thorough)
    run_cases(ctx, cases, ex, use_driver)
    functional_stream(ctx, ex, 63 if not thorough else 900, use_driver)
    ex.rule = ("per reducer class (10 exported + EligibilityTraceReducer): one EXHAUSTIVE case (all 2^T boolean event histories at once, one "
               "element per history, T=5 quick / 8 thorough) + seeded random operation sequences in four streams — plain (observe / peek / "
               "dump / view), clear (interleaved clear(keepshape=True/False), shape change after deinitialisation), config (dt / duration "
               "assigned before the first observation, after a clear and mid-run), regrow (observe, clear(keepshape), grow the record, observe, "
               "read every slot — all fills incl. EventReducer inf / nan; then grow while observing), and for the two target / tolerance reducers "
               "tolband (targets of every magnitude 2^-4 .. 5*2^20 of either sign, dyadic tolerances 2^-3 .. 2^-10, observations displaced from the "
               "target by multiples of the tolerance: inside, on the edge, outside by 2^-10 of a tolerance up to 1000 tolerances — the band "
               "|h - h*| <= eps is absolute) — over dt in {1/4,1/2,1,2}, duration 0..6 steps (incl. non-integer), "
               "inclusive on/off, in-place on/off, boolean and dyadic real observations (on / at the edge of / outside the tolerance band), "
               "scalar and per-element tensor view times on the grid, within tolerance, off the grid and out of range; plus the functional "
               "API inferno.trace_* / exp_trace_* / exprate_trace_* iterated directly (also on the tolband inputs). Every answer is compared with the Lean code-shaped "
               "machine, the Lean specification machine and independently computed closed-form sums. Non-trivial = the real reducer "
               "returned at least one tensor; distinct = distinct (configuration, operation list).")
    ex.samples = [{"cfg": c["cfg"], "ops": jsonable(c["ops"][:8])} for c in (cases[ncorpus], cases[ncorpus + 1], cases[-1])]
    ex.extra["streams"] = {"corpus": ncorpus, "cases": len(cases), "driver_used": use_driver}
    return ex


def explore(ctx) -> Exploration:
    return _explore(ctx, True)


def explore_impl_only(ctx) -> Exploration:
    """the Lean build failed: judge the real code against the closed-form specification only"""
    return _explore(ctx, False)


def replay(ctx, data) -> int:
    torch.set_default_dtype(torch.float64)
    case = data.get("failing_input") or data
    if "function" in case:
        print("functional-API replay:", json.dumps(case, indent=1))
        return 1
    if "ops" not in case:
        print("replay file has no op sequence (proof/tie breakage without failing input):", data.get("broken"))
        return 1
    case = {"cfg": case["cfg"], "ops": unjson(case["ops"])}
    real, orc = run_real(case), run_oracle(case)
    try:
        resp = ctx.run_driver(DRIVER, case_lines(case))[1:]
    except Exception as e:
        print("driver unavailable:", e)
        resp = None
    print("cfg:", case["cfg"])
    for i, op in enumerate(case["ops"]):
        print(f"{op}\n    real:        {real[i]}\n    closed-form: {orc[i]}" + (f"\n    lean:        {resp[i]}" if resp else ""))
    d = judge(case, real, resp, orc)
    print("DISAGREEMENT" if d else "agrees", d or "")
    return 1 if d else 0
