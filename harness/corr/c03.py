"""C03 — neuron step contract.

Tie: (a) the thresholding / integration / adaptation kernels are GENERATED from /repo by
harness/translate.py and validated against the Python originals on every run (transval);
(b) the class wiring of the eight neuron models (Model/NeuronF.lean, hand written on top of the
generated Float kernels) is compared with the real classes after every step (spikes exactly,
voltage / refrac / adaptations to 1e-9 relative).
Search: the real trajectories are judged against an independent statement of the contract
(documented update equation, threshold rule, reset, refractory window, refrac >= 0, spike attribute).
The contract is a one-step oracle over the COMPLETE state (voltage, remaining refractory time, adaptations):
from the real state before a step the documented equations give the state after it — including the voltage of
an unlocked refractory neuron (integrates with its input masked), the refractory countdown, and the adaptation
update with its refractory freeze; a deviation there is followed by a free run of the documented dynamics to
name the first spike it displaces.  Input streams: pre-drawn (zero / huge / negative / near-threshold) and
STATE-AWARE adversarial drives computed from the neuron's state at run time (land the integrated voltage at a
chosen fraction of the way to the current threshold from either side; oppose the intrinsic drive by a chosen
factor, however large that drive is), plus exponential neurons with a sharp upswing and a threshold far above
the rheobase voltage.
"""
from __future__ import annotations

import math

import torch

import inferno.neural as snn

from runner import Exploration, Finding
import transval
from transval import hx, unhx

SPEC = {
    "prop": "C03",
    "lean_targets": ["InfernoVerif.Props.C03", "InfernoVerif.Props.C03GlueF", "InfernoVerif.Props.C03GlueProg", "InfernoVerif.Model.NeuronF", "InfernoVerif.Gen.Dispatch"],
    "prop_files": ["InfernoVerif/Props/C03.lean", "InfernoVerif/Props/C03GlueF.lean", "InfernoVerif/Props/C03GlueProg.lean"],
    "lemma_files": ["InfernoVerif/Lemmas/Neuron.lean"],
    "model_files": ["InfernoVerif/Model/NeuronF.lean", "InfernoVerif/Gen/NeuronDynamicsF.lean",
                    "InfernoVerif/Gen/NeuronAdaptationF.lean", "InfernoVerif/Gen/NeuronDynamicsR.lean",
                    "InfernoVerif/Gen/NeuronAdaptationR.lean"],
    "translate": ["NeuronDynamics", "NeuronAdaptation", "NeuronSites", "NeuronProg"],
    "driver_targets": ["InfernoVerif.Model.NeuronF", "InfernoVerif.Gen.Dispatch"],
    "assumptions": [
        "theorems are over exact reals; float rounding that changes a discrete outcome (e.g. refrac_t/dt not representable) is exercised "
        "in a separate non-representable stream judged with the property's own tolerance — partial (float)",
        "adaptive classes are compared per element with batch size 1 (adaptations are shared over the batch by a batch reduction)",
        "CPU, float64",
    ],
}
DRIVER = "drivers/C03.lean"
KINDS = ["LIF", "ALIF", "GLIF1", "GLIF2", "QIF", "Izhikevich", "EIF", "AdEx"]
ADAPTIVE = {"ALIF", "GLIF2", "Izhikevich", "AdEx"}


def make_cfg(rng, kind, refrac_choice=None, upswing=False):
    dt = rng.choice([0.25, 0.5, 1.0, 2.0])
    rest = rng.choice([-70.0, -65.0, -60.0])
    thresh = rng.choice([-50.0, -52.0, -45.0])
    reset = rng.choice([-75.0, -65.0, -68.0])
    rmul = refrac_choice if refrac_choice is not None else rng.choice([0.0, 0.5, 1.0, 2.0, 2.5, 3.0, 5.0, 0.25, 0.125, 0.75])
    cfg = dict(kind=kind, dt=dt, rest=rest, reset=reset, thresh=thresh, refracT=rmul * dt,
               tau=rng.choice([5.0, 10.0, 20.0]), R=rng.choice([1.0, 0.5, 2.0]),
               a=0.0, b=0.0, slope=0.0, icpt=0.0, tcA=[], vcA=[], incA=[])
    if kind in ("QIF", "Izhikevich"):
        cfg["a"] = rng.choice([-55.0, -53.0])            # crit_v  (rest < crit <= thresh)
        cfg["b"] = rng.choice([0.03125, 0.0625, 0.125])  # affinity
        cfg["tau"] = rng.choice([4.0, 8.0, 16.0])        # powers of two: the Euler step is exact on dyadic inputs
    if kind in ("EIF", "AdEx"):
        cfg["a"] = rng.choice([-55.0, -53.0])            # rheobase_v
        cfg["b"] = rng.choice([1.0, 2.0, 0.5])           # sharpness
        if upswing:
            # sharp upswing, threshold far above the rheobase voltage: (thresh - rheobase) / sharpness in 25 .. 300
            cfg["a"] = rng.choice([-55.0, -50.0])
            cfg["b"] = rng.choice([0.5, 0.25, 1.0])
            cfg["thresh"] = rng.choice([-25.0, -30.0, -20.0, 0.0, 20.0])
            cfg["upswing"] = True
    if kind == "GLIF2":
        cfg["slope"] = rng.choice([0.25, 0.5, 0.125])
        cfg["icpt"] = rng.choice([2.0, 4.0, 1.0])
    if kind in ADAPTIVE:
        k = rng.randint(1, 3)
        cfg["tcA"] = [rng.choice([4.0, 8.0, 16.0, 32.0]) for _ in range(k)]
        cfg["incA"] = [rng.choice([0.5, 1.0, 2.0, 0.25]) for _ in range(k)]
        if kind in ("Izhikevich", "AdEx"):
            cfg["vcA"] = [rng.choice([0.0, 0.25, 0.5, -0.25]) for _ in range(k)]
    return cfg


def build(cfg, shape, batch):
    k, c = cfg["kind"], cfg
    if k in ("LIF", "GLIF1"):
        return getattr(snn, k)(shape, c["dt"], rest_v=c["rest"], reset_v=c["reset"], thresh_v=c["thresh"],
                               refrac_t=c["refracT"], time_constant=c["tau"], resistance=c["R"], batch_size=batch)
    if k == "ALIF":
        return snn.ALIF(shape, c["dt"], rest_v=c["rest"], reset_v=c["reset"], thresh_eq_v=c["thresh"],
                        refrac_t=c["refracT"], tc_membrane=c["tau"], tc_adaptation=tuple(c["tcA"]),
                        spike_increment=tuple(c["incA"]), resistance=c["R"], batch_size=batch)
    if k == "GLIF2":
        # the class takes rate constants; the model takes the time constants 1 / rc the code computes
        return snn.GLIF2(shape, c["dt"], rest_v=c["rest"], reset_v_add=c["icpt"], reset_v_mul=c["slope"],
                         thresh_eq_v=c["thresh"], refrac_t=c["refracT"], tc_membrane=c["tau"],
                         rc_adaptation=tuple(1.0 / t for t in c["tcA"]), spike_increment=tuple(c["incA"]),
                         resistance=c["R"], batch_size=batch)
    if k == "QIF":
        return snn.QIF(shape, c["dt"], rest_v=c["rest"], crit_v=c["a"], affinity=c["b"], reset_v=c["reset"],
                       thresh_v=c["thresh"], refrac_t=c["refracT"], time_constant=c["tau"], resistance=c["R"], batch_size=batch)
    if k == "Izhikevich":
        return snn.Izhikevich(shape, c["dt"], rest_v=c["rest"], crit_v=c["a"], affinity=c["b"], reset_v=c["reset"],
                              thresh_v=c["thresh"], refrac_t=c["refracT"], tc_membrane=c["tau"],
                              tc_adaptation=tuple(c["tcA"]), voltage_coupling=tuple(c["vcA"]),
                              spike_increment=tuple(c["incA"]), resistance=c["R"], batch_size=batch)
    if k == "EIF":
        return snn.EIF(shape, c["dt"], rest_v=c["rest"], rheobase_v=c["a"], sharpness=c["b"], reset_v=c["reset"],
                       thresh_v=c["thresh"], refrac_t=c["refracT"], time_constant=c["tau"], resistance=c["R"], batch_size=batch)
    if k == "AdEx":
        return snn.AdEx(shape, c["dt"], rest_v=c["rest"], rheobase_v=c["a"], sharpness=c["b"], reset_v=c["reset"],
                        thresh_v=c["thresh"], refrac_t=c["refracT"], tc_membrane=c["tau"],
                        tc_adaptation=tuple(c["tcA"]), voltage_coupling=tuple(c["vcA"]),
                        spike_increment=tuple(c["incA"]), resistance=c["R"], batch_size=batch)
    raise AssertionError(k)


def vec(v):
    return ",".join(hx(x) for x in v) if v else "-"


def begin_line(c):
    return " ".join(["begin", c["kind"]] + [hx(c[k]) for k in ("dt", "rest", "reset", "thresh", "refracT", "tau", "R", "a", "b", "slope", "icpt")]
                    + [vec(c["tcA"]), vec(c["vcA"]), vec(c["incA"])])


def gen_inputs(rng, cfg, T, n):
    """per step a tensor of n inputs: zero / moderate / huge / negative / near-threshold drives"""
    gap = (cfg["thresh"] - cfg["rest"]) / cfg["R"]
    out = []
    mode = rng.choice(["mixed", "strong", "near", "zero-heavy"])
    exact0 = None
    if cfg["kind"] in ("QIF", "Izhikevich"):
        # first step from rest: v' = rest + dt/tau * R * I  — choose I so that v' == thresh EXACTLY
        exact0 = (cfg["thresh"] - cfg["rest"]) * cfg["tau"] / cfg["dt"] / cfg["R"]
    for step in range(T):
        row = []
        for _ in range(n):
            u = rng.random()
            if mode == "zero-heavy" and u < 0.6:
                x = 0.0
            elif u < 0.15:
                x = 0.0
            elif u < 0.3:
                x = rng.choice([1e3, 4096.0, 1e6, 1e9, 1e12, 1e15, 2.0 ** 60])
            elif u < 0.4:
                x = -rng.choice([1.0, 50.0, 1e4])
            elif u < 0.6 or mode == "near":
                x = gap * rng.choice([0.875, 1.0, 1.125, 1.5, 2.0, 4.0]) * rng.choice([1.0, 8.0, 32.0])
            else:
                x = rng.randint(-40, 400) / 4.0
            if mode == "strong":
                x = abs(x) * 16 + 100
            if step == 0 and exact0 is not None and len(row) % 2 == 0:
                x = exact0
            row.append(float(x))
        out.append(row)
    return out


LAND = [0.25, 0.5, 0.75, 0.9, 0.99, 1.01, 1.1, 2.0, -1.0]
OPPOSE = [1e-6, 1e-4, 1e-2, 0.5, 0.9, 1.1, 2.0, 100.0]


def aware_input(rng, c, v, ad, plain):
    """state-aware adversarial drive for one element whose voltage is v and adaptations are ad (real state before the
    step).  The documented integrated voltage is affine in the input, vint = vint0 + g * I_eff, so the input is
    either chosen to LAND vint a fraction lam of the way from v to the current threshold (lam < 1 just below,
    lam > 1 just above, lam < 0 away from it), or to OPPOSE the intrinsic drive (vint0 - v) / g by a factor k —
    which is a huge negative current when the neuron is deep in a regenerative upswing.  Landing is used only while
    it is well conditioned (the intrinsic change does not dwarf the distance to the threshold, the voltage is within
    a few orders of magnitude of the ordinary range), and k stays away from 1, so that the outcome never hangs on the cancellation of two huge terms."""
    kind = c["kind"]
    if not math.isfinite(v):
        return plain
    thr = c["thresh"] + (sum(ad) if kind in ("ALIF", "GLIF2") else 0.0)
    off = sum(ad) if kind in ("Izhikevich", "AdEx") else 0.0
    vint0 = spec_integrate(c, v, 0.0)
    if not math.isfinite(vint0) or not math.isfinite(thr) or not math.isfinite(off):
        return plain
    if kind in ("LIF", "ALIF", "GLIF1", "GLIF2"):
        g = c["R"] * (1.0 - math.exp(-c["dt"] / c["tau"]))
    else:
        g = c["dt"] / c["tau"] * c["R"]
    gapv = thr - v
    # landing from a voltage far outside the ordinary range would make the new voltage a small difference of huge terms
    # (and repeated landings would amplify one-ulp differences a hundredfold per step): only oppose there
    well = abs(vint0 - v) <= 1e3 * (abs(gapv) + 1.0) and abs(v) <= 1e3 * (abs(thr) + abs(c["rest"]) + 1.0)
    if well and rng.random() < 0.55:
        ieff = (v + rng.choice(LAND) * gapv - vint0) / g
    else:
        drive = (vint0 - v) / g
        if abs(drive) < 1.0:
            return plain
        ieff = -rng.choice(OPPOSE) * drive
    if sum(abs(w) for w in ad) > 1e4 * (abs(ieff) + 1.0):
        return plain        # the effective input would be the difference of two huge numbers (input and adaptation currents)
    x = ieff + off
    return float(x) if math.isfinite(x) else plain


def approx(a, b, tol=1e-9):
    if a == b:
        return True
    if math.isnan(a) and math.isnan(b):
        return True
    if math.isinf(a) or math.isinf(b):
        return a == b
    return abs(a - b) <= tol * max(1.0, abs(a), abs(b))


# ---- independent statement of the contract (the documented equations), per element --------------
def spec_integrate(c, v, I):
    k = c["kind"]
    if k in ("LIF", "ALIF", "GLIF1", "GLIF2"):
        vinf = c["rest"] + c["R"] * I
        return vinf + (v - vinf) * math.exp(-c["dt"] / c["tau"])
    if k in ("QIF", "Izhikevich"):
        return v + c["dt"] / c["tau"] * (c["b"] * (v - c["rest"]) * (v - c["a"]) + c["R"] * I)
    try:
        e = c["b"] * math.exp((v - c["a"]) / c["b"])
    except OverflowError:
        e = math.inf
    return v + c["dt"] / c["tau"] * (-(v - c["rest"]) + e + c["R"] * I)


def raised(ex, exc, cfg, lock, adapt, shape, batch, clear_at, inputs, via_dt_setter, where, poke_at=None, poke_vals=None):
    """the real code raised on a run inside the property's quantifier: a failing input (element 0's inputs are recorded)"""
    if len([f for f in ex.findings if f.key == "C03:exception"]) < 3:
        ex.findings.append(Finding("spec", "C03:exception", f"{type(exc).__name__} at {where}: {str(exc)[:300]}",
                                   {"class": cfg["kind"], "cfg": cfg, "lock": lock, "adapt": adapt, "shape": list(shape), "batch": batch,
                                    "element": 0, "inputs": [row[0] for row in inputs], "clear_at": clear_at,
                                    "configured_through_dt_setter": via_dt_setter, "adaptation_replaced_at": poke_at,
                                    "adaptation_replaced_by": (poke_vals[0] if poke_vals else None), "raised": where}))


def explore(ctx) -> Exploration:
    torch.set_default_dtype(torch.float64)
    ex = Exploration()
    rng = ctx.rng
    thorough = ctx.tier == "thorough" or ctx.intensify
    transval.validate(ctx, SPEC["translate"], ex, per_fn=60 if not thorough else 300)
    ncase = 12 if not thorough else 60
    T = 30 if not thorough else 60
    lines, plan = [], []
    for kind in KINDS:
        for ci in range(ncase):
            upswing = kind in ("EIF", "AdEx") and ci % 4 == 3
            cfg = make_cfg(rng, kind, refrac_choice=[0.0, 0.5, 1.0, 2.5, 0.25, 0.125][ci] if ci < 6 else None, upswing=upswing)
            lock = rng.random() < 0.7
            # the explicit `adapt` argument and the module's training mode are drawn independently: `adapt=None` defers to
            # the mode, an explicit True / False overrides it (the effective flag `adapt` is what the model is told)
            training = rng.random() < 0.5
            adapt_arg = rng.choice([True, True, False, False, None]) if kind in ADAPTIVE else None
            adapt = kind in ADAPTIVE and (training if adapt_arg is None else adapt_arg)
            shape = rng.choice([(3,), (2, 2), (1,), (2, 3)])
            batch = 1 if (kind in ADAPTIVE and adapt) else rng.choice([1, 2, 3])
            n = batch * math.prod(shape)
            inputs = gen_inputs(rng, cfg, T, n)
            # (iii) state-aware adversarial drives: from step 1 on a share of the pre-drawn inputs is replaced at run time by
            #       inputs computed from the element's present state (see aware_input)
            aware = 0.8 if upswing else (0.5 if rng.random() < 0.5 else 0.0)
            clear_at = rng.randrange(T) if rng.random() < 0.3 else None
            # (i) the step time assigned AFTER construction (`neuron.dt = …`): everything derived from it must follow;
            #     the model is simply begun with the final configuration
            via_dt_setter = ci % 3 == 1
            other = dict(cfg, dt=rng.choice([d for d in (0.25, 0.5, 1.0, 2.0) if d != cfg["dt"]])) if via_dt_setter else None
            try:
                if via_dt_setter:
                    neuron = build(other, shape, batch)
                    neuron.dt = cfg["dt"]
                else:
                    neuron = build(cfg, shape, batch)
                neuron.train(training)
            except Exception as exc:  # noqa: BLE001 — a documented configuration must construct
                raised(ex, exc, cfg, lock, adapt, shape, batch, None, [], via_dt_setter, "construction")
                continue
            # (ii) the adaptation state replaced from outside between two steps (checkpoint restore / in-place edit)
            poke_at, poke_vals = None, None
            if kind in ADAPTIVE and batch == 1 and rng.random() < 0.5:
                poke_at = rng.randrange(1, T)
                k = len(cfg["tcA"])
                poke_vals = [[rng.choice([0.0, 4.0, 8.0, 20.0, -2.0]) for _ in range(k)] for _ in range(math.prod(shape))]
            traj = []   # per step: spikes, v, r, adapt, spike attr
            adname = "threshold_adaptation" if kind in ("ALIF", "GLIF2") else ("current_adaptation" if kind in ADAPTIVE else None)
            nsh = math.prod(shape)
            failed = None
            with torch.no_grad():
                for t in range(T):
                    try:
                        if clear_at == t:
                            neuron.clear()
                        if poke_at == t:
                            new = torch.tensor(poke_vals, dtype=torch.float64).reshape(getattr(neuron, adname).shape)
                            if t % 2 == 0:
                                sd = neuron.state_dict()
                                key = next(k_ for k_ in sd if "adaptation" in k_ and sd[k_].shape == new.shape)
                                sd[key] = new
                                neuron.load_state_dict(sd)
                            else:
                                getattr(neuron, adname).copy_(new)
                        if aware and t >= 1:
                            vnow = neuron.voltage.reshape(-1).tolist()
                            adnow = getattr(neuron, adname).reshape(nsh, -1).tolist() if adname else None
                            for e in range(n):
                                if rng.random() < aware:
                                    inputs[t][e] = aware_input(rng, cfg, vnow[e], adnow[e % nsh] if adnow else [], inputs[t][e])
                        x = torch.tensor(inputs[t]).reshape(batch, *shape)
                        if kind in ADAPTIVE:
                            s = neuron(x, adapt=adapt_arg, refrac_lock=lock)
                        else:
                            s = neuron(x, refrac_lock=lock)
                        ad = getattr(neuron, adname).clone() if adname else None
                        traj.append((s.clone().reshape(-1), neuron.voltage.clone().reshape(-1), neuron.refrac.clone().reshape(-1),
                                     ad, neuron.spike.clone().reshape(-1)))
                    except Exception as exc:  # noqa: BLE001 — the specification has a value for every step of such a run
                        failed = (t, exc)
                        break
            if failed is not None:
                raised(ex, failed[1], cfg, lock, adapt, shape, batch, clear_at, inputs[:failed[0] + 1], via_dt_setter,
                       f"step {failed[0]}", poke_at, poke_vals)
                continue
            ex.count("class", kind)
            ex.count("refrac_t/dt", str(cfg["refracT"] / cfg["dt"]))
            ex.count("lock", str(lock))
            ex.count("adapt", str(adapt))
            ex.count("adapt-argument/training", f"{adapt_arg}/{training}")
            ex.count("configured", "dt-setter" if via_dt_setter else "constructor")
            ex.count("adaptation-poked", str(poke_at is not None))
            ex.count("inputs", "upswing+state-aware" if upswing else ("state-aware" if aware else "pre-drawn"))
            # model lines, per element
            for e in range(n):
                first = len(lines)
                lines.append(begin_line(cfg))
                for t in range(T):
                    if clear_at == t:
                        lines.append("clear T")
                    if poke_at == t:
                        lines.append("setadapt " + ",".join(hx(x) for x in poke_vals[e % math.prod(shape)]))
                    lines.append(f"step {'T' if lock else 'F'} {'T' if adapt else 'F'} {hx(inputs[t][e])}")
                plan.append((cfg, lock, adapt, shape, batch, e, inputs, clear_at, traj, first, len(lines), poke_at, poke_vals, via_dt_setter, adapt_arg, training))
    resp = ctx.run_driver(DRIVER, lines)
    nspk = 0
    for cfg, lock, adapt, shape, batch, e, inputs, clear_at, traj, a, b, poke_at, poke_vals, via_dt_setter, adapt_arg, training in plan:
        out = [r for l, r in zip(lines[a:b], resp[a:b]) if l.startswith("step")]
        kind = cfg["kind"]
        case = {"class": kind, "cfg": cfg, "lock": lock, "adapt": adapt, "shape": list(shape), "batch": batch,
                "element": e, "inputs": [row[e] for row in inputs], "clear_at": clear_at,
                "configured_through_dt_setter": via_dt_setter, "adaptation_replaced_at": poke_at,
                "adaptation_replaced_by": (poke_vals[e % math.prod(shape)] if poke_vals else None),
                "adapt_argument": adapt_arg, "training_mode": training}
        pidx = e % math.prod(shape)      # adaptation index (shared over batch)
        # ---- code vs code-shaped model
        bad = None
        for t, r in enumerate(out):
            ex.evaluations += 1
            tok = r.split()
            ms, mv, mr = tok[0] == "T", unhx(tok[1]), unhx(tok[2])
            ma = [unhx(x) for x in tok[3].split(",")] if tok[3] != "-" else []
            s, v, rf, ad, attr = traj[t]
            rs = bool(s[e])
            nspk += rs
            if rs != ms or not approx(float(v[e]), mv) or not approx(float(rf[e]), mr):
                bad = (t, f"spike {rs} v {float(v[e])} r {float(rf[e])}", f"spike {ms} v {mv} r {mr}")
                break
            if ad is not None and batch == 1:
                ra = [float(x) for x in ad.reshape(-1, ad.shape[-1])[pidx]]
                if len(ra) != len(ma) or not all(approx(x, y) for x, y in zip(ra, ma)):
                    bad = (t, f"adaptations {ra}", f"adaptations {ma}")
                    break
        if bad and len([f for f in ex.findings if f.kind == "model"]) < 5:
            ex.findings.append(Finding("model", f"C03:model:{kind}", f"step {bad[0]}: code {bad[1]} vs model {bad[2]}", dict(case, step=bad[0])))
        # ---- code vs contract (specification)
        viol = contract(cfg, lock, adapt, e, pidx, inputs, clear_at, traj, batch, poke_at, poke_vals[pidx] if poke_vals else None)
        for key, what, t in viol:
            if len([f for f in ex.findings if f.key == key]) < 3:
                ex.findings.append(Finding("spec", key, what, dict(case, step=t)))
        ex.traces_validated += 1
        if any(bool(tr[0][e]) for tr in traj):
            ex.nontriv((kind, tuple(sorted((k, str(v)) for k, v in cfg.items())), lock, adapt, e, tuple(case["inputs"])))
    ex.rule = ("per neuron class: hyper-parameters from dyadic grids (refrac_t in {0, dt/2, dt, 2.5dt, …}), shapes, batch sizes, "
               "lock/adapt flags, input sequences mixing zero / huge / negative / near-threshold drives, optional clear(); in about half the runs "
               "a share of the inputs is computed at run time from the element's present state (integrated voltage landed a chosen fraction "
               "of the way to the current threshold from either side, or the intrinsic drive opposed by a factor 1e-6 .. 100); a quarter of "
               "the EIF / AdEx runs use a sharp upswing with (thresh - rheobase) / sharpness in 25 .. 300; each element's "
               "trajectory is one case; non-trivial = the element spiked at least once; distinct = distinct (class, config, flags, inputs)")
    ex.samples = [dict(plan[0][0], inputs=plan[0][6][0][:3]), dict(plan[-1][0], inputs=plan[-1][6][0][:3])]
    ex.extra["spikes_observed"] = int(nspk)
    return ex


def doc_adapt(c, lock, adapt, ad, v_after, spike, r_after):
    """documented adaptation update of one element: every adaptation takes its exponential / Euler step unless the neuron
    is in its absolute refractory period after this step (remaining time > 0) under locking, in which case it is
    maintained; then the spike increment is added.  Without adaptation (adapt off) the state is carried unchanged."""
    if not adapt:
        return list(ad)
    held = lock and r_after > 0
    out = []
    for k, w in enumerate(ad):
        if held:
            nw = w
        elif c["kind"] in ("ALIF", "GLIF2"):
            nw = w * math.exp(-c["dt"] / c["tcA"][k])
        else:
            nw = w + c["dt"] / c["tcA"][k] * (c["vcA"][k] * (v_after - c["rest"]) - w)
        out.append(nw + (c["incA"][k] if spike else 0.0))
    return out


def doc_step(c, lock, adapt, v, r, ad, I):
    """one step of the documented dynamics of one element from the complete state (v, r, ad)"""
    kind = c["kind"]
    r_dec = max(r - c["dt"], 0.0)
    thr = c["thresh"] + (sum(ad) if kind in ("ALIF", "GLIF2") else 0.0)
    decided = r_dec == 0
    if decided:
        vint = spec_integrate(c, v, I - (sum(ad) if kind in ("Izhikevich", "AdEx") else 0.0))
        spike = vint >= thr
    else:                                   # refractory: no spike; held under locking, else integrates with the input masked
        vint = v if lock else spec_integrate(c, v, 0.0)
        spike = False
    if spike:
        v2 = c["reset"] if kind != "GLIF2" else c["rest"] + c["slope"] * (vint - c["rest"]) - c["icpt"]
        r2 = c["refracT"]
    else:
        v2, r2 = vint, r_dec
    return dict(spike=spike, v=v2, r=r2, ad=doc_adapt(c, lock, adapt, ad, v2, spike, r2), vint=vint, thr=thr,
                decided=decided, margin=abs(vint - thr))


def displaced_spike(c, lock, adapt, e, inputs, clear_at, traj, poke_at, poke, t0, state):
    """free run of the documented dynamics from the documented state after step t0 on the same inputs: the first later
    step at which the real neuron's output differs from the documented one by a wide margin (None if there is none, or
    if a documented decision comes too close to the threshold to be called)"""
    v, r, ad = state
    for t in range(t0 + 1, len(traj)):
        if clear_at == t:
            v, r = c["rest"], 0.0
        if poke_at == t and poke is not None:
            ad = list(poke)
        d = doc_step(c, lock, adapt, v, r, ad, inputs[t][e])
        if math.isnan(d["v"]) or math.isnan(d["thr"]):
            return ""
        if d["decided"] and d["margin"] <= 1e-3 * max(1.0, abs(d["thr"])):
            return ""
        sp = bool(traj[t][0][e])
        if sp != d["spike"]:
            return (f"; driven on with the same inputs, the documented dynamics {'spike' if d['spike'] else 'do not spike'} at step {t} "
                    f"(integrated voltage {d['vint']}, threshold {d['thr']}, refractory={not d['decided']}) but the neuron "
                    f"{'spiked' if sp else 'did not spike'}")
        v, r, ad = d["v"], d["r"], d["ad"]
    return ""


def contract(c, lock, adapt, e, pidx, inputs, clear_at, traj, batch, poke_at=None, poke=None):
    """independent check of the property's clauses on one element's real trajectory"""
    out = []
    kind, dt, rt = c["kind"], c["dt"], c["refracT"]
    W = max(1, math.ceil(rt / dt))
    v_prev, r_prev = c["rest"], 0.0
    ad_prev = [0.0] * len(c["tcA"])
    last_spike = None
    own_adapt = batch == 1 or kind not in ADAPTIVE or not adapt     # the adaptation state is this element's own
    followed = 0                     # free runs spent on naming the spike a state deviation displaces (at most 3, until one is named)
    for t, (s, v, r, ad, attr) in enumerate(traj):
        if clear_at == t:
            v_prev, r_prev = c["rest"], 0.0
            last_spike = None
        if poke_at == t and poke is not None:
            ad_prev = list(poke)          # the adaptation state was replaced from outside before this step
        sp, vv, rr = bool(s[e]), float(v[e]), float(r[e])
        I = inputs[t][e]
        if rr < 0:
            out.append(("C03:refrac-negative", f"remaining refractory time {rr} < 0 at step {t}", t))
        # spike attribute == last output
        if bool(attr[e]) != sp:
            key = "C03:spike-attr:refrac_t==0" if rt == 0 else "C03:spike-attr"
            out.append((key, f"neuron.spike is {bool(attr[e])} but the step returned {sp} (refrac_t={rt})", t))
        # window
        if last_spike is not None and 1 <= t - last_spike < W:
            if sp:
                out.append(("C03:spike-in-refractory-window", f"spike at step {t}, {t - last_spike} steps after a spike; window is {W} steps", t))
            if lock and not approx(vv, v_prev):
                out.append(("C03:voltage-changed-while-locked", f"voltage {v_prev} -> {vv} at step {t} inside the refractory window", t))
        # threshold rule with the documented update equation (exactly representable configurations only)
        r_dec = max(r_prev - dt, 0.0)
        thr = c["thresh"] + (sum(ad_prev) if kind in ("ALIF", "GLIF2") else 0.0)
        Ieff = I - (sum(ad_prev) if kind in ("Izhikevich", "AdEx") else 0.0)
        vint = None
        state_dev = None                   # a deviation of the carried state (not of this step's output) found at this step
        if own_adapt:
            if r_dec == 0:
                vint = spec_integrate(c, v_prev, Ieff)
                margin = abs(vint - thr)
                exact = (margin == 0 and kind in ("QIF", "Izhikevich") and t == 0 and clear_at != 0)
                # size of the terms the integrated voltage is composed of: rounding is relative to these, not to the result
                terms = max(abs(v_prev), abs(thr), c["R"] * (abs(I) + sum(abs(w) for w in ad_prev)) if kind in ("Izhikevich", "AdEx")
                            else c["R"] * abs(I))
                if ((margin > 1e-7 * max(1.0, abs(thr)) and margin > 1e-10 * terms) or exact) and not math.isnan(vint):
                    want = vint >= thr
                    if want != sp:
                        out.append(("C03:threshold-rule", f"step {t}: integrated voltage {vint} vs threshold {thr}: expected spike={want}, got {sp}", t))
                    elif not sp and not approx(vv, vint, 1e-8) and abs(vv - vint) > 1e-12 * terms:
                        out.append(("C03:update-equation", f"step {t}: voltage {vv}, documented update gives {vint}", t))
            elif sp:
                out.append(("C03:spike-while-refractory", f"spike at step {t} with remaining refractory time {r_dec}", t))
        if r_dec > 0 and not sp and not lock:
            # refractory without voltage locking: the voltage is not held, it follows the update equation with the input masked
            vfree = spec_integrate(c, v_prev, 0.0)
            if not math.isnan(vfree) and not approx(vv, vfree, 1e-8):
                state_dev = ("C03:update-equation:refractory-unlocked",
                             f"step {t}: refractory (remaining {r_dec}) with refrac_lock=False: voltage {v_prev} -> {vv}, the documented "
                             f"update with the input masked gives {vfree}")
        if not sp and not approx(rr, r_dec):
            out.append(("C03:refrac-countdown", f"step {t}: remaining refractory time {r_prev} -> {rr} without a spike, expected {r_dec} (dt={dt})", t))
        if sp:
            want_v = c["reset"]
            if kind == "GLIF2":
                want_v = c["rest"] + c["slope"] * (vint - c["rest"]) - c["icpt"] if (vint is not None and math.isfinite(vint)) else None
            if want_v is not None and not approx(vv, want_v):
                out.append(("C03:reset-voltage", f"voltage after spike {vv}, documented reset {want_v}", t))
            if not approx(rr, rt):
                out.append(("C03:reset-refrac", f"refractory time after spike {rr}, configured {rt}", t))
            last_spike = t
        # adaptation state after the step, from the real state before it and this step's real output
        ad_now = [float(x) for x in ad.reshape(-1, ad.shape[-1])[pidx]] if ad is not None else None
        if ad_now is not None and own_adapt and state_dev is None:
            ad_doc = doc_adapt(c, lock, adapt, ad_prev, vv, sp, rt if sp else r_dec)
            if len(ad_doc) != len(ad_now) or not all(approx(x, y) for x, y in zip(ad_now, ad_doc)):
                held = adapt and lock and (rt if sp else r_dec) > 0
                state_dev = ("C03:adaptation-update",
                             f"step {t}: adaptations {ad_prev} -> {ad_now}, documented {ad_doc} (adapt={adapt}, spike={sp}, voltage {vv}, "
                             f"{'maintained: in the refractory period under locking' if held else 'stepped' if adapt else 'carried: adaptation off'})")
        if state_dev is not None:
            what = state_dev[1]
            if followed < 3 and own_adapt:
                followed += 1
                d = doc_step(c, lock, adapt, v_prev, r_prev, ad_prev, I)
                if not math.isnan(d["v"]):
                    tail = displaced_spike(c, lock, adapt, e, inputs, clear_at, traj, poke_at, poke, t, (d["v"], d["r"], d["ad"]))
                    what += tail
                    if tail:
                        followed = 3
            out.append((state_dev[0], what, t))
        v_prev, r_prev = vv, rr
        if ad_now is not None:
            ad_prev = ad_now
    return out


def replay(ctx, data) -> int:
    torch.set_default_dtype(torch.float64)
    case = data.get("failing_input")
    if not case:
        print("no failing input recorded:", data.get("broken"))
        return 1
    cfg, lock, adapt = case["cfg"], case["lock"], case["adapt"]
    if case.get("configured_through_dt_setter"):
        neuron = build(dict(cfg, dt=(0.5 if cfg["dt"] != 0.5 else 1.0)), (1,), 1)
        neuron.dt = cfg["dt"]
    else:
        neuron = build(cfg, (1,), 1)
    adapt_arg = case.get("adapt_argument", adapt)
    neuron.train(case.get("training_mode", adapt))
    poke_at, poke = case.get("adaptation_replaced_at"), case.get("adaptation_replaced_by")
    traj = []
    with torch.no_grad():
        for t, I in enumerate(case["inputs"]):
            if case.get("clear_at") == t:
                neuron.clear()
            if poke_at == t and poke is not None:
                name = "threshold_adaptation" if cfg["kind"] in ("ALIF", "GLIF2") else "current_adaptation"
                sd = neuron.state_dict()
                new = torch.tensor(poke, dtype=torch.float64).reshape(getattr(neuron, name).shape)
                key = next(k_ for k_ in sd if "adaptation" in k_ and sd[k_].shape == new.shape)
                sd[key] = new
                neuron.load_state_dict(sd)
            x = torch.tensor([[I]])
            s = neuron(x, adapt=adapt_arg, refrac_lock=lock) if cfg["kind"] in ADAPTIVE else neuron(x, refrac_lock=lock)
            ad = neuron.threshold_adaptation.clone() if cfg["kind"] in ("ALIF", "GLIF2") else (
                neuron.current_adaptation.clone() if cfg["kind"] in ("Izhikevich", "AdEx") else None)
            traj.append((s.reshape(-1), neuron.voltage.clone().reshape(-1), neuron.refrac.clone().reshape(-1), ad, neuron.spike.clone().reshape(-1)))
            print(t, "I", I, "spike", bool(s.reshape(-1)[0]), "v", float(neuron.voltage.reshape(-1)[0]), "r", float(neuron.refrac.reshape(-1)[0]), "attr", bool(neuron.spike.reshape(-1)[0]))
    v = contract(cfg, lock, adapt, 0, 0, [[i] for i in case["inputs"]], case.get("clear_at"), traj, 1, poke_at, poke)
    for x in v:
        print("CONTRACT VIOLATION", x)
    return 1 if v else 0
