"""C20 — numerical helpers: interp/extrap kernels, distributions, ISI, Victor–Purpura distance.

Tie (DESIGN §3a done by hand, the translator not being available): the formula models are
hand transcriptions, once over `Float` (`Model/Interp.lean`, `Model/Dist.lean`, executed by
`drivers/C20.lean`) and once over `ℝ` (`Model/InterpR.lean`, `Model/DistR.lean`, what the theorems
are about).  Every run (i) checks that the definition blocks of the two copies are textually
identical, (ii) executes every `Float` definition against the Python function it transcribes on
random and boundary inputs (bit-for-bit where no exp/log is involved, 1e-12 relative otherwise; the
torch primitives erf / lgamma / gammaincc / expm1 are opaque symbols answered from the arguments and
values observed in the real call), (iii) runs ISI and the Victor–Purpura distance on the exact
rational models (code-shaped model and specification) and compares exactly.

Search on the implementation (always): the property's laws are evaluated on the REAL functions —
round trips, bracket bounds, exp(log-density) = density, log-cdf = log(cdf), closed forms and
normalisation against mpmath at 50 digits, mean/variance by summation/quadrature, `params_mv` round
trips, ISI re-integration, metric laws of the spike-train distance — so that a property-breaking
change yields a concrete failing input.  The distribution laws are also evaluated the way a caller evaluates them: ONE support grid
(and one set of parameter tensors) handed to a whole sequence of helpers (section 2b, `shared_argument_histories`), so a helper
that answers correctly once but disturbs what the next helper sees (arguments overwritten, views / expanded / grad-requiring
supports rejected) is reported with the history as the failing input.  The integral / partial-sum sub-claims (CDF = ∫ pdf, Poisson
CDF = Σ pmf, LogNormal moments) are theorems of `Props/C20Int.lean` about `realSpecial` (erf and the incomplete
gamma function as integrals); they are ALSO run numerically on the real code (`integral_subclaims_run_on_real_code`),
which is what ties torch's opaque special functions to those definitions.
"""
from __future__ import annotations

import contextlib
import itertools
import math
import struct
from fractions import Fraction
from pathlib import Path

import mpmath as mp
import numpy as np
import torch

from inferno.core.math import isi as real_isi
from inferno.core.math import victor_purpura_pair_dist as real_vp
from inferno.functional import interpolation as IP
from inferno.functional import extrapolation as XP
from inferno.stats import LogNormal, Normal, Poisson

import leanbridge as lb
from runner import Exploration, Finding

SPEC = {
    "prop": "C20",
    "lean_targets": ["InfernoVerif.Props.C20", "InfernoVerif.Props.C20Int", "InfernoVerif.Props.C20Glue", "InfernoVerif.Props.C20GlueDist", "InfernoVerif.Props.C20GlueProg", "InfernoVerif.Gen.Dispatch"],
    "translate": ["Interpolation", "Extrapolation", "Distributions", "MathProg"],
    "prop_files": ["InfernoVerif/Props/C20.lean", "InfernoVerif/Props/C20Int.lean", "InfernoVerif/Props/C20Glue.lean", "InfernoVerif/Props/C20GlueDist.lean", "InfernoVerif/Props/C20GlueProg.lean"],
    "lemma_files": ["InfernoVerif/Lemmas/Dist.lean", "InfernoVerif/Lemmas/DistInt.lean", "InfernoVerif/Lemmas/Isi.lean", "InfernoVerif/Lemmas/VP.lean"],
    "model_files": ["InfernoVerif/Model/Interp.lean", "InfernoVerif/Model/InterpR.lean",
                    "InfernoVerif/Model/Dist.lean", "InfernoVerif/Model/DistR.lean",
                    "InfernoVerif/Model/Isi.lean", "InfernoVerif/Model/VP.lean"],
    "driver": "drivers/C20.lean",
    "driver_targets": ["InfernoVerif.Model.Interp", "InfernoVerif.Model.Dist", "InfernoVerif.Model.Isi", "InfernoVerif.Model.VP", "InfernoVerif.Gen.Dispatch"],
    "assumptions": [
        "interp/extrap: the hand-written ℝ copies are PROVED equal (Props/C20Glue.lean) to the definitions regenerated from /repo's "
        "source by the translator on every run; distribution formulas are hand transcriptions: the Float copy is tied to the "
        "Python functions by differential execution, the ℝ copy to the Float copy by textual identity of the definition blocks",
        "tensors are modelled as scalars (kernels and distribution formulas are element-wise); float64 tensor arguments "
        "(`_astensorsfloat` leaves tensors untouched; Python-float arguments would be computed in float32)",
        "torch.special.erf / torch.lgamma / torch.special.gammaincc / torch.special.expm1 are opaque symbols: the Float model is "
        "fed the values the real call observed; over ℝ they are log|Γ|, eˣ−1 and integral definitions",
        "theorems hold over ℝ (ℚ for ISI / Victor–Purpura); float rounding is covered by the differential run and the "
        "real-code law checks with the stated tolerances (partial (float))",
        "round trips of the linear pairs exclude s = 0 (forward) and s = dt (backward), where the kernel divides by zero "
        "(RecordTensor.insert bypasses extrapolation at exact indices); nearest needs dt > 0",
        "Victor–Purpura: d(a,a) = 0 is claimed for finite costs only; at cost = inf the function returns the total spike "
        "count by documented convention (docstring warning)",
        "ISI: rasters with at least one train; N-d rasters are flattened to rows (the function flattens them itself)",
        "the integral / partial-sum sub-claims (Normal and LogNormal cdf = ∫pdf, Poisson cdf = Σpmf, LogNormal ∫pdf = 1 and moments "
        "by integration) are PROVED in Props/C20Int.lean about the mathematical definitions of erf and the regularised upper "
        "incomplete gamma function (`realSpecial`); that torch.special.erf / gammaincc compute those functions is an assumption, "
        "checked numerically on every run against mpmath at 50 digits",
    ],
}
DRIVER = "drivers/C20.lean"
F64 = torch.float64
mp.mp.dps = 50


# ---------------------------------------------------------------------------------------------
# helpers

def hx(x: float) -> str:
    return struct.pack(">d", float(x)).hex()


def unhx(s: str) -> float:
    return struct.unpack(">d", bytes.fromhex(s))[0]


def t64(x):
    return torch.tensor(x, dtype=F64)


def same_bits(a: float, b: float) -> bool:
    if math.isnan(a) or math.isnan(b):
        return math.isnan(a) and math.isnan(b)
    return hx(a) == hx(b)


def close_rel(a: float, b: float, tol: float = 1e-12) -> bool:
    """relative agreement (denormal floor); NaN = NaN, inf = inf"""
    if math.isnan(a) or math.isnan(b):
        return math.isnan(a) and math.isnan(b)
    if a == b:
        return True
    if math.isinf(a) or math.isinf(b):
        return False
    return abs(a - b) <= tol * max(abs(a), abs(b)) or abs(a - b) <= 1e-300


def close_abs(a: float, b: float, tol: float = 1e-12) -> bool:
    if math.isnan(a) or math.isnan(b):
        return math.isnan(a) and math.isnan(b)
    if a == b:
        return True
    if math.isinf(a) or math.isinf(b):
        return False
    return abs(a - b) <= tol * max(1.0, abs(a), abs(b))


def split_resp(resp: str):
    if resp.startswith("M ") and " || S " in resp:
        m, s = resp[2:].split(" || S ", 1)
        return m.strip(), s.strip()
    if resp.startswith("M "):
        return resp[2:].strip(), None
    return resp.strip(), None


def frac_s(fr: Fraction) -> str:
    return f"{fr.numerator}/{fr.denominator}"


class Collector:
    """request lines for one driver run + the judgement to apply to each response"""

    def __init__(self):
        self.lines: list[str] = []
        self.judges: list = []

    def add(self, line: str, judge):
        self.lines.append(line)
        self.judges.append(judge)


class Findings:
    def __init__(self, ex: Exploration, cap_per_key: int = 2):
        self.ex, self.cap, self.seen = ex, cap_per_key, {}

    def add(self, kind: str, key: str, what: str, case: dict):
        n = self.seen.get((kind, key), 0)
        self.seen[(kind, key)] = n + 1
        if n < self.cap:
            self.ex.findings.append(Finding(kind=kind, key=key, what=what, case=case))


# ---------------------------------------------------------------------------------------------
# 0. the two copies of the formula models are textually parallel

def defs_block(path: Path) -> str:
    src = path.read_text()
    a = src.index("\n-- BEGIN DEFS\n")
    b = src.index("\n-- END DEFS\n")
    return src[a:b]


def check_parallel(fs: Findings, ex: Exploration):
    for f, r in (("Interp.lean", "InterpR.lean"), ("Dist.lean", "DistR.lean")):
        d = lb.LEAN / "InfernoVerif" / "Model"
        try:
            same = defs_block(d / f) == defs_block(d / r)
        except ValueError:
            same = False
        ex.evaluations += 1
        if not same:
            fs.add("model", f"C20:model:defs-not-parallel:{f}",
                   f"definition blocks of Model/{f} (Float) and Model/{r} (ℝ) differ: the theorems are no longer about the executed formulas",
                   {"files": [f, r]})


# ---------------------------------------------------------------------------------------------
# 1. interpolation / extrapolation kernels

ADJ = {"none": None, "neg": (lambda x: -x), "half": (lambda x: x * 0.5), "inc": (lambda x: x + 1.0)}
INTERP = {
    "interp_previous": (IP.interp_previous, None, False),
    "interp_next": (IP.interp_next, None, False),
    "interp_nearest": (IP.interp_nearest, None, False),
    "interp_linear": (IP.interp_linear, None, False),
    "interp_expdecay": (IP.interp_expdecay, "time_constant", True),
    "interp_expratedecay": (IP.interp_expratedecay, "rate_constant", True),
}
EXTRAP = {
    "extrap_previous": (XP.extrap_previous, None, False),
    "extrap_next": (XP.extrap_next, None, False),
    "extrap_neighbors": (XP.extrap_neighbors, None, False),
    "extrap_nearest": (XP.extrap_nearest, None, False),
    "extrap_linear_forward": (XP.extrap_linear_forward, "adjust", False),
    "extrap_linear_backward": (XP.extrap_linear_backward, "adjust", False),
    "extrap_expdecay": (XP.extrap_expdecay, "time_constant", True),
    "extrap_expratedecay": (XP.extrap_expratedecay, "rate_constant", True),
}
# matching pairs: name -> (extrap, interp, param kind, exact?)
PAIRS = {
    "previous": ("extrap_previous", "interp_previous", None, True),
    "next": ("extrap_next", "interp_next", None, True),
    "nearest": ("extrap_nearest", "interp_nearest", None, True),
    "linear_forward": ("extrap_linear_forward", "interp_linear", "adjust", False),
    "linear_backward": ("extrap_linear_backward", "interp_linear", "adjust", False),
    "expdecay": ("extrap_expdecay", "interp_expdecay", "time_constant", False),
    "expratedecay": ("extrap_expratedecay", "interp_expratedecay", "rate_constant", False),
    "neighbors_previous": ("extrap_neighbors", "interp_previous", None, True),
    "neighbors_next": ("extrap_neighbors", "interp_next", None, True),
    "neighbors_nearest": ("extrap_neighbors", "interp_nearest", None, True),
    "neighbors_linear": ("extrap_neighbors", "interp_linear", None, True),
}


def call_interp(name, p, n, s, dt, param=None):
    fn, kw, _ = INTERP[name]
    kwargs = {kw: param} if kw else {}
    return float(fn(t64(p), t64(n), t64(s), dt, **kwargs))


def call_extrap(name, x, s, p, n, dt, param=None):
    fn, kw, _ = EXTRAP[name]
    kwargs = {}
    if kw == "adjust":
        kwargs = {"adjust": ADJ[param or "none"]}
    elif kw:
        kwargs = {kw: param}
    a, b = fn(t64(x), t64(s), t64(p), t64(n), dt, **kwargs)
    return float(a), float(b)


def kernel_inputs(rng, n_random):
    """(sample, s, prev, next, dt, tag)"""
    out = []
    dts = [0.25, 0.5, 1.0, 2.0, 0.1, 1.3]
    vals = [0.0, 1.0, -1.0, 2.5, -3.75, 7.0]
    # boundary: sample time 0, dt, dt/2 (tie), equal brackets, zeros
    for dt in dts:
        for s, tag in ((0.0, "s=0"), (dt, "s=dt"), (dt / 2, "s=dt/2"), (dt / 4, "s=dt/4"), (dt * 0.75, "s=3dt/4")):
            for (x, p, n) in ((1.0, 2.0, 5.0), (3.0, 3.0, 3.0), (0.0, 0.0, 0.0), (-2.5, 4.0, 4.0), (7.0, -1.0, 2.0)):
                out.append((x, s, p, n, dt, tag))
    for _ in range(n_random):
        dt = rng.choice(dts) if rng.random() < 0.7 else rng.uniform(0.05, 4.0)
        frac = rng.choice([rng.uniform(1 / 64, 63 / 64), rng.randint(1, 63) / 64])
        s = dt * frac
        if rng.random() < 0.5:
            x, p, n = (rng.gauss(0, 10) for _ in range(3))
        else:
            x, p, n = (rng.choice(vals) + rng.randint(-8, 8) / 8 for _ in range(3))
        out.append((x, s, p, n, dt, "random"))
    return out


def gen_kernels(ctx, C: Collector, fs: Findings, ex: Exploration, thorough: bool):
    rng = ctx.rng
    inputs = kernel_inputs(rng, 150 if not thorough else 1500)
    taus = [0.5, 1.0, 20.0, 3.3]
    rates = [0.05, 1.0, 2.0, 0.7]
    excluded = ex.extra.setdefault("excluded_points", {})
    for (x, s, p, n, dt, tag) in inputs:
        tau = rng.choice(taus)
        rate = rng.choice(rates)
        adj = rng.choice(list(ADJ))
        ex.count("kernel_input", tag)
        # --- differential execution of every kernel
        for name, (_, kw, has_exp) in INTERP.items():
            par = tau if kw == "time_constant" else rate if kw == "rate_constant" else None
            args = [p, n, s, dt] + ([par] if kw else [])
            real = (call_interp(name, p, n, s, dt, par),)
            line = f"k {name} " + " ".join(hx(a) for a in args)
            C.add(line, judge_kernel(fs, ex, name, args, real, has_exp, None))
        for name, (_, kw, has_exp) in EXTRAP.items():
            par = tau if kw == "time_constant" else rate if kw == "rate_constant" else adj if kw == "adjust" else None
            args = [x, s, p, n, dt] + ([par] if kw in ("time_constant", "rate_constant") else [])
            real = call_extrap(name, x, s, p, n, dt, par)
            line = f"k {name} " + " ".join(hx(a) for a in args) + (f" adj={par}" if kw == "adjust" else "")
            C.add(line, judge_kernel(fs, ex, name, args, real, has_exp, par if kw == "adjust" else None))
        # --- round trips (model stream and specification stream)
        for pair, (en, inn, kind, exact) in PAIRS.items():
            par = tau if kind == "time_constant" else rate if kind == "rate_constant" else adj if kind == "adjust" else None
            e0, e1 = call_extrap(en, x, s, p, n, dt, par)
            ipar = par if kind in ("time_constant", "rate_constant") else None
            rt = call_interp(inn, e0, e1, s, dt, ipar)
            args = [x, s, p, n, dt] + ([par] if kind in ("time_constant", "rate_constant") else [])
            line = f"rt {pair} " + " ".join(hx(a) for a in args) + (f" adj={par}" if kind == "adjust" else "")
            guard_ok = not ((pair == "linear_forward" and s == 0.0) or (pair == "linear_backward" and s == dt))
            if not guard_ok:
                excluded[f"{pair}@{tag}"] = f"real round trip returns {rt!r} for sample {x!r} (division by zero in the kernel; outside the theorem's guard)"
            case = {"section": "roundtrip", "pair": pair, "sample": x, "sample_at": s, "prev": p, "next": n,
                    "step_time": dt, "param": par, "extrapolated": [e0, e1], "interpolated_back": rt}
            C.add(line, judge_roundtrip(fs, ex, pair, case, rt, x, exact, guard_ok,
                                        has_exp=kind in ("time_constant", "rate_constant")))
        # --- linear interpolation stays between / meets the brackets (real code)
        v = call_interp("interp_linear", p, n, s, dt)
        lo, hi = min(p, n), max(p, n)
        tol = 1e-12 * max(1.0, abs(p), abs(n))
        ex.evaluations += 1
        if not (lo - tol <= v <= hi + tol):
            fs.add("spec", "C20:spec:linear_between",
                   f"interp_linear({p},{n},s={s},dt={dt}) = {v} lies outside [{lo},{hi}]",
                   {"section": "linear_between", "prev": p, "next": n, "sample_at": s, "step_time": dt, "observed": v})
        v0 = call_interp("interp_linear", p, n, 0.0, dt)
        v1 = call_interp("interp_linear", p, n, dt, dt)
        ex.evaluations += 2
        if v0 != p or not close_abs(v1, n, 1e-12):
            fs.add("spec", "C20:spec:linear_at_ends",
                   f"interp_linear({p},{n},·,dt={dt}) at the ends = ({v0},{v1}), expected ({p},{n})",
                   {"section": "linear_at_ends", "prev": p, "next": n, "step_time": dt, "observed": [v0, v1]})
        ex.nontriv(("kern", x, s, p, n, dt))


def judge_kernel(fs, ex, name, args, real, has_exp, adj):
    def judge(resp):
        m, _ = split_resp(resp)
        if m == "bad-op":
            raise RuntimeError(f"driver rejected kernel request {name} {args}")
        model = tuple(unhx(h) for h in m.split(","))
        ex.evaluations += 1
        ex.count("differential", name)
        ok = len(model) == len(real) and all(
            (close_rel(a, b) if has_exp else same_bits(a, b)) for a, b in zip(model, real))
        if not ok:
            fs.add("model", f"C20:model:kernel:{name}",
                   f"{name}{tuple(args)} adj={adj}: Float model {model} vs real {real} "
                   f"({'1e-12 relative' if has_exp else 'bit-for-bit'})",
                   {"section": "kernel", "kernel": name, "args": args, "adjust": adj, "model": model, "real": real})
    return judge


def judge_roundtrip(fs, ex, pair, case, rt, sample, exact, guard_ok, has_exp):
    def judge(resp):
        m, s = split_resp(resp)
        if m == "bad-op":
            raise RuntimeError(f"driver rejected round-trip request {pair} {case}")
        model, spec = unhx(m), unhx(s)
        ex.evaluations += 1
        ex.traces_validated += 1
        ex.count("roundtrip", pair)
        scale = max(1.0, abs(case["sample"]), abs(case["prev"]), abs(case["next"]))
        if guard_ok:
            good = (rt == spec) if exact else (not math.isnan(rt) and abs(rt - spec) <= 1e-9 * scale)
            if not good:
                fs.add("spec", f"C20:spec:roundtrip:{pair}",
                       f"interp∘extrap ({pair}) at sample_at={case['sample_at']}, step_time={case['step_time']} "
                       f"returns {rt!r}, the sample was {sample!r}", case)
                return
        agree = close_rel(model, rt) if has_exp else same_bits(model, rt)
        if not agree:
            fs.add("model", f"C20:model:roundtrip:{pair}",
                   f"round trip {pair}: Float model {model!r} vs real {rt!r}", dict(case, model=model))
    return judge


# ---------------------------------------------------------------------------------------------
# 2. distributions

OPAQUE = [("erf", torch.special, "erf", 1), ("lgamma", torch, "lgamma", 1),
          ("gammaincc", torch.special, "gammaincc", 2), ("expm1", torch.special, "expm1", 1)]


@contextlib.contextmanager
def record_opaque(log: list):
    """wrap the opaque torch primitives so that (name, args, value) of every call is recorded"""
    saved = []
    for tag, mod, attr, _ in OPAQUE:
        orig = getattr(mod, attr)
        saved.append((mod, attr, orig))

        def make(tag, orig):
            def w(*a, **k):
                r = orig(*a, **k)
                try:
                    log.append((tag, [float(x) for x in a], float(r)))
                except Exception:
                    log.append((tag, None, None))
                return r
            return w
        setattr(mod, attr, make(tag, orig))
    try:
        yield
    finally:
        for mod, attr, orig in saved:
            setattr(mod, attr, orig)


DIST = {"Poisson": Poisson, "Normal": Normal, "LogNormal": LogNormal}
# method -> (argument names, comparison class): 'bits' (no exp/log), 'rel' (exp-type), 'abs' (log-type)
METHODS = {
    "Poisson.pmf": (("support", "rate"), "rel"), "Poisson.logpmf": (("support", "rate"), "abs"),
    "Poisson.cdf": (("support", "rate"), "bits"), "Poisson.logcdf": (("support", "rate"), "abs"),
    "Poisson.mean": (("rate",), "bits"), "Poisson.variance": (("rate",), "bits"),
    "Normal.params_mv": (("mean", "variance"), "rel"),  # torch.sqrt is not correctly rounded (0.5 -> …475)
    "Normal.pdf": (("support", "loc", "scale"), "rel"), "Normal.logpdf": (("support", "loc", "scale"), "abs"),
    "Normal.cdf": (("support", "loc", "scale"), "bits"), "Normal.logcdf": (("support", "loc", "scale"), "abs"),
    "Normal.mean": (("loc",), "bits"), "Normal.variance": (("scale",), "bits"),
    "LogNormal.params_mv": (("mean", "variance"), "abs"),
    "LogNormal.pdf": (("support", "loc", "scale"), "rel"), "LogNormal.logpdf": (("support", "loc", "scale"), "abs"),
    "LogNormal.cdf": (("support", "loc", "scale"), "abs"), "LogNormal.logcdf": (("support", "loc", "scale"), "abs"),
    "LogNormal.mean": (("loc", "scale"), "rel"), "LogNormal.variance": (("loc", "scale"), "rel"),
}


def call_dist(method: str, args):
    """real call on float64 0-d tensors; returns (values tuple | exception name, opaque log)"""
    cls, meth = method.split(".")
    fn = getattr(DIST[cls], meth)
    log: list = []
    try:
        with record_opaque(log):
            r = fn(*[t64(a) for a in args])
    except RecursionError:
        return "RecursionError", log
    except Exception as e:  # noqa: BLE001
        return type(e).__name__, log
    if isinstance(r, tuple):
        return tuple(float(v) for v in r), log
    return (float(r),), log


def dist_inputs(rng, thorough):
    """per-class argument grids incl. boundaries (σ small/large, λ = 0, k = 0)"""
    k_vals = [0.0, 1.0, 2.0, 3.0, 7.0, 20.0, 60.0]
    lam_vals = [0.0, 1e-3, 0.5, 1.0, 2.0, 7.5, 30.0]
    mu_vals = [0.0, -1.5, 2.0, 10.0]
    sg_vals = [1e-3, 0.1, 0.5, 1.0, 3.0, 50.0]
    nrand = 40 if not thorough else 400
    poi = [(k, l) for k in k_vals for l in lam_vals]
    poi += [(float(rng.randint(0, 40)), rng.uniform(0.01, 25.0)) for _ in range(nrand)]
    nor = []
    for mu in mu_vals:
        for sg in sg_vals:
            for z in (-8.0, -2.0, -0.5, 0.0, 0.3, 1.0, 4.0, 9.0):
                nor.append((mu + z * sg, mu, sg))
    nor += [(rng.gauss(0, 3), rng.gauss(0, 2), math.exp(rng.uniform(-4, 3))) for _ in range(nrand)]
    logn = []
    for mu in (0.0, -1.0, 1.5):
        for sg in (1e-2, 0.25, 1.0, 2.5):
            for z in (-6.0, -1.0, 0.0, 0.5, 2.0, 5.0):
                logn.append((math.exp(mu + z * sg), mu, sg))
    logn += [(math.exp(rng.gauss(0, 1.5)), rng.gauss(0, 1), math.exp(rng.uniform(-3, 1))) for _ in range(nrand)]
    mv = [(m, v) for m in (0.25, 1.0, 3.0, 40.0) for v in (0.0, 1e-4, 0.5, 5.0, 900.0)]
    mv += [(math.exp(rng.uniform(-2, 4)), math.exp(rng.uniform(-6, 6))) for _ in range(nrand // 2)]
    return poi, nor, logn, mv


def gen_dist_differential(ctx, C, fs, ex, thorough):
    poi, nor, logn, mv = dist_inputs(ctx.rng, thorough)
    plan = []
    for (k, l) in poi:
        for m in ("Poisson.pmf", "Poisson.logpmf", "Poisson.cdf", "Poisson.logcdf"):
            plan.append((m, (k, l)))
        plan.append(("Poisson.mean", (l,)))
        plan.append(("Poisson.variance", (l,)))
    for (x, mu, sg) in nor:
        for m in ("Normal.pdf", "Normal.logpdf", "Normal.cdf", "Normal.logcdf"):
            plan.append((m, (x, mu, sg)))
        plan.append(("Normal.mean", (mu,)))
        plan.append(("Normal.variance", (sg,)))
    for (x, mu, sg) in logn:
        for m in ("LogNormal.pdf", "LogNormal.logpdf", "LogNormal.cdf", "LogNormal.logcdf"):
            plan.append((m, (x, mu, sg)))
        plan.append(("LogNormal.mean", (mu, sg)))
        plan.append(("LogNormal.variance", (mu, sg)))
    for (m_, v_) in mv:
        plan.append(("Normal.params_mv", (m_, v_)))
        plan.append(("LogNormal.params_mv", (m_, v_)))
    for method, args in plan:
        real, log = call_dist(method, args)
        ex.count("differential", method)
        if isinstance(real, str):
            # the real function raised: nothing to compare the model with; the law checks report it
            ex.count("real_raised", f"{method}:{real}")
            continue
        toks = []
        for tag, a, v in log:
            if a is None:
                continue
            toks.append(f"{tag}:" + ":".join(hx(x) for x in a) + ":" + hx(v))
        line = f"d {method} " + " ".join(hx(a) for a in args) + ("" if not toks else " " + " ".join(toks))
        C.add(line, judge_dist(fs, ex, method, args, real, log))


def judge_dist(fs, ex, method, args, real, log):
    cls = METHODS[method][1]

    def judge(resp):
        m, _ = split_resp(resp)
        if m == "bad-op":
            raise RuntimeError(f"driver rejected distribution request {method} {args}")
        model = tuple(unhx(h) for h in m.split(","))
        ex.evaluations += 1
        cmp = {"bits": same_bits, "rel": close_rel, "abs": close_abs}[cls]
        ok = len(model) == len(real) and all(cmp(a, b) for a, b in zip(model, real))
        if not ok:
            fs.add("model", f"C20:model:dist:{method}",
                   f"{method}{tuple(args)}: Float model {model} vs real {real} ({cls}); opaque calls observed {log}",
                   {"section": "dist", "method": method, "args": list(args), "model": model, "real": real,
                    "opaque_calls": log})
    return judge


def gl_nodes(n=24):
    x, w = np.polynomial.legendre.leggauss(n)
    return torch.tensor(x, dtype=F64), torch.tensor(w, dtype=F64)


def quad_panels(f, edges: torch.Tensor, nodes, weights):
    """composite Gauss–Legendre of a vectorised float64 function over consecutive panels"""
    a, b = edges[:-1].unsqueeze(1), edges[1:].unsqueeze(1)
    xs = (a + b) / 2 + (b - a) / 2 * nodes.unsqueeze(0)
    vals = f(xs.reshape(-1)).reshape(xs.shape)
    return float(torch.sum(vals * weights.unsqueeze(0) * (b - a) / 2))


def law_checks_dist(ctx, fs, ex, thorough):
    """the property's laws evaluated on the REAL distribution functions"""
    rng = ctx.rng
    poi, nor, logn, mv = dist_inputs(rng, thorough)
    sub = ex.extra.setdefault("integral_subclaims_run_on_real_code", {})

    def note(name, err, status="theorem in Props/C20Int.lean + numeric run on the real code"):
        d = sub.setdefault(name, {"status": status, "cases": 0, "max_err": 0.0,
                                  "note": "mpmath 50 digits / quadrature against the real code; ties torch's erf / gammaincc to the definitions the theorem is about"})
        d["cases"] += 1
        if err == err:
            d["max_err"] = max(d["max_err"], float(err))

    proved = ex.extra.setdefault("proved_subclaims_also_run_on_real_code", {})

    def pnote(name):
        proved[name] = proved.get(name, 0) + 1

    def bad(key, what, case):
        fs.add("spec", key, what, case)

    def val(method, args):
        r, _ = call_dist(method, args)
        return r

    # ---------------- results must not alias internal state: a caller that post-processes a returned tensor IN PLACE must not change
    # what the same helper returns next time (python-scalar and tensor arguments alike)
    for method, (argn, _cls) in METHODS.items():
        cls_, meth = method.split(".")
        fn = getattr(DIST[cls_], meth)
        base = {"support": 2.0, "rate": 4.0, "loc": 0.5, "scale": 1.5, "mean": 3.0, "variance": 2.0}
        vals = [base[a] for a in argn]
        for kind in ("python-scalars", "tensors"):
            args = list(vals) if kind == "python-scalars" else [t64(v) for v in vals]
            case = {"section": "dist-alias", "method": method, "args": vals, "argument_kind": kind}
            try:
                r1 = fn(*args)
                first = [float(v) for v in (r1 if isinstance(r1, tuple) else (r1,))]
                for v in (r1 if isinstance(r1, tuple) else (r1,)):
                    if isinstance(v, torch.Tensor) and not v.requires_grad:
                        v.mul_(0.5).add_(7.0)          # the caller's own in-place post-processing
                r2 = fn(*(list(vals) if kind == "python-scalars" else [t64(v) for v in vals]))
                second = [float(v) for v in (r2 if isinstance(r2, tuple) else (r2,))]
            except Exception as e:  # noqa: BLE001
                bad("C20:spec:dist:alias:raises", f"{method}({vals}, {kind}) raised {type(e).__name__} in the repeat-call probe", case)
                continue
            ex.evaluations += 1
            pnote("results do not alias internal state")
            if any(not (a == b or (a != a and b != b)) for a, b in zip(first, second)):
                bad("C20:spec:dist:alias", f"{method}{tuple(vals)} with {kind} returned {first}; after the caller modified that result in place the "
                    f"same call returns {second}", dict(case, first=first, second=second))

    # ---------------- Poisson
    for (k, l) in poi:
        case = {"section": "dist-law", "dist": "Poisson", "support": k, "rate": l}
        ex.evaluations += 1
        lp, p, c, lc = (val(m, (k, l)) for m in ("Poisson.logpmf", "Poisson.pmf", "Poisson.cdf", "Poisson.logcdf"))
        if any(isinstance(v, str) for v in (lp, p, c, lc)):
            bad("C20:spec:Poisson:raises", f"Poisson method raised on support={k}, rate={l}: {[lp, p, c, lc]}", case)
            continue
        lp, p, c, lc = lp[0], p[0], c[0], lc[0]
        pnote("Poisson.exp(logpmf)=pmf")
        if not close_rel(math.exp(lp) if lp > -745 else 0.0, p, 1e-12):
            bad("C20:spec:Poisson.exp_logpmf", f"exp(logpmf)={math.exp(lp)} ≠ pmf={p} at k={k}, λ={l}", case)
        true_p = mp.mpf(1) if (l == 0 and k == 0) else mp.mpf(0) if l == 0 else \
            mp.exp(-mp.mpf(l)) * mp.mpf(l) ** int(k) / mp.factorial(int(k))
        pnote("Poisson.pmf=e^-λ λ^k/k!")
        if not close_rel(p, float(true_p), 1e-11) and abs(p - float(true_p)) > 1e-16:
            bad("C20:spec:Poisson.pmf:closed-form",
                f"Poisson.pmf(k={k}, λ={l}) = {p}, e^-λ λ^k/k! = {float(true_p)}", dict(case, observed=p, expected=float(true_p)))
        pnote("Poisson.logcdf=log(cdf)")
        if not close_abs(lc, math.log(c) if c > 0 else -math.inf, 1e-12):
            bad("C20:spec:Poisson.logcdf", f"logcdf={lc} ≠ log(cdf)={math.log(c) if c > 0 else -math.inf} at k={k}, λ={l}", case)
        # numeric only: cdf = Σ_{j≤k} pmf(j)  (on the real pmf)  and  = Q(k+1, λ) by mpmath
        js = torch.arange(0, int(k) + 1, dtype=F64)
        ssum = float(torch.sum(Poisson.pmf(js, t64(l))))
        q = float(mp.gammainc(int(k) + 1, mp.mpf(l), mp.inf, regularized=True)) if l > 0 else 1.0
        note("Poisson.cdf=Σpmf", max(abs(ssum - c), abs(q - c)))
        # torch.special.gammaincc itself is only accurate to ~1e-9 in float64 (observed 3.7e-10 at k=22, λ=24.4)
        if abs(ssum - c) > 1e-7 or abs(q - c) > 1e-7 or abs(ssum - q) > 1e-12:
            bad("C20:spec:Poisson.cdf:sum", f"Poisson.cdf(k={k}, λ={l}) = {c}, Σ_(j≤k) pmf(j) = {ssum}, Q(k+1,λ) = {q}",
                dict(case, cdf=c, partial_sum=ssum, mpmath=q))
    for l in sorted({l for _, l in poi}):
        case = {"section": "dist-law", "dist": "Poisson", "rate": l}
        K = int(l + 40 * math.sqrt(l) + 80)
        ks = torch.arange(0, K + 1, dtype=F64)
        try:
            pm = Poisson.pmf(ks, t64(l))
            mean, var = float(Poisson.mean(t64(l))), float(Poisson.variance(t64(l)))
        except Exception as e:  # noqa: BLE001
            bad("C20:spec:Poisson:raises", f"Poisson raised {type(e).__name__} at rate={l}", case)
            continue
        ex.evaluations += 3
        tot, m1 = float(pm.sum()), float((ks * pm).sum())
        m2 = float((((ks - mean) ** 2) * pm).sum())
        pnote("Poisson.Σpmf=1"); pnote("Poisson.mean=Σk·pmf"); pnote("Poisson.variance=Σ(k-mean)²·pmf")
        if abs(tot - 1) > 1e-10:
            bad("C20:spec:Poisson.pmf:sum", f"Σ_k Poisson.pmf(k, λ={l}) = {tot} ≠ 1 (k ≤ {K}); pmf(0..3) = {pm[:4].tolist()}",
                dict(case, total=tot, first=pm[:4].tolist()))
        if abs(m1 - mean) > 1e-9 * max(1, l) or abs(m2 - var) > 1e-8 * max(1, l):
            bad("C20:spec:Poisson.moments", f"λ={l}: Σk·pmf={m1} vs mean={mean}; Σ(k-mean)²·pmf={m2} vs variance={var}", case)

    # ---------------- Normal
    nodes, weights = gl_nodes()
    for (x, mu, sg) in nor:
        case = {"section": "dist-law", "dist": "Normal", "support": x, "loc": mu, "scale": sg}
        ex.evaluations += 1
        vals = [val(m, (x, mu, sg)) for m in ("Normal.logpdf", "Normal.pdf", "Normal.cdf", "Normal.logcdf")]
        if any(isinstance(v, str) for v in vals):
            bad("C20:spec:Normal:raises", f"Normal method raised at x={x}, μ={mu}, σ={sg}: {vals}", case)
            continue
        lp, p, c, lc = (v[0] for v in vals)
        pnote("Normal.exp(logpdf)=pdf")
        if p > 0 and not close_rel(math.exp(lp), p, 1e-11):
            bad("C20:spec:Normal.exp_logpdf", f"exp(logpdf)={math.exp(lp)} ≠ pdf={p} at x={x}, μ={mu}, σ={sg}", case)
        tp = float(mp.npdf(mp.mpf(x), mp.mpf(mu), mp.mpf(sg)))
        pnote("Normal.pdf=gaussian density")
        if not close_rel(p, tp, 1e-11):
            bad("C20:spec:Normal.pdf:closed-form", f"Normal.pdf({x};{mu},{sg}) = {p}, Gaussian density = {tp}", case)
        pnote("Normal.logcdf=log(cdf)")
        if not close_abs(lc, math.log(c) if c > 0 else -math.inf, 1e-12):
            bad("C20:spec:Normal.logcdf", f"logcdf={lc} ≠ log(cdf) at x={x}, μ={mu}, σ={sg}", case)
        tc = float(mp.quad(lambda t: mp.npdf(t, mp.mpf(mu), mp.mpf(sg)), [-mp.inf, mp.mpf(mu) - 8 * mp.mpf(sg), mp.mpf(x)])
                   if x > mu - 8 * sg else mp.quad(lambda t: mp.npdf(t, mp.mpf(mu), mp.mpf(sg)), [-mp.inf, mp.mpf(x)]))
        note("Normal.cdf=∫pdf", abs(tc - c))
        if abs(tc - c) > 1e-12:
            bad("C20:spec:Normal.cdf:integral", f"Normal.cdf({x};{mu},{sg}) = {c}, ∫pdf = {tc}", dict(case, cdf=c, integral=tc))
    for (mu, sg) in sorted({(mu, sg) for _, mu, sg in nor})[: (40 if not thorough else 400)]:
        case = {"section": "dist-law", "dist": "Normal", "loc": mu, "scale": sg}
        edges = t64([mu + sg * z for z in np.linspace(-40, 40, 161)])
        pdf = lambda xs: Normal.pdf(xs, t64(mu), t64(sg))  # noqa: E731
        mean, var = float(Normal.mean(t64(mu))), float(Normal.variance(t64(sg)))
        i0 = quad_panels(pdf, edges, nodes, weights)
        i1 = quad_panels(lambda xs: xs * pdf(xs), edges, nodes, weights)
        i2 = quad_panels(lambda xs: (xs - mean) ** 2 * pdf(xs), edges, nodes, weights)
        ex.evaluations += 3
        pnote("Normal.∫pdf=1"); pnote("Normal.mean=∫x·pdf"); pnote("Normal.variance=∫(x-mean)²·pdf")
        if abs(i0 - 1) > 1e-10 or abs(i1 - mean) > 1e-9 * max(1, abs(mu), sg) or abs(i2 - var) > 1e-9 * max(1, sg * sg):
            bad("C20:spec:Normal.moments", f"μ={mu}, σ={sg}: ∫pdf={i0}, ∫x·pdf={i1} (mean {mean}), ∫(x-mean)²·pdf={i2} (variance {var})", case)

    # ---------------- LogNormal
    for (x, mu, sg) in logn:
        case = {"section": "dist-law", "dist": "LogNormal", "support": x, "loc": mu, "scale": sg}
        ex.evaluations += 1
        vals = [val(m, (x, mu, sg)) for m in ("LogNormal.logpdf", "LogNormal.pdf", "LogNormal.cdf", "LogNormal.logcdf")]
        if any(isinstance(v, str) for v in vals):
            which = [m for m, v in zip(("logpdf", "pdf", "cdf", "logcdf"), vals) if isinstance(v, str)]
            bad("C20:spec:LogNormal:raises",
                f"LogNormal.{which[0]}(support={x}, loc={mu}, scale={sg}) raised {[v for v in vals if isinstance(v, str)][0]}; "
                f"the property requires logcdf = log(cdf)", dict(case, results=[str(v) for v in vals]))
            continue
        lp, p, c, lc = (v[0] for v in vals)
        pnote("LogNormal.exp(logpdf)=pdf")
        if p > 0 and not close_rel(math.exp(lp), p, 1e-11):
            bad("C20:spec:LogNormal.exp_logpdf", f"exp(logpdf) ≠ pdf at x={x}, μ={mu}, σ={sg}", case)
        tp = float(mp.npdf(mp.log(mp.mpf(x)), mp.mpf(mu), mp.mpf(sg)) / mp.mpf(x))
        pnote("LogNormal.pdf=gaussian(log x)/x")
        if not close_rel(p, tp, 1e-10):
            bad("C20:spec:LogNormal.pdf:closed-form", f"LogNormal.pdf({x};{mu},{sg}) = {p}, gaussian(log x)/x = {tp}", case)
        pnote("LogNormal.logcdf=log(cdf)")
        if not close_abs(lc, math.log(c) if c > 0 else -math.inf, 1e-12):
            bad("C20:spec:LogNormal.logcdf", f"logcdf={lc} ≠ log(cdf)={math.log(c) if c > 0 else -math.inf} at x={x}, μ={mu}, σ={sg}", case)
        nc = val("Normal.cdf", (math.log(x), mu, sg))
        pnote("LogNormal.cdf=Normal.cdf(log x)")
        if isinstance(nc, str) or not close_abs(nc[0], c, 1e-13):
            bad("C20:spec:LogNormal.cdf:normal", f"LogNormal.cdf({x}) = {c} ≠ Normal.cdf(log x) = {nc}", case)
        f = lambda t: mp.npdf(mp.log(t), mp.mpf(mu), mp.mpf(sg)) / t  # noqa: E731
        lo = mp.exp(mp.mpf(mu) - 9 * mp.mpf(sg))
        tc = float(mp.quad(f, [0, lo, mp.mpf(x)]) if x > lo else mp.quad(f, [0, mp.mpf(x)]))
        note("LogNormal.cdf=∫pdf", abs(tc - c))
        if abs(tc - c) > 1e-11:
            bad("C20:spec:LogNormal.cdf:integral", f"LogNormal.cdf({x};{mu},{sg}) = {c}, ∫pdf = {tc}", dict(case, cdf=c, integral=tc))
    for (mu, sg) in sorted({(mu, sg) for _, mu, sg in logn if sg <= 1.2})[: (30 if not thorough else 300)]:
        case = {"section": "dist-law", "dist": "LogNormal", "loc": mu, "scale": sg}
        edges = torch.exp(t64([mu + sg * z for z in np.linspace(-40, 60, 401)]))
        try:
            pdf = lambda xs: LogNormal.pdf(xs, t64(mu), t64(sg))  # noqa: E731
            mean, var = float(LogNormal.mean(t64(mu), t64(sg))), float(LogNormal.variance(t64(mu), t64(sg)))
            i0 = quad_panels(pdf, edges, nodes, weights)
            i1 = quad_panels(lambda xs: xs * pdf(xs), edges, nodes, weights)
            i2 = quad_panels(lambda xs: (xs - mean) ** 2 * pdf(xs), edges, nodes, weights)
        except Exception as e:  # noqa: BLE001
            bad("C20:spec:LogNormal:raises", f"LogNormal pdf/mean/variance raised {type(e).__name__} at μ={mu}, σ={sg}", case)
            continue
        ex.evaluations += 3
        note("LogNormal.∫pdf=1", abs(i0 - 1))
        note("LogNormal.mean=∫x·pdf", abs(i1 - mean) / max(1.0, mean))
        note("LogNormal.variance=∫(x-mean)²·pdf", abs(i2 - var) / max(1.0, var))
        if abs(i0 - 1) > 1e-9 or abs(i1 - mean) > 1e-8 * max(1, mean) or abs(i2 - var) > 1e-7 * max(1, var):
            bad("C20:spec:LogNormal.moments", f"μ={mu}, σ={sg}: ∫pdf={i0}, ∫x·pdf={i1} (mean {mean}), ∫(x-mean)²·pdf={i2} (variance {var})", case)

    # ---------------- params_mv round trips (real code)
    for (m_, v_) in mv:
        case = {"section": "dist-law", "dist": "params_mv", "mean": m_, "variance": v_}
        ex.evaluations += 2
        try:
            loc, sc = Normal.params_mv(t64(m_), t64(v_))
            nm, nv = float(Normal.mean(loc)), float(Normal.variance(sc))
            lloc, lsc = LogNormal.params_mv(t64(m_), t64(v_))
            lm, lv = float(LogNormal.mean(lloc, lsc)), float(LogNormal.variance(lloc, lsc))
        except Exception as e:  # noqa: BLE001
            bad("C20:spec:params_mv:raises", f"params_mv round trip raised {type(e).__name__} at mean={m_}, variance={v_}", case)
            continue
        pnote("Normal.params_mv round trip"); pnote("LogNormal.params_mv round trip")
        if nm != m_ or not close_rel(nv, v_, 1e-14) and abs(nv - v_) > 1e-300:
            bad("C20:spec:Normal.params_mv", f"Normal: mean/variance of params_mv({m_},{v_}) = ({nm},{nv})", case)
        # conditioning of the variance round trip: expm1(log(1 + v/m²)) loses eps/(v/m²) relative, i.e. ~eps·m² absolute
        vtol = 1e-9 * v_ + 1e-12 * m_ * m_
        if not close_rel(lm, m_, 1e-10) or math.isnan(lv) or abs(lv - v_) > vtol:
            bad("C20:spec:LogNormal.params_mv", f"LogNormal: mean/variance of params_mv({m_},{v_}) = ({lm},{lv})",
                dict(case, observed=[lm, lv]))


# ---------------------------------------------------------------------------------------------
# 2b. multi-call histories on SHARED argument tensors
#
# The property's laws relate several helpers evaluated on ONE support grid (exp(log-density) = density, log-cdf = log(cdf),
# the density integrates / sums to the cdf and to one, the moments of the density are the stated mean and variance).  A caller
# therefore hands the SAME tensor objects (support grid, parameter tensors) to a sequence of helpers.  Every value returned
# anywhere in such a history must be the helper's value at the grid the caller built: judged (i) against float closed forms
# evaluated at the original grid values, (ii) against a twin call on fresh copies of the original values, (iii) by the laws
# between the results of the history (incl. quadrature of the density over the grid against the cdf at the panel edges, and
# d cdf / d support = density by autograd).  An exception anywhere in the history is a finding of its own.

SHARED = {
    "Normal": {"support": ("pdf", "logpdf", "cdf", "logcdf"), "params": ("loc", "scale"),
               "moments": {"mean": ("loc",), "variance": ("scale",)}},
    "LogNormal": {"support": ("pdf", "logpdf", "cdf", "logcdf"), "params": ("loc", "scale"),
                  "moments": {"mean": ("loc", "scale"), "variance": ("loc", "scale")}},
    "Poisson": {"support": ("pmf", "logpmf", "cdf", "logcdf"), "params": ("rate",),
                "moments": {"mean": ("rate",), "variance": ("rate",)}},
}
SHARED_DT = {"float64": torch.float64, "float32": torch.float32}
SHARED_PARAM_KINDS = ("python-scalars", "0-d tensors", "same-shape tensors")
SHARED_LAYOUTS = ("own", "strided-view", "expanded", "0-d")


def _f32(v: float) -> float:
    return float(torch.tensor(v, dtype=torch.float32))


def shared_build(case):
    """fresh argument objects of one history: (support, tensors to watch {name: tensor}, params {name: object})"""
    dt = SHARED_DT[case["dtype"]]
    grid, layout = case["grid"], case["layout"]
    watch = {}
    if layout == "own":
        x = torch.tensor(grid, dtype=dt)
        watch["support"] = x
    elif layout == "strided-view":
        base = torch.full((2 * len(grid) + 1,), 0.5, dtype=dt)
        base[1::2] = torch.tensor(grid, dtype=dt)
        x = base[1::2]
        watch["support (the tensor the grid is a view of)"] = base
    elif layout == "expanded":
        base = torch.tensor(grid[0], dtype=dt)
        x = base.expand(len(grid))
        watch["support (the 0-d tensor the grid is expanded from)"] = base
    else:  # 0-d
        x = torch.tensor(grid[0], dtype=dt)
        watch["support"] = x
    if case.get("requires_grad"):
        x.requires_grad_(True)
    params = {}
    for name, v in case["params"].items():
        if case["param_kind"] == "python-scalars":
            params[name] = float(v)
        else:
            params[name] = torch.tensor(v, dtype=dt)      # 0-d for a float, 1-d for a list
            watch[name] = params[name]
    return x, watch, params


def _same_tensor(a: torch.Tensor, b: torch.Tensor) -> bool:
    a, b = a.detach(), b.detach()
    return a.shape == b.shape and bool(torch.all((a == b) | (torch.isnan(a) & torch.isnan(b))))


def shared_oracle(dist: str, meth: str, x: float, par: dict) -> float:
    """float closed forms, written from the textbook definitions (independent of the code under test)"""
    if dist == "Poisson":
        lam = par["rate"]
        if meth in ("mean", "variance"):
            return lam
        lp = lambda k: k * math.log(lam) - lam - math.lgamma(k + 1)  # noqa: E731
        if meth == "logpmf":
            return lp(x)
        if meth == "pmf":
            return math.exp(lp(x))
        c = math.fsum(math.exp(lp(j)) for j in range(0, int(math.floor(x)) + 1))
        return c if meth == "cdf" else (math.log(c) if c > 0 else -math.inf)
    mu, sg = par["loc"], par["scale"]
    if meth == "mean":
        return mu if dist == "Normal" else math.exp(mu + sg * sg / 2)
    if meth == "variance":
        return sg * sg if dist == "Normal" else math.expm1(sg * sg) * math.exp(2 * mu + sg * sg)
    u = x if dist == "Normal" else math.log(x)
    z = (u - mu) / sg
    lpdf = -0.5 * z * z - math.log(sg) - 0.5 * math.log(2 * math.pi) - (0.0 if dist == "Normal" else u)
    if meth == "logpdf":
        return lpdf
    if meth == "pdf":
        return math.exp(lpdf)
    c = 0.5 * math.erfc(-z / math.sqrt(2))
    return c if meth == "cdf" else (math.log(c) if c > 0 else -math.inf)


def _shared_close(meth: str, got: float, want: float, f32: bool, want_cdf: float | None = None) -> bool:
    """does a returned value agree with the closed form (tolerances of the dtype the helper computed in)"""
    if math.isnan(got) or math.isnan(want):
        return math.isnan(got) and math.isnan(want)
    rel = 5e-4 if f32 else 1e-9
    if meth in ("pdf", "pmf", "mean", "variance"):
        return abs(got - want) <= rel * max(abs(got), abs(want)) + (1e-30 if f32 else 1e-300)
    if meth == "cdf":
        return abs(got - want) <= (2e-6 if f32 else 1e-7)       # (torch's gammaincc is accurate to ~1e-9 only)
    if meth == "logcdf":
        # 0.5(1+erf) cancels in the lower tail: the closed form is compared where the cdf is not tiny; the tail is covered by
        # the law logcdf = log(cdf) between the results of the history
        if want_cdf is not None and want_cdf < 1e-3:
            return True
        return abs(got - want) <= (1e-4 if f32 else 1e-7)
    if math.isinf(got) or math.isinf(want):
        return got == want
    return abs(got - want) <= rel * max(1.0, abs(want))


def run_shared_history(case, want_details=False):
    """executes one history on shared argument tensors; returns a list of (law, what, detail) violations"""
    dist = case["dist"]
    cls, info = DIST[dist], SHARED[dist]
    f32dt = case["dtype"] == "float32"
    # python-scalar parameters are converted to float32 tensors by the helpers: the arithmetic on them is single precision
    f32 = f32dt or case["param_kind"] == "python-scalars"
    x, watch, params = shared_build(case)
    snap = {k: v.detach().clone() for k, v in watch.items()}
    xs = [float(v) for v in x.detach().to(F64).reshape(-1)]           # the grid as the helpers were given it
    n = len(xs)
    seen = {}                                                          # parameter values as the helpers see them
    for name, v in case["params"].items():
        vals = list(v) if isinstance(v, list) else [v] * n
        if case["param_kind"] == "python-scalars" or f32:
            vals = [_f32(a) for a in vals]
        seen[name] = vals + [vals[-1]] * (n - len(vals)) if len(vals) < n else vals
    m = max(n, max(len(v) for v in seen.values()))
    if n == 1 and m > 1:                                               # a 0-d support against vector parameters
        xs = xs * m
    par_at = lambda i: {k: v[i] for k, v in seen.items()}  # noqa: E731

    out: list = []
    steps: list = []            # (index, method, values | None)
    overwritten: dict = {}      # watched tensor name -> (step index, method) of the first call after which it differs

    def args_of(meth, xx, pp):
        if meth in info["support"]:
            return [xx] + [pp[k] for k in info["params"]]
        return [pp[k] for k in info["moments"][meth]]

    def flat(r, size):
        v = r.detach().to(F64).reshape(-1) if isinstance(r, torch.Tensor) else torch.tensor([float(r)], dtype=F64)
        v = [float(a) for a in v]
        return v * size if len(v) == 1 else v

    history = []
    for i, meth in enumerate(case["sequence"]):
        label = f"step {i + 1} ({dist}.{meth} after {history if history else 'nothing'})"
        try:
            r = getattr(cls, meth)(*args_of(meth, x, params))
            vals = flat(r, m)
        except Exception as e:  # noqa: BLE001
            out.append(("raises", f"{label} raised {type(e).__name__}: {str(e)[:160]}", {"step": i + 1, "method": meth}))
            steps.append((i, meth, None))
            history.append(meth)
            continue
        for k, t in watch.items():
            if k not in overwritten and not _same_tensor(t, snap[k]):
                overwritten[k] = (i + 1, meth, [float(a) for a in snap[k].to(F64).reshape(-1)[:4]],
                                  [float(a) for a in t.detach().to(F64).reshape(-1)[:4]])
        steps.append((i, meth, vals))
        history.append(meth)
        if len(vals) != m:
            out.append((meth, f"{label} returned {len(vals)} values for {m} grid points", {"step": i + 1, "method": meth}))
            continue
        # (i) closed form at the caller's grid, (ii) twin call on fresh copies of the same values
        x2, _, p2 = shared_build(dict(case, requires_grad=False))
        try:
            twin = flat(getattr(cls, meth)(*args_of(meth, x2, p2)), m)
        except Exception as e:  # noqa: BLE001
            twin = None
            out.append(("raises", f"{dist}.{meth} on a fresh copy of the arguments raised {type(e).__name__}: {str(e)[:160]}",
                        {"step": i + 1, "method": meth}))
        for j in range(m):
            want = shared_oracle(dist, meth, xs[j], par_at(j))
            wc = shared_oracle(dist, "cdf", xs[j], par_at(j)) if meth == "logcdf" else None
            ok = _shared_close(meth, vals[j], want, f32, wc)
            tw_ok = twin is None or close_rel(vals[j], twin[j], 1e-6 if f32dt else 1e-13)
            if not (ok and tw_ok):
                ow = "; ".join(f"`{k}` was overwritten during step {s} ({dist}.{mm}): first entries {b} -> {a}"
                               for k, (s, mm, b, a) in overwritten.items()) or "no argument tensor was modified"
                out.append((meth,
                            f"{label} on the shared arguments: at grid point {j} (support={xs[j]!r}, {par_at(j)}) it returned {vals[j]!r}; "
                            f"{'closed form' if not ok else 'twin call'} at that point: {want!r}"
                            f"{'' if twin is None else f' (the same call on a fresh copy of the arguments returns {twin[j]!r})'}; {ow}",
                            {"step": i + 1, "method": meth, "index": j, "observed": vals[j], "expected": want,
                             "twin": None if twin is None else twin[j]}))
                break

    # (iii) laws between the results of the history
    def every(meth):
        return [(i, v) for i, mm, v in steps if mm == meth and v is not None and len(v) == m]
    dens, ldens = info["support"][0], info["support"][1]
    tol_e = 2e-4 if f32 else 1e-9
    for (i, lv) in every(ldens):
        for (k, pv) in every(dens):
            for j in range(m):
                e = math.exp(lv[j]) if lv[j] > -745 else 0.0
                if not (abs(e - pv[j]) <= tol_e * max(abs(e), abs(pv[j])) + (1e-30 if f32 else 1e-300)):
                    out.append(("exp_log", f"exp({dist}.{ldens}) of step {i + 1} = {e!r} ≠ {dist}.{dens} of step {k + 1} = {pv[j]!r} "
                                f"at grid point {j} (support={xs[j]!r}, {par_at(j)}); sequence {case['sequence']}",
                                {"steps": [i + 1, k + 1], "index": j}))
                    break
    for (i, lc) in every("logcdf"):
        for (k, cv) in every("cdf"):
            for j in range(m):
                w = math.log(cv[j]) if cv[j] > 0 else -math.inf
                if not (close_abs(lc[j], w, 1e-5 if f32 else 1e-12)):
                    out.append(("logcdf", f"{dist}.logcdf of step {i + 1} = {lc[j]!r} ≠ log({dist}.cdf of step {k + 1}) = {w!r} "
                                f"at grid point {j} (support={xs[j]!r}, {par_at(j)}); sequence {case['sequence']}",
                                {"steps": [i + 1, k + 1], "index": j}))
                    break
    st = case.get("structure")
    const = all(not isinstance(v, list) or len(set(v)) == 1 for v in case["params"].values())
    means = [v[0] for _, v in every("mean")]
    varis = [v[0] for _, v in every("variance")]
    if st and const and n == m:
        ti = (2e-4 if f32 else 1e-9) * st.get("tol_scale", 1.0)
        if st["kind"] == "panels":
            P, q = st["panels"], st["nodes"]
            gx, gw = np.polynomial.legendre.leggauss(q)
            edges, nodes = xs[:P + 1], xs[P + 1:]
            wts = [gw[t] * (edges[p + 1] - edges[p]) / 2 for p in range(P) for t in range(q)]
            for (i, pv) in every(dens):
                cum, acc = [0.0], 0.0
                for p in range(P):
                    acc += math.fsum(wts[p * q + t] * pv[P + 1 + p * q + t] for t in range(q))
                    cum.append(acc)
                if abs(cum[-1] - 1.0) > ti:
                    out.append(("integral", f"∫{dist}.pdf over the shared grid (step {i + 1}, {P} Gauss–Legendre panels from "
                                f"{edges[0]!r} to {edges[-1]!r}) = {cum[-1]!r} ≠ 1; {par_at(0)}; sequence {case['sequence']}",
                                {"step": i + 1, "integral": cum[-1]}))
                for (k, cv) in every("cdf"):
                    worst = max(range(P + 1), key=lambda p: abs(cum[p] - (cv[p] - cv[0])))
                    if abs(cum[worst] - (cv[worst] - cv[0])) > ti:
                        out.append(("integral", f"∫{dist}.pdf (step {i + 1}) from {edges[0]!r} to {edges[worst]!r} = {cum[worst]!r} but "
                                    f"{dist}.cdf (step {k + 1}) gives cdf(b) − cdf(a) = {cv[worst] - cv[0]!r}; {par_at(0)}; "
                                    f"sequence {case['sequence']}", {"steps": [i + 1, k + 1], "edge": worst}))
                m1 = math.fsum(w * xv * pvv for w, xv, pvv in zip(wts, nodes, pv[P + 1:]))
                for mean in means[:1]:
                    m2 = math.fsum(w * (xv - mean) ** 2 * pvv for w, xv, pvv in zip(wts, nodes, pv[P + 1:]))
                    tm = ti if dist == "Normal" else max(ti, 1e-7)     # the log-normal moments are truncated at loc + 12 scale
                    bad_m = abs(m1 - mean) > tm * max(1.0, abs(mean), par_at(0)["scale"])
                    bad_v = any(abs(m2 - var) > tm * max(1.0, abs(var)) for var in varis[:1])
                    if bad_m or bad_v:
                        out.append(("moments", f"{dist}: ∫x·pdf = {m1!r} (stated mean {mean!r}), ∫(x−mean)²·pdf = {m2!r} (stated variance "
                                    f"{varis[:1]}) with the density of step {i + 1} on the shared grid; {par_at(0)}; sequence {case['sequence']}",
                                    {"step": i + 1}))
        else:  # counts 0..K-1 in order
            for (i, pv) in every(dens):
                tot = math.fsum(pv)
                if abs(tot - 1.0) > ti:
                    out.append(("integral", f"Σ_k {dist}.pmf over the shared grid 0..{n - 1} (step {i + 1}) = {tot!r} ≠ 1; {par_at(0)}; "
                                f"sequence {case['sequence']}", {"step": i + 1, "total": tot}))
                cum = list(itertools.accumulate(pv))
                for (k, cv) in every("cdf"):
                    worst = max(range(n), key=lambda p: abs(cum[p] - cv[p]))
                    if abs(cum[worst] - cv[worst]) > max(ti, 2e-6 if f32 else 1e-7):
                        out.append(("integral", f"Σ_(j≤{worst}) {dist}.pmf (step {i + 1}) = {cum[worst]!r} but {dist}.cdf (step {k + 1}) = "
                                    f"{cv[worst]!r}; {par_at(0)}; sequence {case['sequence']}", {"steps": [i + 1, k + 1], "k": worst}))
                m1 = math.fsum(a * b for a, b in zip(xs, pv))
                for mean in means[:1]:
                    m2 = math.fsum((a - mean) ** 2 * b for a, b in zip(xs, pv))
                    if abs(m1 - mean) > 10 * ti * max(1.0, mean) or any(abs(m2 - var) > 10 * ti * max(1.0, var) for var in varis[:1]):
                        out.append(("moments", f"{dist}: Σk·pmf = {m1!r} (stated mean {mean!r}), Σ(k−mean)²·pmf = {m2!r} (stated variance "
                                    f"{varis[:1]}) with the pmf of step {i + 1} on the shared grid; {par_at(0)}; sequence {case['sequence']}",
                                    {"step": i + 1}))
    # d cdf / d support = density (autograd through the helper, on the same shared support tensor)
    if case.get("requires_grad") and dist != "Poisson":
        try:
            c = cls.cdf(*args_of("cdf", x, params))
            (g,) = torch.autograd.grad(c.sum(), x)
            bc = len(flat(g, 1)) == 1 and m > 1          # one observation broadcast against m parameter sets: d Σ_j cdf_j / d x
            g = flat(g, 1) if bc else flat(g, m)
            for j in range(len(g)):
                want = math.fsum(shared_oracle(dist, "pdf", xs[t], par_at(t)) for t in range(m)) if bc else \
                    shared_oracle(dist, "pdf", xs[j], par_at(j))
                if not _shared_close("pdf", g[j], want, f32):
                    out.append(("dcdf", f"d {dist}.cdf / d support at grid point {j} (support={xs[j]!r}, {par_at(j)}) = {g[j]!r} by autograd after "
                                f"the history {case['sequence']}, the density there is {want!r}", {"index": j}))
                    break
        except Exception as e:  # noqa: BLE001
            out.append(("raises", f"{dist}.cdf on a support tensor that requires grad (to differentiate the cdf into the density), after "
                        f"the history {case['sequence']}: raised {type(e).__name__}: {str(e)[:160]}", {"step": "autograd"}))
    if want_details:
        return out, {"overwritten": {k: {"step": s, "method": mm, "before": b, "after": a} for k, (s, mm, b, a) in overwritten.items()},
                     "results": [(i + 1, mm, None if v is None else v[:4]) for i, mm, v in steps]}
    return out


def shared_cases(rng, thorough):
    """histories: every parameter kind × support layout per distribution, both dtypes, two shuffled passes over all helpers"""
    cases = []

    def dyadic(vals):
        return rng.choice(vals)

    for dist in ("Normal", "LogNormal", "Poisson"):
        info = SHARED[dist]
        combos = [(pk, lay, False, False) for pk in SHARED_PARAM_KINDS for lay in ("own", "strided-view")]
        combos += [("same-shape tensors", "own", True, False),        # per-point parameters
                   ("same-shape tensors", "0-d", True, False),        # one observation against a vector of parameters
                   ("same-shape tensors", "expanded", True, False),
                   ("0-d tensors", "0-d", False, False),
                   ("python-scalars", "own", False, True), ("0-d tensors", "own", False, True)]   # differentiable support
        for _ in range(6 if not thorough else 40):
            combos.append((rng.choice(SHARED_PARAM_KINDS), rng.choice(SHARED_LAYOUTS), rng.random() < 0.3, rng.random() < 0.2))
        for (pk, lay, varied, grad) in combos:
            if lay in ("0-d", "expanded") and pk != "same-shape tensors":
                lay = lay if lay == "0-d" else "own"
            if grad and (dist == "Poisson" or lay not in ("own", "0-d")):
                grad = False
            dtype = "float32" if rng.random() < 0.3 else "float64"
            f32 = dtype == "float32"
            structure = None
            if dist == "Poisson":
                lam = dyadic([0.5, 2.0, 7.5, 11.0]) if rng.random() < 0.5 else round(rng.uniform(0.2, 20.0), 3)
                base = {"rate": lam}
                K = int(lam + 12 * math.sqrt(lam) + 25)
                grid = [float(k) for k in range(K)]
                structure = {"kind": "counts"}
            else:
                if f32 or rng.random() < 0.5:
                    mu = dyadic([0.0, -1.5, 2.0, 0.75, -0.25])
                    sg = dyadic([0.25, 0.5, 1.0, 1.5, 3.0]) if dist == "Normal" else dyadic([0.25, 0.5, 0.75, 1.0])
                else:
                    mu = round(rng.gauss(0, 2), 4)
                    sg = round(math.exp(rng.uniform(-3, 2)), 5) if dist == "Normal" else round(rng.uniform(0.15, 1.1), 4)
                base = {"loc": mu, "scale": sg}
                lo, hi, P, q = (-8.0, 8.0, 32, 8) if dist == "Normal" else (-8.0, 12.0, 80, 8)
                gx, _ = np.polynomial.legendre.leggauss(q)
                ez = [lo + (hi - lo) * p / P for p in range(P + 1)]
                edges = [mu + sg * z for z in ez]
                if dist == "LogNormal":
                    edges = [math.exp(e) for e in edges]
                nodes = [(edges[p] + edges[p + 1]) / 2 + (edges[p + 1] - edges[p]) / 2 * float(t) for p in range(P) for t in gx]
                grid = edges + nodes
                structure = {"kind": "panels", "panels": P, "nodes": q}
            if lay in ("0-d", "expanded"):
                npts = rng.randint(3, 9)
                grid = [rng.choice(grid)] * (npts if lay == "expanded" else 1)
                structure = None
            else:
                npts = len(grid)
            if pk == "same-shape tensors":
                if varied or lay in ("0-d", "expanded"):
                    cnt = npts if lay != "0-d" else rng.randint(3, 9)
                    params = {}
                    for k, v in base.items():
                        params[k] = [round(v + 0.25 * rng.uniform(-1, 1) * (base.get("scale", 1.0) if k == "loc" else v), 5) if k != "rate"
                                     else round(v * rng.uniform(0.6, 1.6), 4) for _ in range(cnt)]
                    structure = None if lay != "own" else structure
                else:
                    params = {k: [v] * npts for k, v in base.items()}
            else:
                params = dict(base)
            meths = list(info["support"]) + list(info["moments"])
            seq = rng.sample(meths, len(meths)) + rng.sample(meths, len(meths))
            cases.append({"section": "dist-shared", "dist": dist, "dtype": dtype, "layout": lay, "param_kind": pk,
                          "params": params, "grid": grid, "structure": structure, "requires_grad": grad, "sequence": seq})
    return cases


def shared_shrink(case, law):
    """smaller history with the same kind of violation: two- or three-call sequences, then a single grid point"""
    def fails(c):
        try:
            return any(l == law for l, _, _ in run_shared_history(c))
        except Exception:  # noqa: BLE001
            return False
    best = case
    seq = case["sequence"]
    for sub in itertools.chain(itertools.permutations(dict.fromkeys(seq), 2), itertools.permutations(dict.fromkeys(seq), 3)):
        c = dict(best, sequence=list(sub))
        if fails(c):
            best = c
            break
    if best["layout"] in ("own", "strided-view") and law not in ("integral", "moments"):
        for j in (len(best["grid"]) // 3, 0, len(best["grid"]) - 1):
            ps = {k: ([v[j]] if isinstance(v, list) and len(v) == len(best["grid"]) else v) for k, v in best["params"].items()}
            c = dict(best, grid=[best["grid"][j]], params=ps, structure=None)
            if fails(c):
                best = c
                break
    return best


def shared_argument_histories(ctx, fs, ex, thorough):
    cases = shared_cases(ctx.rng, thorough)
    ex.extra["shared_argument_histories"] = {
        "cases": len(cases),
        "rule": "the SAME support / parameter tensor objects are handed to two shuffled passes over every helper of the distribution; "
                "every returned value is judged against the closed form at the original grid, a twin call on fresh copies, and the laws "
                "between the results (exp/log, log-cdf, quadrature of the density against the cdf at panel edges and against the stated "
                "moments, d cdf/d support = density by autograd)"}
    for case in cases:
        ex.count("shared_history", f"{case['dist']}:{case['param_kind']}:{case['layout']}:{case['dtype']}" + (":grad" if case["requires_grad"] else ""))
        ex.nontriv(("shared", case["dist"], case["dtype"], case["layout"], case["param_kind"], tuple(case["sequence"]), repr(case["params"])[:80]))
        out = run_shared_history(case)
        ex.evaluations += len(case["sequence"]) * max(1, len(case["grid"]))
        done = set()
        for law, what, detail in out:
            if law in done:
                continue
            done.add(law)
            key = f"C20:spec:shared-args:{case['dist']}.{law}"
            if fs.seen.get(("spec", key), 0) >= fs.cap:
                fs.add("spec", key, what, {})
                continue
            small = shared_shrink(case, law)
            if small is not case:
                again = [(l, w, d) for l, w, d in run_shared_history(small) if l == law]
                if again:
                    what, detail = again[0][1], again[0][2]
                else:
                    small = case
            fs.add("spec", key, what, dict(small, law=law, detail=detail))


# ---------------------------------------------------------------------------------------------
# 3. ISI

def isi_views(raster: torch.Tensor, dt: Fraction, time_first: bool, n: int):
    """real `isi` output in the driver's text form; raster is bool (rows, T) in time-last layout"""
    arg = raster.t().contiguous() if time_first else raster
    out = real_isi(arg, float(dt), time_first=time_first)

    def cell(v):
        v = float(v)
        return "nan" if math.isnan(v) else frac_s(Fraction(v))
    if time_first:
        rows = out.shape[0]
        body = "|".join(",".join(cell(v) for v in out[i].reshape(-1)) for i in range(rows))
        cols = out.shape[1] if rows > 0 else 0
        return f"{rows}x{cols};{body} n={n}", out
    rows = out.shape[0] if out.ndim == 2 else 1
    o2 = out.reshape(rows, -1)
    body = "|".join(",".join(cell(v) for v in o2[i]) for i in range(rows))
    return f"{rows}x{o2.shape[1]};{body}", out


def raster_tok(raster_rows):
    return "|".join(("".join("1" if b else "0" for b in r) or "-") for r in raster_rows)


def gen_isi(ctx, C, fs, ex, thorough):
    rng = ctx.rng
    cases = []
    maxT = 6 if not thorough else 7
    for rows in (1, 2):
        for T in range(0, maxT + 1):
            for bits in itertools.product([0, 1], repeat=rows * T):
                r = [list(bits[i * T:(i + 1) * T]) for i in range(rows)]
                cases.append((r, "exhaustive"))
    for _ in range(150 if not thorough else 1500):
        rows, T = rng.randint(1, 6), rng.randint(0, 14)
        dens = rng.choice([0.1, 0.4, 0.8])
        cases.append(([[1 if rng.random() < dens else 0 for _ in range(T)] for _ in range(rows)], "random"))
    dts = [Fraction(1, 2), Fraction(1), Fraction(1, 4), Fraction(2)]
    for idx, (r, tag) in enumerate(cases):
        rows, T = len(r), len(r[0])
        dt = dts[idx % len(dts)]
        raster = torch.tensor(r, dtype=torch.bool).reshape(rows, T)
        for tf in (False, True):
            ex.count("isi", f"{tag}:{'time_first' if tf else 'time_last'}")
            ex.count("isi_T", str(T))
            try:
                view, out = isi_views(raster, dt, tf, rows)
            except Exception as e:  # noqa: BLE001
                view, out = f"raised {type(e).__name__}: {e}", None
            arg_rows = [[r[i][t] for i in range(rows)] for t in range(T)] if tf else r
            tok = raster_tok(arg_rows) if arg_rows else "none"
            line = f"isi {'T' if tf else 'F'} {rows} {frac_s(dt)} {tok}"
            case = {"section": "isi", "raster_time_last": r, "step_time": str(dt), "time_first": tf, "observed": view}
            C.add(line, judge_exact(fs, ex, "isi", case, view))
            # direct law on the real output: re-integrating from the first spike time gives the spike times
            if out is not None:
                o = out.t() if tf else out
                o = o.reshape(rows, -1)
                for i in range(rows):
                    times = [Fraction(t) * dt for t in range(T) if r[i][t]]
                    iv = [float(v) for v in o[i]]
                    good = [Fraction(v) for v in iv if not math.isnan(v)]
                    ex.evaluations += 1
                    ok = True
                    if len(times) <= 1:
                        ok = len(good) == 0
                    else:
                        acc, rec = times[0], [times[0]]
                        for d in good:
                            acc += d
                            rec.append(acc)
                        ok = rec == times and all(not math.isnan(v) for v in iv[:len(good)])
                    if not ok:
                        fs.add("spec", "C20:spec:isi:reintegrate",
                               f"train {i} of raster {r} (dt={dt}, time_first={tf}): intervals {iv} do not re-integrate to spike times {[str(t) for t in times]}",
                               dict(case, train=i))
            ex.nontriv(("isi", tuple(map(tuple, r)), tf))


def judge_exact(fs, ex, what, case, real_view):
    def judge(resp):
        m, s = split_resp(resp)
        if m == "bad-op":
            raise RuntimeError(f"driver rejected {what} request {case}")
        ex.evaluations += 1
        ex.traces_validated += 1
        if s is not None and real_view != s:
            fs.add("spec", f"C20:spec:{what}", f"{what}: specification `{s}` vs real `{real_view}`",
                   dict(case, expected=s))
        elif real_view != m:
            fs.add("model", f"C20:model:{what}", f"{what}: code-shaped model `{m}` vs real `{real_view}`",
                   dict(case, model=m))
    return judge


# ---------------------------------------------------------------------------------------------
# 4. Victor–Purpura

def vp_real(a, b, cost, tensor: bool) -> Fraction | str:
    ta, tb = torch.tensor([float(x) for x in a], dtype=torch.float32), torch.tensor([float(x) for x in b], dtype=torch.float32)
    c = float("inf") if cost == "inf" else float(cost)
    try:
        r = real_vp(ta, tb, torch.tensor([c], dtype=torch.float32) if tensor else c)
    except Exception as e:  # noqa: BLE001
        return f"raised {type(e).__name__}: {e}"
    v = float(r.reshape(-1)[0])
    if math.isnan(v) or math.isinf(v):
        return repr(v)
    return Fraction(v)


def gen_vp(ctx, C, fs, ex, thorough):
    rng = ctx.rng
    grid = [Fraction(k, 2) for k in range(5)] if not thorough else [Fraction(k, 2) for k in range(6)]
    vecs = [()]
    for L in (1, 2, 3):
        vecs += list(itertools.combinations(grid, L))
    vecs += [(Fraction(1), Fraction(1)), (Fraction(3, 2), Fraction(1, 2)), (Fraction(2), Fraction(0), Fraction(1)),
             (Fraction(1, 2), Fraction(1, 2), Fraction(1, 2))]  # coincident / unsorted trains
    costs = [Fraction(0), Fraction(1, 4), Fraction(1, 2), Fraction(1), Fraction(2), Fraction(3), "inf"]
    table: dict = {}
    for a in vecs:
        for b in vecs:
            for cost in costs:
                for tensor in (False, True):
                    # float path for every cost on a sample of pairs, tensor path on all pairs
                    if not tensor and not thorough and (len(a) + len(b)) % 2 == 1 and cost not in (0, "inf"):
                        continue
                    r = vp_real(a, b, cost, tensor)
                    view = frac_s(r) if isinstance(r, Fraction) else r
                    ctok = "inf" if cost == "inf" else frac_s(cost)
                    line = f"vp {'T' if tensor else 'F'} {ctok} " + \
                        (",".join(frac_s(x) for x in a) or "-") + " " + (",".join(frac_s(x) for x in b) or "-")
                    case = {"section": "vp", "t0": [str(x) for x in a], "t1": [str(x) for x in b], "cost": str(cost),
                            "cost_is_tensor": tensor, "observed": view}
                    ex.count("vp", f"cost={cost}:{'tensor' if tensor else 'float'}")
                    C.add(line, judge_exact(fs, ex, "vp", case, view))
                    if tensor and isinstance(r, Fraction):
                        table[(a, b, cost)] = r
                    ex.nontriv(("vp", a, b, str(cost), tensor))
    # metric laws on the REAL distances (pairs and triples)
    ex.extra["vp_pairs"] = len(vecs) ** 2
    ex.extra["vp_triples_checked"] = 0
    for cost in costs:
        for a in vecs:
            for b in vecs:
                d = table.get((a, b, cost))
                if d is None:
                    continue
                ex.evaluations += 1
                case = {"section": "vp-law", "t0": [str(x) for x in a], "t1": [str(x) for x in b], "cost": str(cost), "distance": str(d)}
                n, m = len(a), len(b)
                if d < 0 or d != table.get((b, a, cost)):
                    fs.add("spec", "C20:spec:vp:symm-nonneg", f"d(a,b)={d}, d(b,a)={table.get((b, a, cost))} at cost {cost}", case)
                if not (abs(n - m) <= d <= n + m):
                    fs.add("spec", "C20:spec:vp:bounds", f"d={d} outside [|n-m|, n+m] = [{abs(n - m)}, {n + m}] at cost {cost}", case)
                if cost == 0 and d != abs(n - m):
                    fs.add("spec", "C20:spec:vp:cost-zero", f"cost 0: d={d} ≠ |n-m|={abs(n - m)}", case)
                if cost == "inf" and d != n + m:
                    fs.add("spec", "C20:spec:vp:cost-inf", f"cost inf: d={d} ≠ n+m={n + m}", case)
                if cost != "inf" and a == b and d != 0:
                    fs.add("spec", "C20:spec:vp:self-zero", f"d(a,a)={d} ≠ 0 at cost {cost}", case)
                if cost not in (0, "inf") and a != b and d == 0:
                    fs.add("spec", "C20:spec:vp:indiscernible", f"d(a,b)=0 for a≠b at cost {cost}", case)
        for a in vecs:
            for b in vecs:
                dab = table.get((a, b, cost))
                for c in vecs:
                    dbc, dac = table.get((b, c, cost)), table.get((a, c, cost))
                    if None in (dab, dbc, dac):
                        continue
                    ex.extra["vp_triples_checked"] += 1
                    if dac > dab + dbc:
                        fs.add("spec", "C20:spec:vp:triangle",
                               f"d(a,c)={dac} > d(a,b)+d(b,c)={dab}+{dbc} at cost {cost}",
                               {"section": "vp-law", "a": [str(x) for x in a], "b": [str(x) for x in b],
                                "c": [str(x) for x in c], "cost": str(cost)})
    ex.evaluations += ex.extra["vp_triples_checked"]
    # random longer trains (model/spec tie only)
    for _ in range(60 if not thorough else 600):
        a = tuple(sorted(Fraction(rng.randint(0, 40), 4) for _ in range(rng.randint(0, 7))))
        b = tuple(sorted(Fraction(rng.randint(0, 40), 4) for _ in range(rng.randint(0, 7))))
        cost = rng.choice(costs + [Fraction(5, 4), Fraction(1, 8)])
        tensor = rng.random() < 0.7
        r = vp_real(a, b, cost, tensor)
        view = frac_s(r) if isinstance(r, Fraction) else r
        ctok = "inf" if cost == "inf" else frac_s(cost)
        line = f"vp {'T' if tensor else 'F'} {ctok} " + (",".join(frac_s(x) for x in a) or "-") + " " + (",".join(frac_s(x) for x in b) or "-")
        case = {"section": "vp", "t0": [str(x) for x in a], "t1": [str(x) for x in b], "cost": str(cost),
                "cost_is_tensor": tensor, "observed": view}
        ex.count("vp", "random-long")
        C.add(line, judge_exact(fs, ex, "vp", case, view))


# ---------------------------------------------------------------------------------------------

def explore(ctx) -> Exploration:
    ex = Exploration()
    fs = Findings(ex)
    thorough = ctx.tier == "thorough" or ctx.intensify
    C = Collector()
    check_parallel(fs, ex)
    import transval
    transval.validate(ctx, ["Distributions"], ex, per_fn=40 if not thorough else 200)   # generated method bodies vs the compiled source
    gen_kernels(ctx, C, fs, ex, thorough)
    gen_dist_differential(ctx, C, fs, ex, thorough)
    gen_isi(ctx, C, fs, ex, thorough)
    gen_vp(ctx, C, fs, ex, thorough)
    resp = ctx.run_driver(DRIVER, C.lines)
    for line, judge, r in zip(C.lines, C.judges, resp):
        if r.strip() == "bad-op":
            raise RuntimeError(f"driver protocol failure on `{line}`")
        judge(r)
    law_checks_dist(ctx, fs, ex, thorough)
    shared_argument_histories(ctx, fs, ex, thorough)
    ex.exhaustive = False
    ex.rule = (
        "kernels: every interp_*/extrap_* function and every matching pair on boundary inputs (sample time 0, dt/4, dt/2 (tie), 3dt/4, dt; "
        "equal brackets; zeros; six step times) plus seeded random inputs (Gaussian and dyadic values, sample-time fraction in [1/64, 63/64], "
        "four time/rate constants, four `adjust` callables); distributions: every classmethod of Poisson/Normal/LogNormal on a parameter grid "
        "incl. λ=0, k=0, σ from 1e-3 to 50, tails to ±9σ, plus seeded random parameters; ISI: ALL rasters with T≤6 (thorough 7) and 1–2 trains, "
        "time-first and time-last, plus random rasters up to 6×14; Victor–Purpura: all pairs (and triples for the triangle inequality) of spike-time "
        "vectors of length ≤3 from a half-integer grid plus coincident/unsorted trains, costs {0,1/4,1/2,1,2,3,inf}, float and tensor cost, plus random "
        "longer trains; shared-argument histories: per distribution, the SAME support / parameter tensor objects (own tensor, strided view, "
        "expanded 0-d, 0-d against parameter vectors; python-scalar, 0-d and same-shape parameter tensors; float64 / float32; optionally "
        "requiring grad) are handed to two shuffled passes over every helper, each result judged against the closed form at the original "
        "grid, a twin call on fresh copies, and the exp/log, log-cdf, quadrature-to-cdf, normalisation, moment and d cdf/dx = pdf laws "
        "between the results. A case is non-trivial when it exercises a distinct input tuple; evaluations count individual comparisons "
        "(differential, law on real code, metric law on a pair/triple).")
    ex.samples = [C.lines[0], C.lines[len(C.lines) // 3], C.lines[2 * len(C.lines) // 3], C.lines[-1]]
    ex.extra["driver_requests"] = len(C.lines)
    ex.extra["unproved_subclaims"] = []
    return ex


def _vp_line(a, b, cost, tensor):
    ctok = "inf" if cost == "inf" else frac_s(cost)
    return f"vp {'T' if tensor else 'F'} {ctok} " + (",".join(frac_s(x) for x in a) or "-") + " " + \
        (",".join(frac_s(x) for x in b) or "-")


def replay(ctx, data) -> int:
    """re-executes the recorded failing input against the current tree (and the driver where one applies);
    returns 1 while the disagreement persists"""
    case = data.get("failing_input") or {}
    print("recorded:", data.get("key"), "-", data.get("what"))
    sec = case.get("section")
    if sec == "roundtrip":
        en, inn, kind, exact = PAIRS[case["pair"]]
        par = case.get("param")
        e = call_extrap(en, case["sample"], case["sample_at"], case["prev"], case["next"], case["step_time"], par)
        rt = call_interp(inn, e[0], e[1], case["sample_at"], case["step_time"],
                         par if kind in ("time_constant", "rate_constant") else None)
        args = [case["sample"], case["sample_at"], case["prev"], case["next"], case["step_time"]] + \
            ([par] if kind in ("time_constant", "rate_constant") else [])
        line = f"rt {case['pair']} " + " ".join(hx(a) for a in args) + (f" adj={par}" if kind == "adjust" else "")
        m, sp = split_resp(ctx.run_driver(DRIVER, [line])[0])
        print(f"real: extrap -> {e}; interp back -> {rt}\nlean: model {unhx(m)}  specification (the sample) {unhx(sp)}")
        scale = max(1.0, abs(case["sample"]), abs(case["prev"]), abs(case["next"]))
        ok = (rt == case["sample"]) if exact else abs(rt - case["sample"]) <= 1e-9 * scale
        print("agrees" if ok else "DISAGREEMENT")
        return 0 if ok else 1
    if sec in ("linear_between", "linear_at_ends"):
        p, n, dt = case["prev"], case["next"], case["step_time"]
        s = case.get("sample_at", dt)
        v0, v, v1 = (call_interp("interp_linear", p, n, x, dt) for x in (0.0, s, dt))
        print(f"interp_linear({p},{n},·,{dt}) at 0, {s}, dt = {v0}, {v}, {v1}")
        tol = 1e-12 * max(1.0, abs(p), abs(n))
        ok = v0 == p and close_abs(v1, n) and (min(p, n) - tol <= v <= max(p, n) + tol or not 0 <= s <= dt)
        print("agrees" if ok else "DISAGREEMENT")
        return 0 if ok else 1
    if sec == "dist-law":
        ex = Exploration()
        fs = Findings(ex, cap_per_key=50)
        law_checks_dist(ctx, fs, ex, False)
        hits = [f for f in ex.findings if f.key == data.get("key")]
        d = case.get("dist")
        if d in DIST and "support" in case:
            names = ("support", "rate") if d == "Poisson" else ("support", "loc", "scale")
            args = tuple(case[n] for n in names)
            meths = ("pmf", "logpmf", "cdf", "logcdf") if d == "Poisson" else ("pdf", "logpdf", "cdf", "logcdf")
            print(d, dict(zip(names, args)), {m: call_dist(f"{d}.{m}", args)[0] for m in meths})
        for f in hits[:3]:
            print("still failing:", f.what)
        print("agrees" if not hits else "DISAGREEMENT")
        return 1 if hits else 0
    if sec == "dist-shared":
        out, det = run_shared_history(case, want_details=True)
        print(f"{case['dist']}: support {case['layout']} {case['dtype']} tensor of {len(case['grid'])} point(s), parameters {case['params']} as "
              f"{case['param_kind']}, requires_grad={case.get('requires_grad', False)}; the same objects are handed to {case['sequence']}")
        for step, meth, vals in det["results"]:
            print(f"    step {step} {meth}: {'raised' if vals is None else vals}")
        for k, v in det["overwritten"].items():
            print(f"    argument {k} overwritten during step {v['step']} ({v['method']}): {v['before']} -> {v['after']}")
        for law, what, _ in out[:4]:
            print("still failing:", f"[{law}]", what)
        print("DISAGREEMENT" if out else "agrees")
        return 1 if out else 0
    if sec == "isi":
        r = case["raster_time_last"]
        rows, T = len(r), len(r[0])
        dt, tf = Fraction(case["step_time"]), case["time_first"]
        raster = torch.tensor(r, dtype=torch.bool).reshape(rows, T)
        try:
            view, _ = isi_views(raster, dt, tf, rows)
        except Exception as e:  # noqa: BLE001
            view = f"raised {type(e).__name__}: {e}"
        arg_rows = [[r[i][t] for i in range(rows)] for t in range(T)] if tf else r
        line = f"isi {'T' if tf else 'F'} {rows} {frac_s(dt)} {raster_tok(arg_rows) if arg_rows else 'none'}"
        m, sp = split_resp(ctx.run_driver(DRIVER, [line])[0])
        print(f"{line}\n    real: {view}\n    lean: M {m} || S {sp}")
        print("agrees" if view == sp else "DISAGREEMENT")
        return 0 if view == sp else 1
    if sec in ("vp", "vp-law"):
        cost = "inf" if case["cost"] == "inf" else Fraction(case["cost"])
        trains = [tuple(Fraction(x) for x in case[k]) for k in ("t0", "t1", "a", "b", "c") if k in case]
        bad = False
        for a in trains:
            for b in trains:
                for tensor in (True, False):
                    r = vp_real(a, b, cost, tensor)
                    view = frac_s(r) if isinstance(r, Fraction) else r
                    m, sp = split_resp(ctx.run_driver(DRIVER, [_vp_line(a, b, cost, tensor)])[0])
                    print(f"{_vp_line(a, b, cost, tensor)}\n    real: {view}\n    lean: M {m} || S {sp}")
                    bad |= view != sp
        print("DISAGREEMENT" if bad else "agrees")
        return 1 if bad else 0
    print("replay: no executable input recorded (proof / tie breakage):", data.get("broken"))
    for b in data.get("broken_detail", [])[:5]:
        print("  ", b)
    return 1


def explore_impl_only(ctx) -> Exploration:
    """used when the Lean build is broken: the drivers only need the (core-only) model files, so the
    full exploration is attempted first; failing that, the laws are evaluated on the real code alone"""
    try:
        return explore(ctx)
    except Exception:  # noqa: BLE001
        ex = Exploration(rule="Lean driver unavailable; laws evaluated on the real code only")
        fs = Findings(ex)
        law_checks_dist(ctx, fs, ex, True)
        shared_argument_histories(ctx, fs, ex, True)
        return ex
