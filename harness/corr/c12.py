"""C12 — checkpoint at any step, restore into another instance, identical future.

Tie between `Model/Persist.lean` and the code
  (A1) introspection: for every module class, the key set of the real `state_dict()` (tensor keys and the
       keys inside `_extra_state`) vs the model's `save` key set (driver `keys …`);
  (A2) the record and fold-reducer machines with `save` / `load` executed in Lean and on the real
       `RecordTensor` / `CAReducer` / `PassthroughReducer` through `torch.save` → `load_state_dict(strict=True)`:
       load outcome (ok / the set of missing, unexpected, size-mismatch keys) and every later output.
Search (the main tie): REAL resume runs.  For a run of length T and EVERY checkpoint step k the state dicts of
layer (+ trainer, + classifier) go through `torch.save`/`torch.load` (BytesIO) and `load_state_dict(strict=True)`
into (fresh0) a freshly constructed instance, (a) a fresh instance that has seen one unrelated step, (b) an instance
run on other data, (same) an instance already run on the VERY tensor objects that are presented again after the restore
(the caller's spike train kept as rows of one bool tensor), (shared2) two instances restored from ONE deserialised
checkpoint object and stepped alternately, (rewind) one instance restored from one deserialised object, stepped, and
restored from the same object again; the continuation is compared with the uninterrupted run with `torch.equal` on every
output and every state variable (buffers, parameters, extras, derived reads).  About half of the scenarios (and the forced-coverage
scenario of every adaptive neuron class) have training / inference PHASES: a per-step schedule of adapting and non-adapting steps
(given per call with `adapt=` or through the neurons' train() / eval() mode), and restore targets whose prior steps were inference
only, training then inference, or training - a validation instance into which training checkpoints are loaded, and vice versa.  Outside the property's proviso (lazily shaped
recorders / `feedback_spikes` not yet materialised on one side; pending accumulator parts) the load must raise the
strict-load `RuntimeError` — or resume exactly; silent divergence is a violation.
"""
from __future__ import annotations

import copy
import io
import json
import re
import time

import torch
import torch.nn as nn

import inferno
import inferno.neural as snn
import inferno.learn as learn
import inferno.observe as obs
from inferno.core.infrastructure import RecordTensor

from runner import Exploration, Finding
import seqcheck
from transval import hx, unhx
from corr import netbuild as nb

SPEC = {
    "prop": "C12",
    "translate": ["PersistProg"],
    "lean_targets": ["InfernoVerif.Props.C12", "InfernoVerif.Props.C12GlueProg", "InfernoVerif.Model.Persist", "InfernoVerif.Drv.Proto",
                     "InfernoVerif.Gen.Prelude"],
    "prop_files": ["InfernoVerif/Props/C12.lean", "InfernoVerif/Props/C12GlueProg.lean"],
    "lemma_files": ["InfernoVerif/Lemmas/Persist.lean"],
    "model_files": ["InfernoVerif/Model/Persist.lean", "InfernoVerif/Model/RingOps.lean", "InfernoVerif/Model/Ring.lean"],
    "driver_targets": ["InfernoVerif.Model.Persist", "InfernoVerif.Drv.Proto", "InfernoVerif.Gen.Prelude"],
    "assumptions": [
        "the Lean model covers persistence only: WHICH fields are saved / restored / recomputed and the strict-load error rules; "
        "component dynamics are arbitrary functions of the modelled fields (neuron, synapse, classifier) or the C01 record machine "
        "(record, fold reducer) — that the real step functions read nothing else is established by the real resume runs, not in Lean",
        "source and target have the same configuration (constructor arguments incl. dtype); load_state_dict's copy_ then performs no conversion",
        "UninitializedBuffer storage is not checkpointed (state_dict of such a module is outside the modelled domain)",
        "the state of a target AFTER a rejected load is not modelled (torch loads non-atomically: extras and matching tensors are "
        "already copied when the RuntimeError is raised); a rejected load ends the comparison for that target",
        "state dicts are serialised (torch.save) at the checkpoint; a live state_dict() aliases the module's tensors and its _extras dict",
        "checkpoints are taken between simulation steps (after update()); checkpoints between trainer() and update() (pending accumulator "
        "parts) are exercised separately: they load only into a target with the same number of pending parts",
        "CPU, float64 default dtype (MaxRateClassifier keeps its float32 parameter)",
    ],
}
DRIVER = "drivers/C12.lean"
# `reload <id>` = restore from the deserialised object the previous load used: for the model / specification a load like any other
seqcheck.DRIVER_MAP[DRIVER] = lambda l: ("load" + l[6:]) if l.startswith("reload ") else l
ERRS = {"RuntimeError", "ValueError", "TypeError", "AttributeError", "IndexError", "KeyError"}
KEY_CLF = "C12:classifier:fresh-derived-buffers"
KEY_ACC = "C12:accumulator:stale-reduction-cache"


def ser(sd):
    b = io.BytesIO()
    torch.save(sd, b)
    return b.getvalue()


def deser(raw):
    return torch.load(io.BytesIO(raw))


def parse_load_error(msg: str, prefix_strip: str = "") -> str:
    """torch's strict-load RuntimeError → `err kind:key,…` (sorted)"""
    out = []
    m = re.search(r"Missing key\(s\) in state_dict: (.*?)\.\s*(?:\n|$)", msg)
    if m:
        out += ["missing:" + k for k in re.findall(r'"([^"]+)"', m.group(1))]
    m = re.search(r"Unexpected key\(s\) in state_dict: (.*?)\.\s*(?:\n|$)", msg)
    if m:
        out += ["unexpected:" + k for k in re.findall(r'"([^"]+)"', m.group(1))]
    out += ["shape:" + k for k in re.findall(r"size mismatch for ([^:]+):", msg)]
    return "err " + ",".join(sorted(out))


# =====================================================================================================
# (A1) key-set introspection

def spec_of(m, stepped: bool):
    """driver `keys` request for a real module, decided from its CLASS and configuration only"""
    if isinstance(m, snn.DeltaCurrent):
        return "synapse delta"
    if isinstance(m, snn.DeltaPlusCurrent):
        return "synapse deltaplus"
    if isinstance(m, snn.SingleExponentialCurrent):
        return "synapse singleexp"
    if isinstance(m, snn.DoubleExponentialCurrent):
        return "synapse doubleexp"
    if isinstance(m, (snn.ALIF, snn.GLIF2)):
        return "neuron threshold_adaptation_"
    if isinstance(m, (snn.Izhikevich, snn.AdEx)):
        return "neuron current_adaptation_"
    if isinstance(m, snn.Neuron):
        return "neuron -"
    if isinstance(m, snn.Connection):
        return f"connection {'T' if m.biased else 'F'} {'T' if m.delayedby is not None else 'F'}"
    if isinstance(m, snn.Accumulator):
        return f"accumulator {len(m._pos)} {len(m._neg)}"
    if isinstance(m, obs.FoldReducer):
        return f"reducer {'T' if isinstance(m, obs.CAReducer) else 'F'} {'init' if stepped else 'empty'}"
    if isinstance(m, learn.MaxRateClassifier):
        return "classifier"
    if isinstance(m, snn.RecurrentSerial):
        return f"feedback {'some' if stepped else 'none'}"
    return "stateless"


def real_keys(top) -> dict:
    """module path -> sorted ['T:key' | 'E:key'] of the real state_dict()"""
    sd = top.state_dict()
    per = {n: [] for n, _ in top.named_modules(remove_duplicate=False)}
    for k, v in sd.items():
        path, _, leaf = k.rpartition(".")
        owner = top.get_submodule(path) if path else top
        if isinstance(owner, nn.ParameterList):
            ppath, _, lname = path.rpartition(".")
            per[ppath].append(f"T:{lname}.{leaf}")
        elif leaf == "_extra_state":
            per[path] += [f"E:{e}" for e in v.keys()]
        else:
            per[path].append(f"T:{leaf}")
    return {p: sorted(v) for p, v in per.items()}


def introspect(ctx, ex, tops):
    """tops: list of (label, module, stepped)"""
    reqs, where = [], []
    for label, top, stepped in tops:
        rk = real_keys(top)
        for path, m in top.named_modules(remove_duplicate=False):
            if isinstance(m, nn.ParameterList):
                continue
            sp = spec_of(m, stepped)
            reqs.append("keys " + sp)
            where.append((label, path, type(m).__name__, sp, rk[path]))
    resp = ctx.run_driver(DRIVER, reqs)
    for (label, path, cls, sp, real), r in zip(where, resp):
        ex.evaluations += 1
        ex.count("introspected-class", cls)
        want = [] if r == "-" else r.split(",")
        if want != real:
            if len([f for f in ex.findings if f.key == f"C12:keys:{cls}"]) < 2:
                ex.findings.append(Finding("model", f"C12:keys:{cls}",
                                           f"{label}: state_dict keys of {cls} at '{path}' are {real}, the model's save has {want}",
                                           {"label": label, "path": path, "class": cls, "model_spec": sp, "real": real, "model": want}))
        elif real:
            ex.nontriv(("keys", cls, tuple(real)))


# =====================================================================================================
# (A2) record / reducer machines on both sides

def shp(tok):
    return () if tok == "s" else tuple(int(x) for x in tok.split("x"))


def shp_s(shape):
    return "s" if len(shape) == 0 else "x".join(str(int(x)) for x in shape)


def row_s(t):
    v = t.detach().to(torch.float64).reshape(-1).tolist()
    return ",".join(hx(x) for x in v) if v else "-"


def obs_t(tok):
    sh, vs = tok.split(";")
    vals = [] if vs == "-" else [unhx(x) for x in vs.split(",")]
    return torch.tensor(vals, dtype=torch.float64).reshape(shp(sh))


class RealMachines:
    def __init__(self):
        self.m = {}
        self.ck = None
        self.ckobj = None        # the deserialised checkpoint object of the last `load` (`reload` restores from it again)
        self.pool = {}           # the caller's observation tensors: the same values are presented as the SAME tensor object
        self.poisoned = set()    # targets of a rejected load: partially loaded by torch, outside the model

    def obs(self, tok):
        if tok not in self.pool:
            self.pool[tok] = obs_t(tok)
        return self.pool[tok]

    def exec(self, line):
        tok = line.split()
        try:
            return self._exec(tok)
        except Exception as e:
            name = type(e).__name__
            return "err " + (name if name in ERRS else "Other")

    def _exec(self, tok):
        if tok[0] == "new":
            _, mid, kind, n = tok[:4]
            n = int(n)
            if kind == "ring":
                st = tok[4].split(":")
                val = None if st[0] == "none" else (torch.empty(0) if st[0] == "empty" else torch.zeros(shp(st[1])))
                owner = inferno.Module()
                RecordTensor.create(owner, "rec", 1.0, float(n), val, inclusive=False)
                assert owner.rec.recordsz == n
                self.m[mid] = ("ring", owner)
            else:
                cls = obs.CAReducer if tok[4] == "ca" else obs.PassthroughReducer
                red = cls(1.0, duration=(float(n) if n > 1 else 0.0), inplace=tok[5] == "T")
                assert red.data_.recordsz == n
                self.m[mid] = ("reducer", red)
            return "ok"
        if tok[0] not in ("load", "reload") and tok[1] in self.poisoned:
            return "after-failed-load"
        if tok[0] == "save":
            self.ck = ser(self.m[tok[1]][1].state_dict())
            self.ckobj = None
            return "ok"
        if tok[0] in ("load", "reload"):
            # `load`: torch.load, then load_state_dict; `reload`: load_state_dict from the object the previous load used
            if tok[0] == "load" or self.ckobj is None:
                self.ckobj = deser(self.ck)
            try:
                self.m[tok[1]][1].load_state_dict(self.ckobj, strict=True)
            except RuntimeError as e:
                if "Error(s) in loading state_dict" not in str(e):
                    raise
                self.poisoned.add(tok[1])
                return parse_load_error(str(e))
            return "ok"
        kind, obj = self.m[tok[1]]
        if tok[0] == "dump":
            rt = obj.rec if kind == "ring" else obj.data_
            v = rt.value
            if v is None:
                s = "none"
            elif v.numel() == 0 and v.ndim <= 1:
                s = "empty"
            else:
                s = f"init:{shp_s(v.shape[1:])}:ptr={rt.pointer}:" + "|".join(row_s(v[i]) for i in range(v.shape[0]))
            if kind == "reducer":
                s += f";initial={'T' if obj._initial else 'F'}"
                if isinstance(obj, obs.CAReducer):
                    s += f";count={obj._count}"
            return s
        op = tok[2:]
        if kind == "reducer":
            if op[0] == "push":
                obj(self.obs(op[1]))
                return "ok"
            if op[0] == "clear":
                obj.clear(keepshape=op[1] == "T")
                return "ok"
            if op[0] == "peek":
                r = obj.peek()
                return "None" if r is None else "row " + row_s(r)
            raise AssertionError(op)
        rt = obj.rec
        if op[0] == "push":
            rt.push(self.obs(op[1]), inplace=op[2] == "T")
            return "ok"
        if op[0] == "pop":
            r = rt.pop()
            return "None" if r is None else "row " + row_s(r)
        if op[0] == "peek":
            r = rt.peek()
            return "None" if r is None else "row " + row_s(r)
        if op[0] == "read":
            return "row " + row_s(rt.read(int(op[1])))
        if op[0] == "write":
            rt.write(self.obs(op[1]), offset=int(op[2]), inplace=op[3] == "T")
            return "ok"
        if op[0] == "readrange":
            r = rt.readrange(int(op[1]), int(op[2]), forward=op[3] == "T")
            return "rows " + "|".join(row_s(r[..., j]) for j in range(r.shape[-1]))
        if op[0] in ("incr", "decr"):
            p = getattr(rt, op[0])(int(op[1]))
            return f"ptr {rt.pointer}"
        if op[0] == "align":
            rt.align(int(op[1]))
            return "ok"
        if op[0] == "reset":
            rt.reset(unhx(op[1]))
            return "ok"
        if op[0] == "initialize":
            rt.initialize(shp(op[1]))
            return "ok"
        if op[0] == "deinitialize":
            rt.deinitialize(False)
            return "ok"
        raise AssertionError(op)


def obs_tok(rng, shape, held=None):
    """an observation token; with `held` (the tokens the caller already presented) an earlier one is presented AGAIN 40% of the
    time - the real side keeps one tensor object per token, so this is the caller pushing a tensor it still holds"""
    if held and rng.random() < 0.4:
        same = [t for t in held if t.split(";")[0] == shp_s(shape)]
        if same:
            return rng.choice(same)
    P = 1
    for s in shape:
        P *= s
    tok = f"{shp_s(shape)};" + (",".join(hx(rng.randint(-40, 80) / 8) for _ in range(P)) if P else "-")
    if held is not None:
        held.append(tok)
    return tok


def b(x):
    return "T" if x else "F"


def ring_op(rng, mid, n, shape, held=None):
    op = rng.choice(["push", "push", "push", "pop", "peek", "read", "write", "readrange", "incr", "decr", "align", "reset"])
    o, L = rng.randint(0, 2 * n), rng.randint(1, n)
    if op == "push":
        return f"op {mid} push {obs_tok(rng, shape, held)} {b(rng.random() < 0.5)}"
    if op in ("pop", "peek"):
        return f"op {mid} {op}"
    if op == "read":
        return f"op {mid} read {o}"
    if op == "write":
        return f"op {mid} write {obs_tok(rng, shape, held)} {o} {b(rng.random() < 0.5)}"
    if op == "readrange":
        return f"op {mid} readrange {L} {o} {b(rng.random() < 0.5)}"
    if op in ("incr", "decr"):
        return f"op {mid} {op} {rng.randint(0, 2 * n)}"
    if op == "align":
        return f"op {mid} align {rng.randint(0, n - 1)}"
    return f"op {mid} reset {hx(rng.choice([0.0, 1.5, -2.0]))}"


def machine_case(rng, kind):
    """source `a` runs k ops, target `b` (same or - sometimes - different configuration / laziness) runs m other ops,
    checkpoint a -> b, then both continue with the same operations.  Restore modes: `single` (one torch.load, one restore);
    `rewind` (restore, run on, restore AGAIN from the same deserialised object); `two` (a second target `c` of b's configuration
    restored from the same deserialised object, b and c then run alternately).  Observation tensors are held by the caller and
    presented again (same object) before and after the restore."""
    n = rng.choice([1, 2, 3, 4, 5])
    shape = rng.choice([(), (2,), (3,), (2, 2)])
    mode = rng.choice(["single", "single", "rewind", "two"])
    held = []
    lines = []
    if kind == "ring":
        z = f"zeros:{shp_s(shape)}"
        st_a = rng.choice(["none", "empty", z, z, z])
        shape_b, nb_ = shape, n
        if rng.random() < 0.7:
            st_b = st_a
        else:
            shape_b = rng.choice([(), (2,), (3,)])
            st_b = rng.choice(["none", "empty", z, f"zeros:{shp_s(shape_b)}"])
            if st_b == z:
                shape_b = shape
            if st_a == z and st_b.startswith("zeros") and rng.random() < 0.4:
                nb_ = rng.choice([1, 2, 3, 4, 5])       # record-size mismatch: only where the shape check must fire
        lines += [f"new a ring {n} {st_a}", f"new b ring {nb_} {st_b}"]
        if mode == "two":
            lines.append(f"new c ring {nb_} {st_b}")
        for _ in range(rng.randint(0, 2 * n + 2)):
            lines.append(ring_op(rng, "a", n, shape, held))
        for _ in range(rng.choice([0, 1, 1, 2, 2 * n + 1])):
            lines.append(ring_op(rng, "b", nb_, shape_b, held))
        if mode == "two":
            for _ in range(rng.choice([0, 1, 2])):
                lines.append(ring_op(rng, "c", nb_, shape_b, held))
        def cont(mid, cnt):
            out = []
            for _ in range(cnt):
                out += [ring_op(rng, mid, nb_, shape, held), f"dump {mid}"]
            return out
    else:
        fold = rng.choice(["ca", "ca", "pass"])
        ip = rng.random() < 0.5
        lines += [f"new a reducer {n} {fold} {b(ip)}", f"new b reducer {n} {fold} {b(ip)}"]
        if mode == "two":
            lines.append(f"new c reducer {n} {fold} {b(ip)}")
        def red_ops(mid, cnt, allow_clear):
            out = []
            for _ in range(cnt):
                u = rng.random()
                if allow_clear and u < 0.12:
                    out.append(f"op {mid} clear {b(rng.random() < 0.6)}")
                elif u < 0.3:
                    out.append(f"op {mid} peek")
                else:
                    out.append(f"op {mid} push {obs_tok(rng, shape, held)}")
            return out
        k = rng.randint(0, 2 * n + 3)
        lines += red_ops("a", k, True)
        if rng.random() < 0.25:
            lines.append("op a clear T")       # checkpoint right after a clear: `_initial` is True on shaped storage
        lines += red_ops("b", rng.choice([0, 1, 1, 2, 5]), rng.random() < 0.3)
        if mode == "two":
            lines += red_ops("c", rng.choice([0, 1, 2]), False)
        def cont(mid, cnt):
            out = []
            for op in red_ops(mid, cnt, True):
                out += [op, f"dump {mid}"]
            return out
    lines += ["save a", "load b", "dump b"]
    if mode != "single":
        # a target whose load is rejected is outside the model afterwards (no second restore into it): decided by a dry run
        dry = RealMachines()
        if [dry.exec(l) for l in lines[:-1]][-1] != "ok":
            mode = "single"
    if mode == "single":
        lines += cont("b", rng.randint(2, 2 * n + 3))
    elif mode == "rewind":
        lines += cont("b", rng.randint(1, n + 1))
        lines += ["reload b", "dump b"]
        lines += cont("b", rng.randint(2, 2 * n + 3))
    else:
        lines += ["reload c", "dump c"]
        for _ in range(rng.randint(2, 2 * n + 3)):
            lines += cont(rng.choice(["b", "b", "c"]), 1)
        lines += ["dump b", "dump c"]
    return lines


def key_of_machine(case, d):
    kind = case[0].split()[2]
    line = case[d[0]].split()
    what = line[0] if line[0] in ("load", "reload", "dump", "save") else line[2]
    if line[0] == "dump" and d[0] > 0:
        prev = case[d[0] - 1].split()
        what = "after-" + (prev[0] if prev[0] in ("load", "reload", "save", "dump") else prev[2])
    return f"C12:{d[1]}:{kind}:{what}"


# =====================================================================================================
# (B) real resume runs

TARGET_PRIORS = ["inference-tail", "inference", "training"]


def adapt_schedule(rng, T):
    """per-step phases of a run: blocks of adapting (training) and non-adapting (inference / validation) steps with 1-3 switches;
    starts adapting 4 times out of 5, so that learned adaptations exist when inference begins"""
    cuts = sorted(rng.sample(range(1, T), min(rng.choice([1, 2, 3]), T - 1)))
    flag, out = rng.random() < 0.8, []
    for t in range(T):
        if t in cuts:
            flag = not flag
        out.append(bool(flag))
    return out


def prior_schedule(prior, nsteps):
    """phases of the steps a restore target ran BEFORE the load ("the target model in an arbitrary prior state"):
    training = all adapting; inference = none adapting (a model instance only ever used for validation);
    inference-tail = trained, then used for inference (at least the last step does not adapt)"""
    if prior in (None, "training"):
        return [True] * nsteps
    if prior == "inference":
        return [False] * nsteps
    return [i < (nsteps - 1) // 2 for i in range(nsteps)]


def scenario(rng, idx, T, force=None):
    """a network + trainer + classifier configuration whose uninterrupted run is non-trivial (spikes occur)"""
    force = force or {}
    for attempt in range(6):
        lk = force.get("layer") or rng.choice(nb.LAYERS)
        tk = force.get("trainer", "?")
        if tk == "?":
            tk = rng.choice([None, "STDP", "MSTDPET", "STDP", "MSTDPET"] + nb.TRAINERS)
        ip = force.get("inplace")
        netc = nb.layer_cfg(rng, lk, conn_kind=force.get("conn"), syn_kind=force.get("synapse"), neuron_kind=force.get("neuron"),
                            delayed=(True if (tk in nb.NEEDS_DELAY) else force.get("delayed")), inplace=ip, batch=force.get("batch"))
        sc = {"id": idx, "net": netc, "trainer": nb.trainer_cfg(rng, tk, ip) if tk else None, "T": T,
              "xseed": rng.randrange(2**31), "p": rng.choice([0.3, 0.5, 0.7]),
              "clf": ({"classes": rng.choice([2, 3]), "decay": rng.choice([0.0, 0.125]), "proportional": bool(rng.random() < 0.5)}
                      if (force.get("clf") if "clf" in force else rng.random() < 0.35) else None),
              "clear_at": (rng.randrange(1, T) if rng.random() < 0.25 else None),
              "other_steps": rng.choice([2, 3, 4, 5]),
              # the caller's spike train: rows of ONE bool tensor per driven connection (True) or separate float tensors
              "xbool": bool(force["xbool"] if "xbool" in force else rng.random() < 0.6)}
        # training / inference phases: which steps let the neurons adapt (None = every step adapts, as a pure training run).
        # `adapt_via`: the phase is given per call (`adapt=` keyword) or through the neurons' train() / eval() mode.
        modes = force["modes"] if "modes" in force else (rng.random() < 0.5)
        sc["adapt_sched"] = adapt_schedule(rng, T) if modes else None
        sc["adapt_via"] = rng.choice(["kwarg", "mode"]) if modes else "kwarg"
        sim = Sim(sc, 0)
        U = sim.run_all()
        if U["nspikes"] > 0 or attempt == 5:
            return sc, U
    raise AssertionError


class Sim:
    def __init__(self, sc, variant):
        """variant 0 = the source; other variants = independently constructed instances of the SAME configuration
        (different initial weights)"""
        self.sc = sc
        netc = copy.deepcopy(sc["net"])
        for c in netc["conns"]:
            c["wseed"] = (c["wseed"] + 7919 * variant) % (2**31)
        self.net = nb.Net(netc)
        self.trainer = nb.build_trainer(sc["trainer"], self.net) if sc["trainer"] else None
        self.clf = None
        if sc["clf"]:
            self.clf = learn.MaxRateClassifier(self.net.neurons[0].shape, sc["clf"]["classes"], decay=sc["clf"]["decay"])
        self.steps_taken = 0
        if sc.get("adapt_sched") and sc.get("adapt_via") == "mode":
            self.net.cfg["adapt"] = None      # `adapt=None`: the neurons follow their own train() / eval() mode

    def objs(self):
        return {"layer": self.net.layer, "trainer": self.trainer, "clf": self.clf}

    def inputs(self, seed, T):
        g = nb.gen(seed)
        if self.sc.get("xbool"):
            big = [torch.rand(T, self.net.batch, *sh, generator=g) < self.sc["p"] for sh in self.net.input_shapes()]
            X = [[bg[t] for bg in big] for t in range(T)]
        else:
            X = self.net.gen_inputs(g, T, self.sc["p"])
        R = [float(torch.randint(-2, 3, (1,), generator=g)) / 2 for _ in range(T)]
        L = [torch.randint(0, self.sc["clf"]["classes"] if self.sc["clf"] else 2, (self.net.batch,), generator=g) for _ in range(T)]
        return X, R, L

    def step(self, t, X, R, L, clear=False, stop_before_update=False, adapt=None):
        """`adapt`: the phase of this step (True = training, the neurons adapt; False = inference); None = the run's own
        schedule `sc["adapt_sched"][t]` (every step adapts when the scenario has no schedule)"""
        out = {}
        sched = self.sc.get("adapt_sched")
        if adapt is None and sched:
            adapt = sched[t]
        with torch.no_grad():
            if clear:
                if self.trainer is not None:
                    self.trainer.clear(keepshape=True)
                self.net.layer.clear()
            if adapt is None:
                spikes = self.net.step(X[t])
            elif sched and self.sc.get("adapt_via") == "mode":
                for n in self.net.neurons:
                    n.train(bool(adapt))
                spikes = self.net.step(X[t])
            else:
                spikes = self.net.step(X[t], adapt=bool(adapt))
            for i, s in enumerate(spikes):
                out[f"spikes{i}"] = s.detach().clone()
            if self.trainer is not None:
                nb.trainer_step(self.sc["trainer"], self.trainer, reward=R[t])
                if stop_before_update:
                    self.steps_taken += 1
                    return out
                self.net.layer.update()
            if self.clf is not None:
                pred, logits = self.clf(spikes[0].to(torch.float32), L[t], logits=True, proportional=self.sc["clf"]["proportional"])
                out["clf.pred"], out["clf.logits"] = pred.clone(), logits.clone()
        self.steps_taken += 1
        return out

    def finish_update(self, t, L):
        """second half of a step interrupted before `update()`"""
        out = {}
        with torch.no_grad():
            self.net.layer.update()
            if self.clf is not None:
                spikes = [n.spike for n in self.net.neurons]
                pred, logits = self.clf(spikes[0].to(torch.float32), L[t], logits=True, proportional=self.sc["clf"]["proportional"])
                out["clf.pred"], out["clf.logits"] = pred.clone(), logits.clone()
        return out

    def state_bytes(self):
        return ser({k: v.state_dict() for k, v in self.objs().items() if v is not None})

    def load(self, raw):
        self.load_obj(deser(raw))

    def load_obj(self, sd):
        """restore from an already deserialised checkpoint object (the caller may restore from it again)"""
        for k, v in self.objs().items():
            if v is not None:
                v.load_state_dict(sd[k], strict=True)

    def snap(self):
        return nb.snapshot(self.objs())

    def run_all(self):
        """the uninterrupted run: checkpoints before every step, outputs and snapshots after every step"""
        sc = self.sc
        X, R, L = self.inputs(sc["xseed"], sc["T"])
        U = {"ck": [], "out": [], "snap": [], "snap0": [], "nspikes": 0}
        U["X0"] = [[x.clone() for x in xs] for xs in X]      # what the caller's input tensors hold
        for t in range(sc["T"]):
            U["ck"].append(self.state_bytes())
            U["snap0"].append(self.snap())
            o = self.step(t, X, R, L, clear=(sc["clear_at"] == t))
            U["out"].append(o)
            U["snap"].append(self.snap())
            U["nspikes"] += sum(int(v.sum()) for k, v in o.items() if k.startswith("spikes"))
        U["XRL"] = (X, R, L)
        return U


def category(name: str) -> str:
    for pat, cat in (("exception", "exception"), ("pointer", "pointer"), ("_initial", "reducer-flag"), ("_count", "reducer-count"), ("reducer_", "reducer-data"),
                     ("clf.", "classifier"), ("adaptation", "adaptation"), ("voltage", "voltage"), ("refrac", "refrac"),
                     ("weight", "weight"), ("delay_", "delay"), ("bias", "bias"), ("feedback_spikes", "feedback"),
                     ("_pos", "pending"), ("_neg", "pending"), ("spike_", "spike-record"), ("current_", "current-record"),
                     ("spikes", "output")):
        if pat in name:
            return cat
    return "other"


def make_target(sc, kind, variant, prior=None):
    """fresh0: freshly constructed; a: fresh + one unrelated step; b: run on other data.  `prior`: the phases of those steps
    (see prior_schedule) when the scenario has training / inference phases"""
    tg = Sim(sc, variant)
    nsteps = {"fresh0": 0, "a": 1, "b": sc["other_steps"], "clone": 1}[kind]
    if nsteps:
        X, R, L = tg.inputs(sc["xseed"] + 1000 + variant, nsteps)
        ph = prior_schedule(prior, nsteps) if sc.get("adapt_sched") else [None] * nsteps
        for t in range(nsteps):
            tg.step(t, X, R, L, adapt=ph[t])
    if kind == "clone":
        # an instance of the same configuration obtained by copy.deepcopy of a LIVE template (which then moves on):
        # nothing the clone does on load / afterwards may act on, or read from, the template
        template = tg
        tg = copy.deepcopy(template)
        tg._template = template
        X, R, L = template.inputs(sc["xseed"] + 2000 + variant, 1)
        template.step(0, X, R, L)
    return tg


def lazy(sc):
    return sc["trainer"] is not None or sc["net"]["layer"] == "recurrent"


def inputs_touched(U, restore=True):
    """rows of the caller's input tensors that no longer hold what the caller put there (restored afterwards)"""
    X, X0 = U["XRL"][0], U["X0"]
    bad = []
    for t, (xs, x0s) in enumerate(zip(X, X0)):
        for i, (x, x0) in enumerate(zip(xs, x0s)):
            if not torch.equal(x, x0):
                bad.append([t, i])
                if restore:
                    with torch.no_grad():
                        x.copy_(x0)
    return bad


def resume_case(sc, U, k, tkind, variant, prior=None):
    """returns (status, detail): status in ok | rejected | diverged | wrong-error"""
    phase = {"at": "building the target"}
    try:
        status, detail = resume_case_(sc, U, k, tkind, variant, phase, prior)
    except Exception as e:
        if phase["at"] == "building the target":
            inputs_touched(U)
            raise
        # the real code raised after an accepted load, where the uninterrupted run has a value
        status, detail = "diverged", {"step": k, "when": phase["at"], "entry": "exception",
                                      "what": f"{type(e).__name__}: {str(e)[:300]}"}
    touched = inputs_touched(U)
    if touched and isinstance(detail, dict):
        detail["caller_inputs_overwritten"] = touched[:6]
    return status, detail


def follow(sc, U, tg, k, who=""):
    """the restored instance `tg` is given the inputs of steps k.. (the very tensor objects of the uninterrupted run)"""
    X, R, L = U["XRL"]
    for t in range(k, sc["T"]):
        d = follow_one(sc, U, tg, t, who)
        if d:
            return d
    return None


def follow_one(sc, U, tg, t, who=""):
    X, R, L = U["XRL"]
    o = tg.step(t, X, R, L, clear=(sc["clear_at"] == t))
    d = nb.first_diff(U["out"][t], o)
    if d:
        return {"step": t, "when": who + "output", "entry": d[0], "what": d[1]}
    d = nb.first_diff(U["snap"][t], tg.snap())
    if d:
        return {"step": t, "when": who + "state after step", "entry": d[0], "what": d[1]}
    return None


def try_load(tg, sd):
    try:
        tg.load_obj(sd)
    except RuntimeError as e:
        if "Error(s) in loading state_dict" in str(e):
            return "rejected", parse_load_error(str(e))
        return "wrong-error", f"{type(e).__name__}: {str(e)[:300]}"
    except Exception as e:
        return "wrong-error", f"{type(e).__name__}: {str(e)[:300]}"
    return None


def resume_case_(sc, U, k, tkind, variant, phase, prior=None):
    """target kinds
      fresh0 / a / b   see make_target (one torch.load per restore)
      same             the target has already been run over the VERY tensor objects of the run (all T steps), is restored to
                       step k and is given steps k.. again (rewind-and-replay of a caller who keeps the spike train in one tensor)
      shared2          ONE deserialised checkpoint object restored into two instances (prior states a and b), which then run
                       alternately: each must follow the uninterrupted run
      rewind           ONE deserialised checkpoint object restored into an instance, which runs 1-2 steps and is then restored
                       from the same object again"""
    X, R, L = U["XRL"]
    sd = deser(U["ck"][k])
    if tkind == "same":
        tg = Sim(sc, variant)
        for t in range(sc["T"]):
            tg.step(t, X, R, L)
        targets = [("", tg)]
    elif tkind == "shared2":
        targets = [("first instance: ", make_target(sc, "a", variant, prior)),
                   ("second instance: ", make_target(sc, "b", variant + 1, prior))]
    elif tkind == "rewind":
        targets = [("", make_target(sc, "a" if variant % 2 else "b", variant, prior))]
    else:
        targets = [("", make_target(sc, tkind, variant, prior))]
    phase["at"] = "loading"
    for who, tg in targets:
        bad = try_load(tg, sd)
        if bad:
            return bad
    phase["at"] = "continuing after the load"
    for who, tg in targets:
        d = nb.first_diff(U["snap0"][k], tg.snap())
        if d:
            return "diverged", {"step": k, "when": who + "immediately after load", "entry": d[0], "what": d[1]}
    if tkind == "rewind":
        tg = targets[0][1]
        for t in range(k, min(k + 1 + (variant // 2) % 2, sc["T"])):
            d = follow_one(sc, U, tg, t, "before the second restore: ")
            if d:
                return "diverged", d
        bad = try_load(tg, sd)
        if bad:
            return bad[0], "second restore from the same deserialised checkpoint: " + bad[1]
        d = nb.first_diff(U["snap0"][k], tg.snap())
        if d:
            return "diverged", {"step": k, "when": "immediately after the second restore from the same deserialised checkpoint",
                                "entry": d[0], "what": d[1]}
    if len(targets) == 1:
        d = follow(sc, U, targets[0][1], k)
        return ("diverged", d) if d else ("ok", None)
    for t in range(k, sc["T"]):
        for who, tg in targets:
            d = follow_one(sc, U, tg, t, who)
            if d:
                return "diverged", d
    return "ok", None


def add_finding(ex, key, what, case, cap=3):
    if len([f for f in ex.findings if f.key == key]) < cap:
        ex.findings.append(Finding("spec", key, what, case))


def summarize(sc):
    n = sc["net"]
    return {"layer": n["layer"], "conns": [c["kind"] + ("+delay" if c["delay"] else "") for c in n["conns"]],
            "synapses": [c["synapse"]["kind"] for c in n["conns"]], "neurons": [x["kind"] for x in n["neurons"]],
            "trainer": sc["trainer"]["kind"] if sc["trainer"] else None, "clf": bool(sc["clf"]), "batch": n["batch"]}


def judge(ex, sc, k, tkind, status, detail, stream="main", prior=None):
    inprov = (not lazy(sc)) or ((k == 0) == (tkind == "fresh0"))     # "clone" has seen one step, like "a"
    case = {"stream": stream, "scenario": sc, "summary": summarize(sc), "checkpoint_step": k, "target": tkind,
            "target_prior": prior, "in_proviso": inprov, "status": status, "detail": detail}
    ex.count("resume-outcome", f"{'in' if inprov else 'out-of'}-proviso:{status}")
    if status == "diverged":
        cat = category(detail["entry"])
        key = f"C12:diverges:{cat}"
        if cat == "classifier" and k == 0:
            key = KEY_CLF
        add_finding(ex, key, f"checkpoint at step {k} restored into target '{tkind}'"
                    + (f" (prior steps of the target: {prior or ('none' if tkind == 'fresh0' else 'the whole run')}; phases of the run, "
                       f"True = adapting: {sc['adapt_sched']} via {sc['adapt_via']})" if sc.get("adapt_sched") else "") + " diverges from the uninterrupted run at step "
                    f"{detail['step']} ({detail['when']}): {detail['entry']}: {detail['what']} [{json.dumps(summarize(sc))}]", case)
    elif status == "wrong-error":
        add_finding(ex, "C12:load-wrong-error", f"load at step {k} into '{tkind}' raised {detail}", case)
    elif status == "rejected" and inprov:
        add_finding(ex, "C12:load-rejected-in-proviso", f"strict load at step {k} into '{tkind}' was rejected inside the proviso: {detail}", case)
    elif status == "rejected":
        if sc["net"]["layer"] == "recurrent" and sc["trainer"] is None:
            ok = "feedback_spikes" in detail
            ex.count("excluded", "recurrent-none-buffer:" + ("documented-error" if ok else "other-error"))
            if not ok:
                add_finding(ex, "C12:recurrent-none-buffer:error-text", f"load rejected without naming feedback_spikes: {detail}", case)
        else:
            ex.count("excluded", "lazy-shape-or-key:documented-error")


def forced_coverage(thorough):
    """every neuron class, synapse class, connection class ± delay, layer kind, STDP and MSTDPET, classifier, in-place on/off"""
    fs = []
    for i, nk in enumerate(nb.NEURON_KINDS):
        fs.append({"neuron": nk, "layer": nb.LAYERS[i % 3], "trainer": ["STDP", "MSTDPET", None][i % 3], "inplace": bool(i % 2),
                   "modes": nk in nb.ADAPTIVE})
    for i, sk in enumerate(nb.SYNAPSES):
        fs.append({"synapse": sk, "delayed": True, "layer": "serial", "conn": nb.CONNECTIONS[i], "trainer": ["MSTDPET", "STDP"][i % 2],
                   "inplace": bool((i + 1) % 2)})
    for i, ck in enumerate(nb.CONNECTIONS):
        fs.append({"conn": ck, "delayed": False, "layer": "serial", "trainer": "STDP", "clf": True, "inplace": bool(i % 2), "xbool": True})
        fs.append({"conn": ck, "delayed": True, "layer": "biclique" if ck != "conv" else "serial", "trainer": None,
                   "inplace": bool((i + 1) % 2), "xbool": bool(i % 2)})
    fs.append({"layer": "recurrent", "trainer": None})
    fs.append({"layer": "recurrent", "trainer": "STDP", "clf": True})
    fs.append({"layer": "biclique", "trainer": "MSTDPET", "clf": True})
    if thorough:
        for tk in nb.TRAINERS:
            fs.append({"trainer": tk, "layer": "serial"})
            fs.append({"trainer": tk})
    return fs


def resume_search(ctx, ex, thorough):
    rng = ctx.rng
    T = 20 if thorough else 8
    forced = forced_coverage(thorough)
    nrand = 30 if thorough else 6
    plan = forced + [None] * nrand
    t_start = time.time()
    budget = 600 if thorough else 55
    done = 0
    for idx, force in enumerate(plan):
        if time.time() - t_start > budget and idx >= len(forced):
            break
        sc, U = scenario(rng, idx, T, force)
        s = summarize(sc)
        ex.count("layer", s["layer"])
        ex.count("trainer", str(s["trainer"]))
        ex.count("classifier", str(s["clf"]))
        for x in s["conns"]:
            ex.count("connection", x)
        for x in s["synapses"]:
            ex.count("synapse", x)
        for x in s["neurons"]:
            ex.count("neuron", x)
        ex.count("inplace", str(sc["net"]["conns"][0]["synapse"]["inplace"]))
        ex.count("spiking", "yes" if U["nspikes"] else "no")
        ex.count("phases", "training-only" if not sc["adapt_sched"] else f"training+inference via {sc['adapt_via']}")
        if sc["adapt_sched"] and any(x["kind"] in nb.ADAPTIVE for x in sc["net"]["neurons"]):
            ex.count("phases", "training+inference with adaptive neurons")
        if len(ex.samples) < 3:
            ex.samples.append(s)
        variant = 0
        for k in range(sc["T"]):
            kinds = ["a", "b"] + (["fresh0"] if (k == 0 or k == 1 or (thorough and k % 5 == 0)) else [])
            # restores that share something with the outside: the caller's own input tensors / one deserialised object
            # (quick tier: one of the three per checkpoint step, rotating; thorough: all)
            extra = ["same", "shared2", "rewind"]
            kinds += extra if thorough else [extra[(idx + k) % 3]]
            # (layers and trainers cannot be copy.deepcopy'ed at all on the unchanged tree - WeakMethod hook wrappers and
            # record finalizers raise TypeError - so clone targets exist for the classifier stream only)
            for j, tkind in enumerate(kinds):
                variant += 1
                # what the target did before the load: rotates over inference-tail / inference / training (phased scenarios only)
                # (fresh0 has no prior steps; `same` has run the whole phased run itself)
                prior = TARGET_PRIORS[(k + j) % 3] if (sc["adapt_sched"] and tkind not in ("fresh0", "same")) else None
                if prior:
                    ex.count("target-prior", prior)
                status, detail = resume_case(sc, U, k, tkind, variant, prior)
                ex.evaluations += 1
                ex.traces_validated += 1
                judge(ex, sc, k, tkind, status, detail, prior=prior)
                if status == "ok" and U["nspikes"]:
                    ex.nontriv(("resume", idx, k, tkind, json.dumps(s)))
        done += 1
    ex.extra["resume_scenarios"] = done
    ex.extra["run_length_T"] = T


# =====================================================================================================
# (C) the excluded cases: pending accumulator parts

def pending_counts(sim):
    return [(len(m._pos), len(m._neg)) for _, m in sim.net.layer.named_modules() if isinstance(m, snn.Accumulator)]


def pending_stream(ctx, ex, thorough):
    """checkpoints taken BETWEEN trainer() and update(): the pending parts are structural (ParameterList keys)"""
    rng = ctx.rng
    T = 6
    n = 10 if thorough else 4
    for idx in range(n):
        tk = ["STDP", "MSTDPET"][idx % 2] if idx < 4 else rng.choice(["STDP", "MSTDPET", "TripletSTDP", "MSTDP", "KernelSTDP"])
        sc, U0 = scenario(rng, 1000 + idx, T, {"trainer": tk, "layer": rng.choice(["serial", "serial", "biclique"]), "clf": False,
                                               "modes": False})
        sc["clear_at"] = None
        for k in range(1, T):
            # the source: k full steps, then step k up to (not including) update()
            src = Sim(sc, 0)
            X, R, L = src.inputs(sc["xseed"], T)
            for t in range(k):
                src.step(t, X, R, L)
            src.step(k, X, R, L, stop_before_update=True)
            raw = src.state_bytes()
            pc_src = pending_counts(src)
            # uninterrupted continuation
            ref_out, ref_snap = [], []
            src.finish_update(k, L)
            ref_snap.append(src.snap())
            for t in range(k + 1, T):
                ref_out.append(src.step(t, X, R, L))
                ref_snap.append(src.snap())
            for tkind in ("full-step", "mid-step", "mid-step-read"):
                tg = Sim(sc, 1 + k)
                Xo, Ro, Lo = tg.inputs(sc["xseed"] + 77, 3)
                tg.step(0, Xo, Ro, Lo)
                if tkind != "full-step":
                    tg.step(1, Xo, Ro, Lo, stop_before_update=True)
                if tkind == "mid-step-read":
                    with torch.no_grad():
                        tg.net.layer.update(clear=False)      # applies and CACHES the target's own reduced parts
                pc_tg = pending_counts(tg)
                ex.evaluations += 1
                case = {"stream": "pending", "scenario": sc, "summary": summarize(sc), "checkpoint_step": k, "target": tkind,
                        "pending_source": pc_src, "pending_target": pc_tg}
                try:
                    tg.load(raw)
                    status = "loaded"
                except RuntimeError as e:
                    status = "rejected" if "Error(s) in loading state_dict" in str(e) else "wrong-error"
                    msg = str(e)
                want_ok = pc_src == pc_tg          # the model's rule: the key set is the number of pending parts
                ex.count("pending-outcome", f"{tkind}:{status}:counts-{'equal' if want_ok else 'differ'}")
                if status == "wrong-error":
                    add_finding(ex, "C12:load-wrong-error", f"pending stream: {msg[:300]}", case)
                    continue
                if status == "rejected":
                    if want_ok:
                        add_finding(ex, "C12:pending:rejected-with-equal-counts", parse_load_error(msg), case)
                    elif not any(("_pos" in x or "_neg" in x) for x in parse_load_error(msg).split(",")):
                        add_finding(ex, "C12:pending:error-text", parse_load_error(msg), case)
                    continue
                if not want_ok:
                    ex.findings.append(Finding("model", "C12:pending:accepted-with-different-counts",
                                               f"load accepted although pending counts differ {pc_src} vs {pc_tg}", case))
                # loaded: the continuation must be the uninterrupted one
                div = None
                tg.finish_update(k, L)
                d = nb.first_diff(ref_snap[0], tg.snap())
                if d:
                    div = {"step": k, "when": "state after update()", "entry": d[0], "what": d[1]}
                for i, t in enumerate(range(k + 1, T)):
                    if div:
                        break
                    o = tg.step(t, X, R, L)
                    d = nb.first_diff(ref_out[i], o) or nb.first_diff(ref_snap[i + 1], tg.snap())
                    if d:
                        div = {"step": t, "when": "continuation", "entry": d[0], "what": d[1]}
                if div:
                    key = KEY_ACC if tkind == "mid-step-read" else f"C12:pending:diverges:{category(div['entry'])}"
                    add_finding(ex, key, f"checkpoint between trainer() and update() at step {k} loaded into a '{tkind}' target "
                                f"(pending parts {pc_tg}) and silently diverged at step {div['step']} ({div['when']}): {div['entry']}: "
                                f"{div['what']} [{json.dumps(summarize(sc))}]", dict(case, detail=div))
                else:
                    ex.nontriv(("pending", idx, k, tkind))
                ex.traces_validated += 1


# =====================================================================================================
# (D) the classifier alone (derived buffers recomputed on load)

def classifier_stream(ctx, ex, thorough):
    rng = ctx.rng
    T = 8
    for idx in range(12 if thorough else 4):
        shape = rng.choice([(4,), (2, 3), (5,)])
        K = rng.choice([2, 3, 4])
        B = rng.choice([1, 2, 4])
        decay = rng.choice([0.0, 0.125, 0.5])
        prop = idx % 2 == 0
        g = nb.gen(rng.randrange(2**31))
        X = [torch.randint(0, 4, (B, *shape), generator=g).to(torch.float32) for _ in range(T)]
        L = [torch.randint(0, K, (B,), generator=g) for _ in range(T)]
        def mk():
            return learn.MaxRateClassifier(shape, K, decay=decay)
        def run(c, x, l):
            pred, lg = c(x, l, logits=True, proportional=prop)
            return {"pred": pred.clone(), "logits": lg.clone()}
        src = mk()
        cks, outs, snaps = [], [], []
        for t in range(T):
            cks.append(ser(src.state_dict()))
            outs.append(run(src, X[t], L[t]))
            snaps.append(nb.snapshot({"clf": src}))
        for k in range(T):
            for tkind, m in (("fresh0", 0), ("a", 1), ("b", 3), ("clone0", 0), ("cloneb", 2)):
                if tkind.startswith("clone"):
                    # an instance of the same configuration obtained by copy.deepcopy of a template that
                    # lives on (and has itself been run): load hooks / closures must act on the CLONE
                    template = mk()
                    gt = nb.gen(4321 + k)
                    run(template, torch.randint(0, 4, (B, *shape), generator=gt).to(torch.float32), torch.randint(0, K, (B,), generator=gt))
                    tg = copy.deepcopy(template)
                else:
                    tg = mk()
                go = nb.gen(1234 + k)
                for _ in range(m):
                    run(tg, torch.randint(0, 4, (B, *shape), generator=go).to(torch.float32), torch.randint(0, K, (B,), generator=go))
                ex.evaluations += 1
                case = {"stream": "classifier", "shape": list(shape), "classes": K, "batch": B, "decay": decay, "proportional": prop,
                        "checkpoint_step": k, "target": tkind, "inputs": [x.tolist() for x in X], "labels": [l.tolist() for l in L]}
                try:
                    tg.load_state_dict(deser(cks[k]), strict=True)
                except Exception as e:
                    add_finding(ex, "C12:load-rejected-in-proviso", f"classifier load raised {type(e).__name__}: {str(e)[:200]}", case)
                    continue
                div = None
                for t in range(k, T):
                    o = run(tg, X[t], L[t])
                    d = nb.first_diff(outs[t], o) or nb.first_diff(snaps[t], nb.snapshot({"clf": tg}))
                    if d:
                        div = {"step": t, "entry": "clf." + d[0], "what": d[1]}
                        break
                ex.count("classifier-outcome", f"k{'=0' if k == 0 else '>0'}:{'diverged' if div else 'ok'}")
                if div:
                    key = KEY_CLF if k == 0 else "C12:diverges:classifier"
                    add_finding(ex, key, f"MaxRateClassifier{shape}x{K} (proportional={prop}) checkpointed at step {k}, restored into '{tkind}': "
                                f"step {div['step']}: {div['entry']}: {div['what']}", dict(case, detail=div), cap=1)
                else:
                    ex.nontriv(("clf", idx, k, tkind))
                ex.traces_validated += 1


# =====================================================================================================
# (E) monitors / reducers recording a signal of MIXED PRECISION (storage dtype x observation dtype per step)

DTYPES = {"f16": torch.float16, "bf16": torch.bfloat16, "f32": torch.float32, "f64": torch.float64}
MON_REDUCERS = ["pass", "ema", "ca"]
MON_KINDS = ["output", "input", "state"]


class _Sensor(inferno.Module):
    """the monitored module: keeps the precision of the reading it is given"""

    def __init__(self):
        inferno.Module.__init__(self)
        self.level = None

    def forward(self, reading):
        self.level = reading * 0.5 - 0.25
        return reading * 0.1 + 0.3


class _Rig(inferno.Module):
    def __init__(self, mons):
        inferno.Module.__init__(self)
        self.sensor = _Sensor()
        self.names = []
        for i, mc in enumerate(mons):
            dur = float(mc["duration"])
            if mc["reducer"] == "pass":
                red = obs.PassthroughReducer(1.0, duration=dur, inplace=mc["inplace"])
            elif mc["reducer"] == "ema":
                red = obs.EMAReducer(1.0, mc["alpha"], duration=dur, inplace=mc["inplace"])
            else:
                red = obs.CAReducer(1.0, duration=dur, inplace=mc["inplace"])
            if mc["monitor"] == "output":
                mon = obs.OutputMonitor(red, self.sensor)
            elif mc["monitor"] == "input":
                mon = obs.InputMonitor(red, self.sensor)
            else:
                mon = obs.StateMonitor(red, "level", self.sensor)
            setattr(self, f"m{i}", mon)
            self.names.append(f"m{i}")

    def forward(self, reading):
        self.sensor(reading)
        out = {}
        for n, mc in zip(self.names, self.mons_cfg):
            mon = getattr(self, n)
            for what, v in (("dump", mon.dump()), ("peek", mon.peek())):
                out[f"{n}.{what}"] = None if v is None else v.detach().clone()
            for lag in range(1, int(mc["duration"])):
                v = mon.view(float(lag))
                out[f"{n}.view({lag})"] = None if v is None else v.detach().clone()
        return out


class default_dtype:
    """the configuration's storage precision: instances are constructed and run under this default dtype"""

    def __init__(self, dt):
        self.dt = dt

    def __enter__(self):
        self.prev = torch.get_default_dtype()
        torch.set_default_dtype(self.dt)

    def __exit__(self, *a):
        torch.set_default_dtype(self.prev)


def mon_build(cfg):
    rig = _Rig(cfg["monitors"])
    rig.mons_cfg = cfg["monitors"]
    return rig


def mon_signal(cfg, seed, sched):
    """one reading per step, of the precision the schedule names, with values that no narrower precision holds exactly"""
    g = nb.gen(seed)
    base = torch.rand(len(sched), *cfg["shape"], generator=g, dtype=torch.float64) * 3 - 1
    return [base[t].to(DTYPES[d]) for t, d in enumerate(sched)]


def mon_snap(rig):
    return nb.snapshot({"rig": rig})


def mon_diff(a, b):
    """values first (compared in double precision), then everything else (dtype, shape, extras)"""
    for k in sorted(set(a) & set(b)):
        x, y = a[k], b[k]
        if isinstance(x, torch.Tensor) and isinstance(y, torch.Tensor) and x.shape == y.shape and x.is_floating_point() \
                and y.is_floating_point() and x.numel():
            xd, yd = x.double(), y.double()
            if not (torch.equal(torch.isnan(xd), torch.isnan(yd)) and torch.equal(torch.nan_to_num(xd), torch.nan_to_num(yd))):
                idx = ((xd != yd) & ~(torch.isnan(xd) & torch.isnan(yd))).nonzero()[0].tolist()
                return (k, f"values differ at {idx}: {xd[tuple(idx)].item()!r} ({x.dtype}) vs {yd[tuple(idx)].item()!r} ({y.dtype})")
    return nb.first_diff(a, b)


def mon_config(rng, idx, force=None):
    force = force or {}
    storage = force.get("storage") or rng.choice(["f32", "f32", "f64", "bf16", "f16"])
    T = 8
    pool = force.get("pool") or rng.sample(list(DTYPES), rng.choice([1, 2, 3]))
    pattern = force.get("pattern") or rng.choice(["switch", "switch", "random", "constant"])
    if pattern == "constant":
        sched = [rng.choice(pool)] * T
    elif pattern == "switch":
        # the pipeline delivers the storage precision first and another precision from some step on (possibly back again later)
        s1 = rng.randrange(1, T - 1)
        s2 = rng.choice([T, T, rng.randrange(s1 + 1, T + 1)])
        other = rng.choice(pool)
        sched = [storage if (t < s1 or t >= s2) else other for t in range(T)]
    else:
        sched = [rng.choice(pool + [storage]) for _ in range(T)]
    mons = []
    for i in range(rng.choice([3, 4] if "reducer" in force else [2, 3, 4])):
        mons.append({"reducer": rng.choice(MON_REDUCERS), "monitor": rng.choice(MON_KINDS),
                     "duration": rng.choice([0, 2, 3, 4]), "alpha": rng.choice([0.3, 0.5, 0.125]),
                     "inplace": bool(force["inplace"] if "inplace" in force else rng.random() < 0.4)})
    if "reducer" in force:      # forced coverage: all three folds in the forced write mode
        for mc, rk in zip(mons, MON_REDUCERS):
            mc["reducer"] = rk
    return {"id": idx, "storage": storage, "sched": sched, "shape": list(rng.choice([(2, 3), (3,), (1, 4), ()])), "monitors": mons,
            "xseed": rng.randrange(2**31), "T": T, "other_steps": rng.choice([2, 3, 5]),
            "clear_at": (rng.randrange(1, T) if rng.random() < 0.2 else None)}


def mon_step(rig, cfg, t, x, clear=False):
    with torch.no_grad():
        if clear:
            for n in rig.names:
                getattr(rig, n).clear(keepshape=True)
        return rig(x)


def mon_run(cfg):
    """the uninterrupted run: checkpoint before every step, outputs and state after every step"""
    with default_dtype(DTYPES[cfg["storage"]]):
        rig = mon_build(cfg)
        X = mon_signal(cfg, cfg["xseed"], cfg["sched"])
        U = {"X": X, "ck": [], "out": [], "snap": [], "snap0": []}
        for t in range(cfg["T"]):
            U["ck"].append(ser(rig.state_dict()))
            U["snap0"].append(mon_snap(rig))
            U["out"].append(mon_step(rig, cfg, t, X[t], clear=(cfg["clear_at"] == t)))
            U["snap"].append(mon_snap(rig))
    return U


def mon_resume(cfg, U, k, tkind, prior_dt):
    """restore checkpoint k into another instance of the same configuration (fresh0: freshly constructed; a: has seen one step of
    other data; b: run on other data for several steps - prior data of precision `prior_dt`); returns (status, detail)"""
    with default_dtype(DTYPES[cfg["storage"]]):
        tg = mon_build(cfg)
        nsteps = {"fresh0": 0, "a": 1, "b": cfg["other_steps"]}[tkind]
        Xo = mon_signal(cfg, cfg["xseed"] + 1000 + k, [prior_dt] * nsteps)
        for t in range(nsteps):
            mon_step(tg, cfg, t, Xo[t])
        try:
            tg.load_state_dict(deser(U["ck"][k]), strict=True)
        except RuntimeError as e:
            if "Error(s) in loading state_dict" in str(e):
                return "rejected", parse_load_error(str(e))
            return "wrong-error", f"{type(e).__name__}: {str(e)[:300]}"
        except Exception as e:
            return "wrong-error", f"{type(e).__name__}: {str(e)[:300]}"
        try:
            d = mon_diff(U["snap0"][k], mon_snap(tg))
            if d:
                return "diverged", {"step": k, "when": "immediately after load", "entry": d[0], "what": d[1]}
            for t in range(k, cfg["T"]):
                o = mon_step(tg, cfg, t, U["X"][t], clear=(cfg["clear_at"] == t))
                d = mon_diff(U["out"][t], o)
                if d:
                    return "diverged", {"step": t, "when": "output", "entry": d[0], "what": d[1]}
                d = mon_diff(U["snap"][t], mon_snap(tg))
                if d:
                    return "diverged", {"step": t, "when": "state after step", "entry": d[0], "what": d[1]}
        except Exception as e:
            return "diverged", {"step": k, "when": "continuing after the load", "entry": "exception",
                                "what": f"{type(e).__name__}: {str(e)[:300]}"}
    return "ok", None


def monitor_stream(ctx, ex, thorough):
    """Monitors (output / input / state) with fold reducers (passthrough, EMA, cumulative average; in-place and out-of-place; several
    durations) over a sensor whose readings change PRECISION during the run (float16 / bfloat16 / float32 / float64 per step, against
    a record whose storage precision is the configuration's default dtype).  For every checkpoint step k the state dict goes
    through torch.save / torch.load / load_state_dict(strict=True) into an instance of the same configuration that is freshly
    constructed (k = 0) or has seen one / several steps of other data (of the storage precision, or of one of the run's
    precisions); outputs (dump, peek, view at every stored lag) and state are compared with the uninterrupted run - values in
    double precision first, then dtype / shape / extras."""
    rng = ctx.rng
    forced = [{"storage": "f32", "pool": ["f64"], "pattern": "switch", "inplace": False, "reducer": "all"},
              {"storage": "f32", "pool": ["f64"], "pattern": "switch", "inplace": True, "reducer": "all"},
              {"storage": "f64", "pool": ["f32", "f16"], "pattern": "random", "inplace": False, "reducer": "all"},
              {"storage": "bf16", "pool": ["f32", "f64"], "pattern": "switch", "inplace": False, "reducer": "all"},
              {"storage": "f16", "pool": ["bf16", "f32"], "pattern": "random"}]
    plan = forced + [None] * (30 if thorough else 7)
    late = []
    for idx, force in enumerate(plan):
        cfg = mon_config(rng, 2000 + idx, force)
        try:
            U = mon_run(cfg)
        except Exception as e:
            # the real code raised on a configuration inside the quantifier (the recorded signal merely changes precision)
            add_finding(ex, "C12:monitor:run-raises", f"uninterrupted monitor run raised {type(e).__name__}: {str(e)[:300]} "
                        f"[storage {cfg['storage']}, readings {cfg['sched']}]", {"stream": "monitors", "config": cfg, "checkpoint_step": None,
                                                                                  "target": None, "prior_dtype": None})
            continue
        ex.count("monitor-storage", cfg["storage"])
        for d in set(cfg["sched"]):
            ex.count("monitor-reading-precision", ("wider" if DTYPES[d].itemsize > DTYPES[cfg["storage"]].itemsize else
                                                    "same" if d == cfg["storage"] else "narrower-or-incomparable"))
        for mc in cfg["monitors"]:
            ex.count("monitor-reducer", f"{mc['reducer']}:{'inplace' if mc['inplace'] else 'out-of-place'}")
        for k in range(cfg["T"]):
            kinds = ["fresh0"] if k == 0 else ["a", "b"]
            for j, tkind in enumerate(kinds):
                prior_dt = cfg["storage"] if (k + j) % 2 == 0 else cfg["sched"][(k + j) % cfg["T"]]
                status, detail = mon_resume(cfg, U, k, tkind, prior_dt)
                ex.evaluations += 1
                ex.traces_validated += 1
                ex.count("monitor-outcome", status)
                case = {"stream": "monitors", "config": cfg, "checkpoint_step": k, "target": tkind, "prior_dtype": prior_dt,
                        "status": status, "detail": detail}
                where = (f"monitors over a sensor (storage {cfg['storage']}, readings {cfg['sched']}, "
                         f"{[(m['monitor'], m['reducer'], m['duration'], 'inplace' if m['inplace'] else 'out-of-place') for m in cfg['monitors']]}): "
                         f"checkpoint at step {k} restored into target '{tkind}' (prior readings {prior_dt})")
                if status == "diverged":
                    cat = category(detail["entry"]) if category(detail["entry"]) != "other" else "record"
                    # a stored / returned tensor of another precision than in the uninterrupted run (values still equal) is kept apart
                    # from - and reported after - divergent values
                    prec = detail["what"].startswith("shape/dtype")
                    (late if prec else ex.findings).extend(
                        [] if len([f for f in (late if prec else ex.findings) if f.key == f"C12:diverges:monitor:{cat}{':precision' if prec else ''}"]) >= 3
                        else [Finding("spec", f"C12:diverges:monitor:{cat}{':precision' if prec else ''}",
                                      f"{where} diverges from the uninterrupted run at step {detail['step']} ({detail['when']}): "
                                      f"{detail['entry']}: {detail['what']}", case)])
                elif status == "wrong-error":
                    add_finding(ex, "C12:load-wrong-error", f"{where}: load raised {detail}", case)
                elif status == "rejected":
                    add_finding(ex, "C12:load-rejected-in-proviso", f"{where}: strict load rejected inside the proviso: {detail}", case)
                else:
                    ex.nontriv(("monitors", idx, k, tkind))
    ex.findings.extend(late)


# =====================================================================================================

def introspection_tops(rng):
    tops = []
    for i, nk in enumerate(nb.NEURON_KINDS):
        cfg = nb.layer_cfg(rng, nb.LAYERS[i % 3], neuron_kind=nk, syn_kind=nb.SYNAPSES[i % 4], conn_kind=nb.CONNECTIONS[i % 4],
                           delayed=bool(i % 2))
        for stepped in (False, True):
            net = nb.Net(cfg)
            tc = nb.trainer_cfg(rng, nb.TRAINERS[i % len(nb.TRAINERS)] if nb.trainer_applicable(nb.TRAINERS[i % len(nb.TRAINERS)], cfg) else "STDP")
            tr = nb.build_trainer(tc, net)
            if stepped:
                X = net.gen_inputs(nb.gen(i), 2)
                with torch.no_grad():
                    for x in X:
                        net.step(x)
                        nb.trainer_step(tc, tr, reward=0.5)
                        if x is X[0]:
                            net.layer.update()      # after the loop one step's parts are still pending
            tops.append((f"{cfg['layer']}/{nk}/{'stepped' if stepped else 'fresh'}", net.layer, stepped))
            tops.append((f"{tc['kind']}/{'stepped' if stepped else 'fresh'}", tr, stepped))
    for tk in nb.TRAINERS:
        cfg = nb.layer_cfg(rng, "serial", delayed=True)
        net = nb.Net(cfg)
        tops.append((tk, nb.build_trainer(nb.trainer_cfg(rng, tk), net), False))
    tops.append(("MaxRateClassifier", learn.MaxRateClassifier((3,), 2), False))
    for cls in (obs.CAReducer, obs.PassthroughReducer, obs.EMAReducer):
        for stepped in (False, True):
            r = cls(1.0, 0.5, duration=2.0) if cls is obs.EMAReducer else cls(1.0, duration=2.0)
            if stepped:
                r(torch.ones(2))
            tops.append((cls.__name__, r, stepped))
    return tops


def explore(ctx) -> Exploration:
    torch.set_default_dtype(torch.float64)
    ex = Exploration()
    rng = ctx.rng
    thorough = ctx.tier == "thorough" or ctx.intensify
    # (A1)
    introspect(ctx, ex, introspection_tops(rng))
    # (A2)
    cases = [machine_case(rng, kind) for kind in ("ring", "reducer") for _ in range(1500 if thorough else 250)]
    for c in cases:
        ex.count("machine", c[0].split()[2])
        ex.count("machine-restore-mode", "two-targets-one-object" if any(l.startswith("reload c") for l in c)
                 else ("rewind-same-object" if any(l.startswith("reload b") for l in c) else "single"))
    seqcheck.run_cases(ctx, DRIVER, cases, RealMachines, ex, key_of_machine, "C12",
                       nontrivial=lambda case, real: any(r[0] == "ok" for l, r in zip(case, real) if l.startswith(("load", "reload"))))
    nrej = sum(1 for c in cases for l in c if l.startswith("load"))
    ex.extra["machine_cases"] = len(cases)
    # (B) (C) (D)
    resume_search(ctx, ex, thorough)
    pending_stream(ctx, ex, thorough)
    classifier_stream(ctx, ex, thorough)
    monitor_stream(ctx, ex, thorough)
    ex.rule = ("(A1) key sets of every module of layers (all 8 neuron classes, 4 synapse classes, 4 connection classes, 3 layer kinds), all 12 "
               "trainers, classifier and reducers, fresh and stepped, against the model's save; (A2) seeded record / fold-reducer machine pairs "
               "(source ops, target ops, save→load, common continuation; 10-30% configuration or laziness mismatches) executed in Lean and on the "
               "real classes; (B) for forced-coverage + random network configurations and EVERY checkpoint step k of a run of length T: torch.save → "
               "torch.load → load_state_dict(strict=True) into targets fresh0 / a (one unrelated step) / b (run on other data) / same (already run on "
               "the very input tensor objects that are replayed; spike trains as rows of one bool tensor in ~60% of the scenarios) / shared2 (two "
               "instances restored from one deserialised object, run alternately) / rewind (restored, run on, restored again from the same "
               "object), continuation compared with torch.equal on all outputs and state; ~half of the scenarios (always those forced for the adaptive "
               "neuron classes) run in training / inference phases (per-step adapting / non-adapting schedule with 1-3 switches, by `adapt=` keyword or "
               "train()/eval() mode of the neurons) and their a / b / shared2 / rewind targets rotate over prior histories inference-only / "
               "training-then-inference / training-only; the machine cases of (A2) likewise restore once, twice "
               "from one object (`reload`), or into two targets, and present held observation tensors again after the restore; (C) checkpoints between trainer() and update(); (D) classifier alone; (E) output / input / state monitors with passthrough / EMA / "
               "cumulative-average reducers (in-place and out-of-place, durations 0-4 steps) over a sensor whose readings change precision during the "
               "run (float16 / bfloat16 / float32 / float64 per step; storage precision float32 / float64 / bfloat16 / float16 = the configuration's "
               "default dtype), every checkpoint step restored into fresh (k = 0) / one-step / several-step targets whose prior readings had the "
               "storage precision or one of the run's precisions, dump / peek / view at every lag and all state compared by value (in double) and dtype. Non-trivial = the "
               "load was accepted and the resumed run was compared over the whole continuation of a run in which spikes occurred")
    return ex


def replay(ctx, data) -> int:
    torch.set_default_dtype(torch.float64)
    case = data.get("failing_input")
    if not case:
        print("no failing input recorded:", data.get("broken"))
        return 1
    if "ops" in case:
        real = seqcheck.exec_real(RealMachines, case["ops"])
        resp = ctx.run_driver(DRIVER, seqcheck.to_driver(DRIVER, case["ops"]))
        for l, r, d in zip(case["ops"], real, resp):
            print(f"{l}\n    real: {r[0]}\n    lean: {d}")
        d = seqcheck.compare_case(case["ops"], real, resp)
        print("DISAGREEMENT" if d else "agrees", d or "")
        return 1 if d else 0
    if case.get("stream") == "main":
        sc = case["scenario"]
        U = Sim(sc, 0).run_all()
        bad = 0
        for variant in range(1, 4):
            status, detail = resume_case(sc, U, case["checkpoint_step"], case["target"], variant, case.get("target_prior"))
            print(f"checkpoint step {case['checkpoint_step']} -> target {case['target']} (variant {variant}): {status} {detail}")
            inprov = case["in_proviso"]
            bad += status in ("diverged", "wrong-error") or (status == "rejected" and inprov)
        return 1 if bad else 0
    if case.get("stream") == "monitors":
        cfg = case["config"]
        U = mon_run(cfg)
        if case["checkpoint_step"] is None:
            print("the uninterrupted run completed")
            return 0
        status, detail = mon_resume(cfg, U, case["checkpoint_step"], case["target"], case["prior_dtype"])
        print(f"storage {cfg['storage']}, readings {cfg['sched']}: checkpoint step {case['checkpoint_step']} -> target {case['target']} "
              f"(prior readings {case['prior_dtype']}): {status} {detail}")
        return 0 if status == "ok" else 1
    ex = Exploration()
    class C:  # re-run the dedicated stream of the recorded case
        pass
    if case.get("stream") == "classifier":
        classifier_stream(ctx, ex, False)
    else:
        pending_stream(ctx, ex, False)
    for f in ex.findings:
        print("FINDING", f.key, f.what)
    return 1 if ex.findings else 0
