"""C15 — correspondence + search for the trainer / monitor lifecycle.

Real side: one `Biclique` layer (its cells share neurons and/or connections), one or two (or
three) real trainers (`STDP`, `MSTDP` = kind 0; `MSTDPET` = kind 1), random programs (length <= 40)
over {register_cell, del_cell, add_monitor, del_monitor, trainer.train/eval, layer.train/eval,
layer step, trainer step (+ update), clear, drop-the-trainer-and-collect}.  Protocol lines are
those of `lean/drivers/C15.lean`.

Per-monitor observation counts come from a counting probe on each monitor's reducer (a forward
pre-hook counts reducer calls, a wrapper around `reducer.clear` resets the count).  After EVERY
operation the harness compares with the code-shaped model (M) and with the specification (S):
exception class / trainer() success, `len(layer._forward_hooks)`, and per live trainer its
training flag, `cells` / `named_cells`, `named_monitors` with `registered` and count, `monitors`
(distinct), and for every MultiStateMonitor whether what it reads through `cell.monitors` belongs
to its own trainer.

D18 (a later registration of a same-named monitor on a cell replaces `cell.monitors[name]`) is a
KNOWN finding: programs in which it can occur are generated in a separate stream, its symptoms are
reported under `C15:second-trainer-redirects-cell-monitors` and the case is cut at that point.
Every other disagreement is reported under its own key.

Cells that DIE without `del_cell` (the "cell-death" stream): the driver's protocol has no operation for a cell that
loses its last reference while registered, so the programs of this stream carry two real-side operations —
`relayer l` (the layer is dropped and collected, a fresh layer with the same connections / neurons takes its slot) and
`recell c` (a custom Layer deletes one of its cells, the cell is collected, the layer re-creates it) — which `expand`
rewrites, for the driver, into what the property says about them: a dead cell is not registered any more (`delcell`
for every registration of a dead cell, in every live trainer), the fresh layer is in training mode.  The real side
lists, in this stream, only the monitors of the still-registered cells (what the property speaks about; on the real
code the entries a dead cell left behind stay in the pool until its name is used again) and counts a layer's hooks
without those left-overs.  Programs then register cells again, preferably under the names the dead cells had, and the
real trainer is judged against the specification stream exactly as in the other streams.

Isolation twin (fifth stream, see `iso_stream`): WHAT the monitors of a cell record, and the update computed from it, is
compared between one trainer holding several cells (registered with per-cell keyword overrides of the hyperparameters) and
one trainer per cell on an identically built twin layer fed the same inputs — an oracle independent of the driver.
"""
from __future__ import annotations

import gc
import re
import weakref

import torch

from inferno.learn import MSTDP, MSTDPET, STDP
from inferno.neural import Biclique, DeltaCurrent, Layer, LIF, LinearDense
from inferno.observe import MultiStateMonitor, PassthroughReducer, StateMonitor

from runner import Exploration, Finding
import seqcheck

SPEC = {
    "prop": "C15",
    "lean_targets": ["InfernoVerif.Props.C15", "InfernoVerif.Props.C15b", "InfernoVerif.Props.C15GlueProg", "InfernoVerif.Props.C15Run", "InfernoVerif.Props.C15GlueMonitor"],
    "translate": ["LifecycleProg", "MonitorProg", "HookProg"],
    "driver_targets": ["InfernoVerif.Model.Lifecycle", "InfernoVerif.Drv.Proto"],
    "prop_files": ["InfernoVerif/Props/C15.lean", "InfernoVerif/Props/C15b.lean", "InfernoVerif/Props/C15GlueProg.lean", "InfernoVerif/Props/C15Run.lean", "InfernoVerif/Props/C15GlueMonitor.lean"],
    "lemma_files": ["InfernoVerif/Lemmas/Lifecycle.lean", "InfernoVerif/Lemmas/Lifecycle2.lean"],
    "model_files": ["InfernoVerif/Model/Lifecycle.lean"],
    "driver": "drivers/C15.lean",
    "assumptions": [
        "model: the layer owns its cells for the whole program (cells never die; `cells_` and `observed_` of a trainer stay in "
        "step); cells that die while registered are covered on the real side only (cell-death stream: `relayer` / `recell` are "
        "sent to the driver as del_cell of every registration of a dead cell, and only the monitors of still-registered cells "
        "are compared)",
        "cell-death stream: while a trainer still holds entries of a cell whose LAYER died, the programs do not switch that "
        "trainer to training mode (on the real code `trainer.train()` then raises RuntimeError: the left-over monitors cannot "
        "be registered, and nothing but registering a cell under the same name removes them), and a cell with a live MSTDPET "
        "registration is not deleted from a living layer (its eligibility monitors stay hooked to the layer, read "
        "`cell.monitors` of a cell that is gone / new, and the layer's next step raises AttributeError) — both reported as "
        "observations, not searched",
        "CPython's collector is modelled as reference counting: a monitor no pool holds any more is finalised at once; the harness "
        "keeps no reference to monitors or units and calls gc.collect() after dropping a trainer",
        "monitors are post-hooks with train_update=True, eval_update=False (what every shipped trainer uses; user-added monitors "
        "in the programs use the same flags)",
        "trainer kinds: 0 = STDP / MSTDP (four pooled monitors), 1 = MSTDPET (the same four + two unique MultiStateMonitors "
        "reading cell.monitors); hyper-parameter variants change the trace monitors' tags only; no learned delays",
        "programs never delete a monitor that an eligibility monitor of the same registration reads (a user-induced break, not "
        "part of the property)",
        "layers: connection / neuron names are per layer; the model's alias search has a switch for the 'other layer' test "
        "(LAYER_FILTER in this file: True = after repair D36, the default; False = the old vacuous test)",
        "D18 and its single-trainer form (the same cell registered twice, one registration being MSTDPET) are a known finding",
        "isolation twin: a registration (register_cell) is followed by clear() on both sides (a pooled monitor shared with an "
        "earlier cell legitimately has a longer history than a fresh one); every cell is registered at most once at a time; the "
        "per-cell trainers' updates are applied by calling each distinct updater of the twin layer once (what "
        "CellTrainer.update does); trainers that need kernels, learned delays or a homeostatic target are not in this stream",
    ],
}
DRIVER = "drivers/C15.lean"
ERRS = {"RuntimeError", "ValueError", "TypeError", "AttributeError", "IndexError", "KeyError"}
KNOWN_D18 = "C15:second-trainer-redirects-cell-monitors"
KEY_XL = "C15:cross-layer-alias"
# the model's alias search: True = `Observable.add_monitor` after the repair D36 (observables of another layer are
# skipped), False = the old rule (the test never skipped) — only for experiments
LAYER_FILTER = True
MNAMES = ["trace_post", "spike_post", "trace_pre", "spike_pre", "elig_post", "elig_pre", "u0", "u1"]
SELS = {"n0": "neuron.spike", "n1": "neuron.voltage", "c0": "connection.synspike", "c1": "connection.syncurrent",
        "cm": "monitors", "bad": "nonexistent.thing"}
CLASSES = {"STDP": (0, STDP), "MSTDP": (0, MSTDP), "MSTDPET": (1, MSTDPET)}
DEATH = "death"          # fourth token of the `begin` line of a cell-death program (never sent to the driver)
DEATH_OPS = ("relayer", "recell")


class OpenBiclique(Biclique):
    """a custom Layer: a Biclique whose cells can be deleted and re-created (through `Layer`'s own add_cell / del_cell)"""

    def add_cell(self, connection, neuron):
        # (a fresh nn.Module is in training mode whatever its parent's mode is: the layer hands the cell its own mode)
        return Layer.add_cell(self, connection, neuron).train(self.training)

    def del_cell(self, connection, neuron):
        return Layer.del_cell(self, connection, neuron)


def b(x):
    return "T" if x else "F"


def tb(s):
    assert s in ("T", "F"), s
    return s == "T"


# ---------------------------------------------------------------------------------------------
# real side

class Real:
    def __init__(self):
        self.layers = {}
        self.trainers = {}
        self.classes = {}
        self.nt = 0
        self.gen = torch.Generator().manual_seed(12345)

    # -- construction --------------------------------------------------------------------------
    death = False

    def _begin(self, topo, death=False):
        triples = [tuple(int(x) for x in p.split(":")) for p in topo.split(",")]
        self.pairs = triples                      # cell index -> (layer, connection, neuron)
        self.nin = {c: 3 + c for _, c, _ in triples}
        self.layers = {}
        self.death = death
        self.gen = torch.Generator().manual_seed(12345)
        for l in sorted({l for l, _, _ in triples}):
            self.layers[l] = self._build_layer(l)
        self.trainers, self.classes, self.nt = {}, {}, 0

    def _build_layer(self, l):
        triples = self.pairs

        def mkconn(c):
            conn = LinearDense((self.nin[c],), (2,), 1.0, synapse=DeltaCurrent.partialconstructor(100.0),
                               weight_init=lambda x: torch.rand(x.shape, generator=self.gen))
            conn.updater = conn.defaultupdater()
            return conn

        def mkneu():
            return LIF((2,), 1.0, rest_v=-60.0, reset_v=-65.0, thresh_v=-50.0, refrac_t=2.0, time_constant=20.0,
                       resistance=1.0)

        conns = sorted({c for ll, c, _ in triples if ll == l})
        neus = sorted({n for ll, _, n in triples if ll == l})
        assert sorted((c, n) for ll, c, n in triples if ll == l) == sorted((c, n) for c in conns for n in neus), \
            "a Biclique layer needs the full product"
        # connection / neuron NAMES are per layer: two layers deliberately use the same names
        cls = OpenBiclique if self.death else Biclique
        return cls([(f"c{c}", mkconn(c)) for c in conns], [(f"n{n}", mkneu()) for n in neus])

    def _cell(self, idx):
        l, c, n = self.pairs[idx]
        return self.layers[l].cells_[f"c{c}"][f"n{n}"]

    def _layer_of(self, mon):
        ref = getattr(mon, "_observed", None)
        mod = ref() if ref is not None else None
        for l, layer in self.layers.items():
            if layer is mod:
                return l
        return "?"

    def _cell_index(self, cell):
        for i in range(len(self.pairs)):
            if self._cell(i) is cell:
                return i
        return "?"

    # -- counting probe ------------------------------------------------------------------------
    def _attach_probes(self):
        for tr in self.trainers.values():
            for grp in tr.monitor_pool_.monitors_.values():
                for mon in grp.values():
                    red = mon.reducer_
                    if "_verif_count" in red.__dict__:
                        continue
                    box = [0]
                    object.__setattr__(red, "_verif_count", box)
                    red.register_forward_pre_hook(lambda mod, args, _b=box: _b.__setitem__(0, _b[0] + 1))
                    orig = red.clear

                    def clear(*a, _o=orig, _b=box, **k):
                        _b[0] = 0
                        return _o(*a, **k)
                    object.__setattr__(red, "clear", clear)

    @staticmethod
    def _count(mon):
        box = mon.reducer_.__dict__.get("_verif_count")
        return "?" if box is None else box[0]

    # -- dump ----------------------------------------------------------------------------------
    def _listing(self, f):
        try:
            return list(f()), None
        except Exception as e:
            return None, type(e).__name__

    def _dump_trainer(self, t):
        tr = self.trainers[t]
        named_cells, e1 = self._listing(lambda: tr.named_cells)
        cells, e2 = self._listing(lambda: tr.cells)
        if e1 or e2:
            cells_s = f"ERR({e1 or e2})"
        else:
            cells_s = ",".join(f"{n[1:]}:{self._cell_index(c[0])}" for n, c in named_cells) or "-"
            if [c[0] for _, c in named_cells] != [c[0] for c in cells]:
                cells_s += "[cells!=named_cells]"
        named, e3 = self._listing(lambda: tr.named_monitors)
        if self.death and not (e1 or e2 or e3):
            # what the property speaks about: the monitors of the still-registered cells
            live = {n for n, _ in named_cells}
            named = [((cn, mn), m) for (cn, mn), m in named if cn in live]
        if e3:
            named_s = own_s = f"ERR({e3})"
        else:
            named_s = ",".join(f"{cn[1:]}.{MNAMES.index(mn)}:{'R' if m.registered else 'U'}:{self._count(m)}"
                               f":L{self._layer_of(m)}" for (cn, mn), m in named) or "-"
            own = []
            mine = [m for _, m in named]
            for (cn, mn), m in named:
                if isinstance(m, MultiStateMonitor):
                    cell = tr.cells_.get(cn)
                    ok = cell is not None
                    for r in ({"elig_post": ("trace_pre", "spike_post"), "elig_pre": ("trace_post", "spike_pre")}[mn]):
                        try:
                            src = getattr(cell.monitors, r)
                        except Exception:
                            ok = False
                            continue
                        ok = ok and any(src is x for x in mine)
                    own.append(f"{cn[1:]}.{MNAMES.index(mn)}:{b(ok)}")
            own_s = ",".join(own) or "-"
        mons, e4 = self._listing(lambda: tr.monitors)
        if self.death and not (e3 or e4):
            # (in the order of the restricted listing: where the dead cells' left-overs stood in the pool is not compared)
            pos = lambda m: next(i for i, (_, x) in enumerate(named) if x is m)
            mons = sorted((m for m in mons if any(x is m for _, x in named)), key=pos)
        if e4:
            mons_s = f"ERR({e4})"
        elif e3:
            mons_s = f"({len(mons)})"
        else:
            def first(m):
                for (cn, mn), x in named:
                    if x is m:
                        return f"{cn[1:]}.{MNAMES.index(mn)}"
                return "?"
            mons_s = ",".join(first(m) for m in mons) or "-"
        return f"T{t} tr={b(tr.training)} cells={cells_s} named={named_s} mons={mons_s} own={own_s}"

    def _leftover_hooks(self, l):
        """registered monitors on layer `l` that only a dead cell's left-over pool entries hold"""
        n = 0
        for tr in self.trainers.values():
            try:
                live = set(tr.cells_.keys())
                groups = [(o, list(g.values())) for o, g in tr.monitor_pool_.monitors_.items()]
            except Exception:
                continue
            kept = [m for o, g in groups if o in live for m in g]
            seen = []
            for o, g in groups:
                for m in g:
                    if o in live or any(m is x for x in kept) or any(m is x for x in seen):
                        continue
                    seen.append(m)
                    if m.registered and self._layer_of(m) == l:
                        n += 1
        return n

    def _dump(self):
        nl = max(max(l for l, _, _ in self.pairs), max(self.layers, default=0)) + 1
        hooks = "/".join(str(len(self.layers[l]._forward_hooks) - (self._leftover_hooks(l) if self.death else 0))
                         if l in self.layers else "0" for l in range(nl))
        pre = sum(len(layer._forward_pre_hooks) for layer in self.layers.values())
        ts = " ; ".join(self._dump_trainer(t) for t in sorted(self.trainers)) or "-"
        return f"hooks {hooks}" + (f"[+{pre} pre-hooks]" if pre else "") + " | " + ts

    # -- execution -----------------------------------------------------------------------------
    def exec(self, line):
        tok = line.split()
        if tok[0] == "begin":
            self._begin(tok[1], death=len(tok) > 3 and tok[3] == DEATH)
            return "ok"
        try:
            out = self._exec(tok)
        except Exception as e:
            name = type(e).__name__
            out = "err " + (name if name in ERRS else "Other")
        self._attach_probes()
        return f"{out} | {self._dump()}"

    def _exec(self, tok):
        op = tok[0]
        if op == "trainer":
            kind, cls = CLASSES[tok[2] if len(tok) > 2 else ("STDP" if tok[1] == "0" else "MSTDPET")]
            assert kind == int(tok[1])
            kw = dict(lr_post=1e-2, lr_pre=-1e-2, tc_post=20.0, tc_pre=20.0)
            if cls is MSTDPET:
                kw["tc_eligibility"] = 30.0
            idx = self.nt
            self.trainers[idx] = cls(**kw)
            self.classes[idx] = cls
            self.nt += 1
            return f"idx {idx}"
        if op == "ltrain":
            self.layers[int(tok[1])].train(tb(tok[2]))
            return "ok"
        if op == "lstep":
            l = int(tok[1])
            conns = sorted({c for ll, c, _ in self.pairs if ll == l})
            inputs = {f"c{c}": ((torch.rand(1, self.nin[c], generator=self.gen) < 0.5).float(),) for c in conns}
            self.layers[l](inputs)
            return "ok"
        if op == "relayer":
            # the layer loses its last reference WITHOUT its cells being removed from any trainer; a fresh layer takes its slot
            l = int(tok[1])
            ref = weakref.ref(self.layers[l])
            del self.layers[l]
            if ref() is not None:
                gc.collect()                     # (reference counting alone normally frees it: a full collection costs 0.1 s)
            out = "ok" if ref() is None else "ok[layer still alive]"
            self.layers[l] = self._build_layer(l)
            return out
        if op == "recell":
            # a custom Layer deletes one of its cells (collected WITHOUT del_cell on any trainer) and re-creates it
            l, c, n = self.pairs[int(tok[1])]
            layer = self.layers[l]
            ref = weakref.ref(layer.cells_[f"c{c}"][f"n{n}"])
            layer.del_cell(f"c{c}", f"n{n}")
            if ref() is not None:
                gc.collect()
            out = "ok" if ref() is None else "ok[cell still alive]"
            layer.add_cell(f"c{c}", f"n{n}")
            return out
        t = int(tok[1])
        tr = self.trainers.get(t)
        if tr is None:
            return "noref"
        if op == "register":
            n, c, v = int(tok[2]), int(tok[3]), int(tok[4])
            if c >= len(self.pairs):
                return "noref"
            unit = tr.register_cell(f"x{n}", self._cell(c), tc_post=20.0 + 5.0 * v, tc_pre=20.0 + 5.0 * v,
                                    lr_post=1e-2 * (1 + v), lr_pre=-1e-2 * (1 + v))
            del unit
            return "ok"
        if op == "delcell":
            tr.del_cell(f"x{int(tok[2])}")
            return "ok"
        if op == "addmon":
            n, m, sel, uq, pp, tg = int(tok[2]), int(tok[3]), tok[4], tb(tok[5]), tb(tok[6]), int(tok[7])
            ctor = StateMonitor.partialconstructor(PassthroughReducer(1.0, duration=0.0), as_prehook=False,
                                                   train_update=True, eval_update=False, prepend=pp)
            mon = tr.add_monitor(f"x{n}", MNAMES[m], SELS[sel], ctor, uq, usertag=tg)
            del mon
            return "ok"
        if op == "delmon":
            tr.del_monitor(f"x{int(tok[2])}", MNAMES[int(tok[3])])
            return "ok"
        if op == "ttrain":
            tr.train(tb(tok[2]))
            return "ok"
        if op == "tstep":
            try:
                if self.classes[t] is STDP:
                    tr()
                else:
                    tr(1.0)
                tr.update()
            except Exception as e:
                self.last_tstep_error = type(e).__name__
                return "fail"
            return "ok"
        if op == "clear":
            tr.clear()
            return "ok"
        if op == "collect":
            ref = weakref.ref(tr)
            del tr
            del self.trainers[t]
            gc.collect()
            return "ok" if ref() is None else "ok[trainer still alive]"
        raise AssertionError(tok)


# ---------------------------------------------------------------------------------------------
# comparison

def d18_prone(case):
    """some cell index is registered more than once (by any trainers) and a kind-1 trainer is involved"""
    kinds = []
    regs = {}
    topo = [tuple(int(x) for x in p.split(":")) for p in case[0].split()[1].split(",")] if case else []
    gen = {}                                     # a cell index names a NEW cell after `relayer` / `recell`
    for l in case:
        t = l.split()
        if t[0] == "trainer":
            kinds.append(int(t[1]))
        elif t[0] == "register":
            regs.setdefault((int(t[3]), gen.get(int(t[3]), 0)), []).append(int(t[1]))
        elif t[0] == "relayer":
            for c, tp in enumerate(topo):
                if tp[0] == int(t[1]):
                    gen[c] = gen.get(c, 0) + 1
        elif t[0] == "recell":
            gen[int(t[1])] = gen.get(int(t[1]), 0) + 1
    for c, ts in regs.items():
        if len(ts) >= 2 and any(k < len(kinds) and kinds[k] == 1 for k in ts):
            return True
    return False


def cross_layer_prone(case):
    """some trainer registers cells of two different layers"""
    topo = [tuple(int(x) for x in p.split(":")) for p in case[0].split()[1].split(",")]
    seen = {}
    for l in case:
        t = l.split()
        if t[0] == "register" and int(t[3]) < len(topo):
            seen.setdefault(int(t[1]), set()).add(topo[int(t[3])][0])
    return any(len(v) > 1 for v in seen.values())


def is_cross_layer_symptom(case, i, expected, observed):
    """the monitor listed for a cell is registered with another layer than the cell's"""
    if is_death(case) or not cross_layer_prone(case[: i + 1]):
        return False                            # (cell-death programs: a monitor inherited from a dead cell is its own symptom)
    fe, fo = fields(expected), fields(observed)
    for k in fe:
        if k.endswith(".named") and k in fo:
            le = re.findall(r"(\d+\.\d+):[RU]:\d+:L(\w+)", fe[k])
            lo = re.findall(r"(\d+\.\d+):[RU]:\d+:L(\w+)", fo[k])
            if [x for x, _ in le] == [x for x, _ in lo] and le != lo and not any(y == "?" for _, y in lo):
                return True
    return False


def fields(view):
    """split a view into comparable fields"""
    parts = view.split(" | ")
    out = {"out": parts[0], "hooks": parts[1] if len(parts) > 1 else ""}
    for tdump in (parts[2].split(" ; ") if len(parts) > 2 else []):
        toks = tdump.split()
        for kv in toks[1:]:
            k, _, v = kv.partition("=")
            out[f"{toks[0]}.{k}"] = v
    return out


def is_d18_symptom(case, i, expected, observed):
    if not d18_prone(case[: i + 1]):
        return False
    fe, fo = fields(expected), fields(observed)
    if set(fe) != set(fo):
        return False
    diff = [k for k in fe if fe[k] != fo[k]]
    if not diff:
        return False
    aborted = case[i].split()[0] == "lstep" and fo["out"] == "err AttributeError"
    for k in diff:
        if k.endswith(".own"):
            continue
        if k == "out" and aborted:
            continue
        if k.endswith(".named"):
            if aborted:
                continue                    # hooks behind the raising one did not run
            # only the eligibility monitors' counts (they read another trainer's, possibly empty, monitors)
            ee, oo = fe[k].split(","), fo[k].split(",")
            if len(ee) == len(oo) and all(x == y or re.match(r"\d+\.[45]:", x) for x, y in zip(ee, oo)):
                continue
        return False
    return True


def is_death(case):
    head = case[0].split() if case else []
    return len(head) > 3 and head[3] == DEATH


def expand(case):
    """(lines for the driver, for every op of the case the index of its LAST driver line).

    Programs of the cell-death stream: `relayer l` / `recell c` become what the property says about them — every
    registration of a dead cell is gone (`delcell t n` for each, found by plain book-keeping over the program text: a
    registration succeeds iff the trainer exists, the cell index exists and the name is free), the layer's mode is
    that of a fresh layer (training) after `relayer` and unchanged after `recell`."""
    if not is_death(case):
        return list(case), list(range(len(case)))
    head = case[0].split()
    topo = [tuple(int(x) for x in p.split(":")) for p in head[1].split(",")]
    lines, last = [" ".join(head[:3])], [0]
    nt, alive, names, flags = 0, set(), {}, {}
    for line in case[1:]:
        t = line.split()
        if t[0] in DEATH_OPS:
            if t[0] == "relayer":
                l = int(t[1])
                dead = {c for c, tp in enumerate(topo) if tp[0] == l}
                flags[l] = True
            else:
                dead = {int(t[1])}
                l = topo[int(t[1])][0]
            for tr in sorted(alive):
                for n, c in sorted(names[tr].items()):
                    if c in dead:
                        lines.append(f"delcell {tr} {n}")
                        del names[tr][n]
            lines.append(f"ltrain {l} {b(flags.get(l, True))}")
        else:
            if t[0] == "trainer":
                alive.add(nt)
                names[nt] = {}
                nt += 1
            elif t[0] == "collect":
                alive.discard(int(t[1]))
            elif t[0] == "register":
                tr, n, c = int(t[1]), int(t[2]), int(t[3])
                if tr in alive and c < len(topo) and n not in names[tr]:
                    names[tr][n] = c
            elif t[0] == "delcell":
                if int(t[1]) in alive:
                    names[int(t[1])].pop(int(t[2]), None)
            elif t[0] == "ltrain":
                flags[int(t[1])] = tb(t[2])
            lines.append(line)
        last.append(len(lines) - 1)
    return lines, last


def drive(ctx, cases):
    """the driver's answers, one per op of every case (one driver process for all cases)"""
    exp = [expand(c) for c in cases]
    resp = ctx.run_driver(DRIVER, [l for lines, _ in exp for l in lines])
    out, pos = [], 0
    for lines, last in exp:
        out.append([resp[pos + i] for i in last])
        pos += len(lines)
    return out


def compare_case(case, real, resp):
    """first disagreement (index, kind, expected, observed); spec disagreements take precedence"""
    for i, ((rm, rs), line) in enumerate(zip(real, resp)):
        dm, ds = seqcheck.split_resp(line)
        if rs != ds:
            return (i, "spec", ds, rs)
        if rm != dm:
            return (i, "model", dm, rm)
    return None


def key_of(case, d):
    if d[1] == "spec" and is_cross_layer_symptom(case, d[0], d[2], d[3]):
        return KEY_XL
    if d[1] == "spec" and is_d18_symptom(case, d[0], d[2], d[3]):
        return KNOWN_D18
    fe, fo = fields(d[2]), fields(d[3])
    diff = sorted({k.split(".")[-1] for k in set(fe) | set(fo) if fe.get(k) != fo.get(k)})
    return f"C15:{d[1]}:{case[d[0]].split()[0]}:{'+'.join(diff)}"


def shrink_case(ctx, case, kind, key, max_tries=60):
    tries = 0

    def fails(c):
        real = seqcheck.exec_real(Real, c)
        resp = drive(ctx, [c])[0]
        d = compare_case(c, real, resp)
        if d is None or d[1] != kind:
            return False
        if any(x.startswith("harness-exception") for x in (d[2], d[3])) or "bad-op" in d[2]:
            return False
        return key_of(c, d) == key or (key not in (KNOWN_D18, KEY_XL) and key_of(c, d) not in (KNOWN_D18, KEY_XL))

    cur = list(case)
    changed = True
    while changed and tries < max_tries:
        changed = False
        for i in range(len(cur) - 2, 0, -1):
            cand = cur[:i] + cur[i + 1:]
            tries += 1
            if tries > max_tries:
                break
            if fails(cand):
                cur = cand
                changed = True
    return cur


def run_cases(ctx, cases, ex: Exploration, max_findings=6):
    reals = [seqcheck.exec_real(Real, c) for c in cases]
    resps = drive(ctx, cases)
    nfound = 0
    seen_keys = {}
    for case, real, r in zip(cases, reals, resps):
        ex.evaluations += len(case)
        ex.traces_validated += 1
        if nontrivial(case, real):
            ex.nontriv(tuple(case))
        for (rm, _) in real:
            o = rm.split(" | ")[0]
            if o.startswith(("err", "fail", "noref")):
                ex.count("outcomes", o)
        d = compare_case(case, real, r)
        if d is None:
            continue
        if any(x.startswith("harness-exception") for x in (d[2], d[3])) or "bad-op" in d[2]:
            raise RuntimeError(f"harness/driver protocol failure on {case[:d[0] + 1]}: {d}")
        key = key_of(case, d)
        if key in (KNOWN_D18, KEY_XL):
            seen_keys[key] = seen_keys.get(key, 0) + 1
            ex.count("symptom_" + key.split(":", 1)[1], case[d[0]].split()[0])
            if seen_keys[key] > 1:
                continue                    # one shrunk witness per run and key is enough
        else:
            nfound += 1
            if nfound > max_findings:
                continue
        small = shrink_case(ctx, case[: d[0] + 1], d[1], key)
        real2 = seqcheck.exec_real(Real, small)
        resp2 = drive(ctx, [small])[0]
        d2 = compare_case(small, real2, resp2) or d
        info = {"ops": small, "index": d2[0], "expected": d2[2], "observed": d2[3],
                "disagreement": "code vs specification" if d2[1] == "spec" else "code vs code-shaped model"}
        if is_death(small):
            info["sent_to_driver"] = expand(small)[0]
            info["note"] = ("`relayer l`: layer l is dropped and collected without del_cell on any trainer, a fresh layer with the "
                            "same connections / neurons takes its slot; `recell c`: a custom Layer deletes cell c, the cell is "
                            "collected, the layer re-creates it; only monitors of still-registered cells are listed")
        ex.findings.append(Finding(
            kind=d2[1], key=key_of(small, d2),
            what=f"op `{small[d2[0]]}`: expected `{d2[2]}` observed `{d2[3]}`",
            case=info))


def nontrivial(case, real):
    # non-trivial: some monitor recorded at least one observation
    return any(isinstance(r, tuple) and re.search(r":[RU]:[1-9]", r[0]) for r in real)


# ---------------------------------------------------------------------------------------------
# generators

TOPOS = ["0:0:0,0:1:0", "0:0:0,0:0:1", "0:0:0,0:0:1,0:1:0,0:1:1", "0:0:0,0:1:0,0:2:0"]
# two layers whose connections / neurons carry the same names
TOPOS2 = ["0:0:0,1:0:0", "0:0:0,0:1:0,1:0:0", "0:0:0,1:0:0,1:0:1", "0:0:0,0:1:0,1:0:0,1:1:0"]


def begin_line(topo):
    return f"begin {topo} " + ("T" if LAYER_FILTER else "F")


def random_program(rng, prone: bool, maxlen=40, two_layers=False):
    topo = rng.choice(TOPOS2 if two_layers else TOPOS)
    ncells = len(topo.split(","))
    nlayers = 1 + max(int(p.split(":")[0]) for p in topo.split(","))
    lstep = lambda: f"lstep {rng.randrange(nlayers)}"
    lines = [begin_line(topo)]
    ntr = rng.choice([1, 2, 2, 3] if prone else [1, 1, 2, 2, 3])
    kinds = []
    for i in range(ntr):
        if prone:
            cls = "MSTDPET" if i == 0 or rng.random() < 0.4 else rng.choice(["STDP", "MSTDP"])
        else:
            cls = rng.choice(["STDP", "STDP", "MSTDP", "MSTDPET", "MSTDPET"])
        kinds.append(CLASSES[cls][0])
        lines.append(f"trainer {CLASSES[cls][0]} {cls}")
    alive = set(range(ntr))
    # who may use which cell (D18-free stream: a cell used by a kind-1 trainer is used by nobody else, and only once)
    owner = {}
    cells_of = {t: {} for t in range(ntr)}      # t -> name -> cell
    regcount = {}

    def can_register(t, c):
        if prone:
            return True
        users = owner.get(c, set())
        if kinds[t] == 1:
            return not users and regcount.get(c, 0) == 0
        return all(kinds[u] == 0 for u in users) and not any(kinds[u] == 1 for u in regcount.get(("k", c), []))

    length = rng.randint(6, maxlen)
    while len(lines) < length + 1 + ntr:
        if not alive:
            lines.append(lstep())
            continue
        r = rng.random()
        t = rng.choice(sorted(alive)) if rng.random() < 0.97 else rng.randrange(ntr + 1)
        names = cells_of.get(t, {})
        if r < 0.2 or (r < 0.5 and not names):
            n = rng.randrange(3)
            c = rng.randrange(ncells) if rng.random() < 0.97 else ncells
            if t in alive and c < ncells and n not in names and not can_register(t, c):
                lines.append(lstep())
                continue
            lines.append(f"register {t} {n} {c} {rng.choice([0, 0, 1])}")
            if t in alive and c < ncells and n not in names:
                names[n] = c
                owner.setdefault(c, set()).add(t)
                regcount[c] = regcount.get(c, 0) + 1
                regcount.setdefault(("k", c), []).append(t)
        elif r < 0.27:
            n = rng.choice(sorted(names)) if names and rng.random() < 0.9 else rng.randrange(3)
            lines.append(f"delcell {t} {n}")
            if t in alive and n in names:
                c = names.pop(n)
                if c not in names.values():
                    owner.get(c, set()).discard(t)
        elif r < 0.37:
            n = rng.choice(sorted(names)) if names and rng.random() < 0.9 else rng.randrange(3)
            m = rng.choice([6, 6, 7, 0, 1, 2, 3])
            uq = rng.random() < 0.35
            if m < 4 and t < ntr and kinds[t] == 1:
                uq = False          # replacing a monitor the eligibility monitors read is a user-induced break
            sel = {0: "n0", 1: "n0", 2: "c0", 3: "c0"}.get(m) if m < 4 else rng.choice(["n0", "n0", "n1", "c0", "c1", "bad"])
            lines.append(f"addmon {t} {n} {m} {sel} {b(uq)} {b(rng.random() < 0.5)} {rng.choice([100, 100, 101])}")
        elif r < 0.45:
            n = rng.choice(sorted(names)) if names and rng.random() < 0.9 else rng.randrange(3)
            pool = [6, 7, 6, 7, 4, 5] if (t < ntr and kinds[t] == 1) else [6, 7, 0, 1, 2, 3]
            lines.append(f"delmon {t} {n} {rng.choice(pool)}")
        elif r < 0.53:
            lines.append(f"ttrain {t} {b(rng.random() < 0.55)}")
        elif r < 0.6:
            lines.append(f"ltrain {rng.randrange(nlayers)} {b(rng.random() < 0.6)}")
        elif r < 0.82:
            lines.append(lstep())
        elif r < 0.92:
            lines.append(f"tstep {t}")
        elif r < 0.97:
            lines.append(f"clear {t}")
        else:
            lines.append(f"collect {t}")
            if t in alive:
                alive.discard(t)
                for c in list(owner):
                    owner[c].discard(t)
    return lines


def death_program(rng, maxlen=40, two_layers=False):
    """a D18-free program in which registered cells DIE without del_cell (`relayer`: their layer is dropped and rebuilt;
    `recell`: a custom layer deletes and re-creates one cell) and cells are registered again, preferably under the names
    the dead cells had"""
    topo = rng.choice(TOPOS2 if two_layers else TOPOS)
    triples = [tuple(int(x) for x in p.split(":")) for p in topo.split(",")]
    ncells = len(triples)
    nlayers = 1 + max(l for l, _, _ in triples)
    lstep = lambda: f"lstep {rng.randrange(nlayers)}"
    lines = [begin_line(topo) + " " + DEATH]
    ntr = rng.choice([1, 1, 2, 2, 3])
    kinds = []
    for i in range(ntr):
        cls = rng.choice(["STDP", "STDP", "MSTDP", "MSTDPET", "MSTDPET"])
        kinds.append(CLASSES[cls][0])
        lines.append(f"trainer {CLASSES[cls][0]} {cls}")
    alive = set(range(ntr))
    names = {t: {} for t in range(ntr)}          # t -> name -> cell index (live registrations)
    stale = {t: {} for t in range(ntr)}          # t -> name -> True if the cell's LAYER died (left-over pool entries)
    users = {}                                   # cell index -> registrations (t) of the CURRENT cell object, ever

    def can_register(t, c):
        # D18-free: the current cell object is used by one MSTDPET registration and nothing else, or by kind-0 trainers only
        u = users.get(c, [])
        return not u if kinds[t] == 1 else all(kinds[x] == 0 for x in u)

    def die(cells, layer_dead):
        for t in alive:
            for n, c in list(names[t].items()):
                if c in cells:
                    del names[t][n]
                    stale[t][n] = layer_dead or stale[t].get(n, False)
        for c in cells:
            users.pop(c, None)

    length = rng.randint(10, maxlen)
    while len(lines) < length + 1 + ntr:
        if not alive:
            lines.append(lstep())
            continue
        r = rng.random()
        t = rng.choice(sorted(alive))
        mine = names[t]
        if r < 0.24 or (r < 0.5 and not mine):
            free_stale = sorted(n for n in stale[t] if n not in mine)
            n = rng.choice(free_stale) if free_stale and rng.random() < 0.75 else rng.randrange(3)
            c = rng.randrange(ncells)
            if n not in mine and not can_register(t, c):
                lines.append(lstep())
                continue
            lines.append(f"register {t} {n} {c} {rng.choice([0, 0, 1])}")
            if n not in mine:
                mine[n] = c
                stale[t].pop(n, None)
                users.setdefault(c, []).append(t)
        elif r < 0.28:
            n = rng.choice(sorted(mine)) if mine and rng.random() < 0.8 else rng.randrange(3)
            lines.append(f"delcell {t} {n}")
            mine.pop(n, None)
        elif r < 0.35:
            n = rng.choice(sorted(mine)) if mine and rng.random() < 0.9 else rng.randrange(3)
            m = rng.choice([6, 6, 7, 0, 1, 2, 3])
            uq = rng.random() < 0.35 and not (m < 4 and kinds[t] == 1)
            sel = {0: "n0", 1: "n0", 2: "c0", 3: "c0"}.get(m) if m < 4 else rng.choice(["n0", "n0", "n1", "c0", "c1", "bad"])
            lines.append(f"addmon {t} {n} {m} {sel} {b(uq)} {b(rng.random() < 0.5)} {rng.choice([100, 100, 101])}")
        elif r < 0.40:
            n = rng.choice(sorted(mine)) if mine and rng.random() < 0.9 else rng.randrange(3)
            pool = [6, 7, 6, 7, 4, 5] if kinds[t] == 1 else [6, 7, 0, 1, 2, 3]
            lines.append(f"delmon {t} {n} {rng.choice(pool)}")
        elif r < 0.47:
            on = rng.random() < 0.55
            if on and any(stale[t].values()):
                on = False                       # see SPEC["assumptions"]: trainer.train() with a dead layer's left-overs raises
            lines.append(f"ttrain {t} {b(on)}")
        elif r < 0.52:
            lines.append(f"ltrain {rng.randrange(nlayers)} {b(rng.random() < 0.6)}")
        elif r < 0.74:
            lines.append(lstep())
        elif r < 0.82:
            lines.append(f"tstep {t}")
        elif r < 0.85:
            lines.append(f"clear {t}")
        elif r < 0.87 and ntr > 1:
            lines.append(f"collect {t}")
            alive.discard(t)
        elif r < 0.94:
            l = rng.randrange(nlayers)
            lines.append(f"relayer {l}")
            die({c for c, tp in enumerate(triples) if tp[0] == l}, True)
        else:
            c = rng.randrange(ncells)
            if any(kinds[x] == 1 and c in names[x].values() for x in alive):
                # see SPEC["assumptions"]: an MSTDPET registration's eligibility monitors read `cell.monitors` through the
                # LAYER's path to the cell; they stay hooked to the living layer and raise on its next step
                lines.append(lstep())
                continue
            lines.append(f"recell {c}")
            die({c}, False)
    return lines


def scripted_death_cases():
    """cells die without del_cell, cells are registered again under the same names"""
    B = lambda topo: begin_line(topo) + " " + DEATH
    out = []
    for cls in ("STDP", "MSTDPET"):
        k = CLASSES[cls][0]
        # the whole layer is dropped and rebuilt; all cells registered again under their old names
        out.append([B("0:0:0,0:0:1,0:1:0,0:1:1"), f"trainer {k} {cls}"] + [f"register 0 {n} {n} 0" for n in range(3)] +
                   ["lstep 0", "lstep 0", "tstep 0", "relayer 0"] + [f"register 0 {n} {n} 0" for n in range(3)] +
                   ["lstep 0", "lstep 0", "tstep 0", "ttrain 0 F", "lstep 0", "ttrain 0 T", "lstep 0", "tstep 0"])
    for cls in ("STDP", "MSTDP"):
        # one cell is deleted and re-created by its layer; registered again under the old name (other cell / other variant)
        out.append([B("0:0:0,0:1:0"), f"trainer 0 {cls}", "register 0 0 0 0", "register 0 1 1 0", "lstep 0", "lstep 0",
                    "recell 0", "lstep 0", "register 0 0 0 1", "lstep 0", "tstep 0", "ttrain 0 F", "ttrain 0 T", "lstep 0",
                    "tstep 0", "recell 1", "delcell 0 0", "register 0 1 0 0", "lstep 0", "tstep 0"])
    # one of two layers dies; the survivor's cells keep recording; the old name goes to a cell of the other layer
    out.append([B("0:0:0,1:0:0"), "trainer 0 STDP", "trainer 0 MSTDP", "register 0 0 0 0", "register 1 0 1 0", "lstep 0",
                "lstep 1", "relayer 0", "lstep 1", "lstep 0", "tstep 1", "register 0 0 0 1", "lstep 0", "lstep 1", "tstep 0",
                "tstep 1", "relayer 1", "register 1 0 1 0", "lstep 1", "tstep 1"])
    return out


def scripted_cases():
    """fixed scenarios (also kept under corpus/C15)"""
    B = begin_line
    d17 = [B("0:0:0,0:1:0"), "trainer 0 STDP", "register 0 0 0 0", "register 0 1 1 0", "lstep 0", "delcell 0 0",
           "lstep 0", "lstep 0", "tstep 0", "delmon 0 1 0", "lstep 0", "register 0 2 0 0", "lstep 0", "tstep 0"]
    d17b = [B("0:0:0,0:0:1"), "trainer 1 MSTDPET", "register 0 0 0 0", "register 0 1 1 0", "lstep 0", "delmon 0 0 7",
            "delcell 0 1", "lstep 0", "tstep 0", "ttrain 0 F", "lstep 0", "ttrain 0 T", "lstep 0", "tstep 0"]
    d18 = [B("0:0:0,0:1:0"), "trainer 1 MSTDPET", "trainer 0 STDP", "register 0 0 0 0", "lstep 0", "register 1 0 0 0",
           "lstep 0"]
    d18b = [B("0:0:0,0:1:0"), "trainer 1 MSTDPET", "trainer 0 STDP", "register 0 0 0 0", "register 1 0 0 0",
            "delcell 1 0", "lstep 0"]
    # one trainer, two cells of two DIFFERENT layers with equal connection / neuron names
    xl = [B("0:0:0,1:0:0"), "trainer 0 STDP", "register 0 0 0 0", "register 0 1 1 0", "lstep 1", "lstep 1", "lstep 0",
          "tstep 0"]
    xl2 = [B("0:0:0,1:0:0"), "trainer 1 MSTDPET", "register 0 0 0 0", "register 0 1 1 0", "lstep 1", "lstep 0", "tstep 0"]
    return [d17, d17b, d18, d18b, xl, xl2]


def reregistration_kind(case):
    """does the program register a cell under a name whose previous cell died without del_cell?"""
    topo = [tuple(int(x) for x in p.split(":")) for p in case[0].split()[1].split(",")]
    names, stale, hit = {}, {}, set()
    for line in case[1:]:
        t = line.split()
        if t[0] == "register" and int(t[3]) < len(topo):
            tr, n = int(t[1]), int(t[2])
            if n not in names.setdefault(tr, {}):
                names[tr][n] = int(t[3])
                if n in stale.get(tr, {}):
                    hit.add(stale[tr].pop(n))
        elif t[0] == "delcell":
            names.get(int(t[1]), {}).pop(int(t[2]), None)
        elif t[0] == "collect":
            names.pop(int(t[1]), None)
            stale.pop(int(t[1]), None)
        elif t[0] in DEATH_OPS:
            dead = {c for c, tp in enumerate(topo) if tp[0] == int(t[1])} if t[0] == "relayer" else {int(t[1])}
            for tr, d in names.items():
                for n, c in list(d.items()):
                    if c in dead:
                        del d[n]
                        stale.setdefault(tr, {})[n] = "same name after " + t[0]
    return "+".join(sorted(hit)) or "none"


def corpus_cases():
    from pathlib import Path
    d = Path(__file__).resolve().parent.parent.parent / "corpus" / "C15"
    out = []
    if d.exists():
        for f in sorted(d.glob("*.ops")):
            lines = [l for l in f.read_text().splitlines() if l.strip() and not l.startswith("#")]
            out.append([begin_line(l.split()[1]) + (" " + DEATH if l.split()[-1] == DEATH else "") if l.startswith("begin") else l
                        for l in lines])
    return out


KNOWN_D40 = "C15:dead-layer:monitors-still-listed"


def dead_layer_probe(ex) -> None:
    """a layer whose cells are all registered dies WITHOUT del_cell (drop the last reference and collect): the property's
    listing clause says the trainer's cell and monitor listings reflect exactly what is registered, and switching the trainer
    between eval and train must keep working"""
    import gc
    from inferno.learn import STDP
    for tname in ("STDP",):
        def mkconn(n):
            conn = LinearDense((n,), (2,), 1.0, synapse=DeltaCurrent.partialconstructor(100.0))
            conn.updater = conn.defaultupdater()
            return conn
        layer = Biclique([("c0", mkconn(3)), ("c1", mkconn(4))],
                         [("n0", LIF((2,), 1.0, rest_v=-60.0, reset_v=-65.0, thresh_v=-50.0, refrac_t=2.0, time_constant=20.0,
                                     resistance=1.0))])
        tr = STDP(1e-3, -1e-3, 20.0, 20.0)
        for cn in ("c0", "c1"):
            tr.register_cell(cn, layer.cells_[cn]["n0"])
        tr.train()
        del layer
        gc.collect()
        ex.evaluations += 1
        ncells = len(list(tr.named_cells))
        nmons = len(list(tr.named_monitors))
        raised = None
        try:
            tr.eval()
            tr.train()
        except Exception as e:  # noqa: BLE001
            raised = f"{type(e).__name__}: {str(e)[:120]}"
        if ncells == 0 and (nmons != 0 or raised):
            ex.findings.append(Finding(
                kind="spec", key=KNOWN_D40,
                what=(f"{tname} trainer, every cell of a Biclique registered, then the layer is dropped and collected without del_cell: "
                      f"named_cells lists {ncells} cells but named_monitors still lists {nmons} monitors"
                      + (f"; trainer.eval(); trainer.train() then raises {raised}" if raised else "")),
                case={"ops": ["trainer STDP", "register c0:n0", "register c1:n0", "train", "drop layer + gc.collect()", "eval", "train"],
                      "named_cells": ncells, "named_monitors": nmons, "raised": raised}))


# ---------------------------------------------------------------------------------------------
# isolation twin: what a cell's monitors RECORD (and the update computed from it) does not depend on its neighbours
#
# The property's second sentence: registering / removing another cell never redirects or corrupts recording for a cell,
# "even one that shares a pooled monitor".  Oracle (independent of the driver, a twin run): two identical layers (one a
# built the same way from the same seed) receive the same inputs.  On the first, ONE trainer holds
# all the cells (their monitors are pooled wherever the trainer decides they may be); on the second, every cell has a
# trainer of its own with the same effective hyperparameters (nothing to pool with).  After every operation every monitor
# of every registered cell must hold the same data on both sides, a trainer step must succeed on both sides or on neither,
# and the connection weights after the update must agree.  Cells are registered with per-cell keyword overrides of the
# trainer's hyperparameters (one key at a time — systematically, every key of every trainer class — and random pairs),
# registrations change mid-run (del_cell, re-registration in another order / with other overrides; every change of the
# registrations is followed by `clear` on both sides so a pooled monitor's longer history is not counted as a difference).

KEY_ISO = "C15:neighbour-changes-what-a-cell-records"
ISO_TOPOS = ["0:0:0,0:1:0", "0:0:0,0:0:1", "0:0:0,0:0:1,0:1:0,0:1:1", "0:0:0,0:1:0,0:2:0"]


def iso_classes():
    """every shipped IndependentCellTrainer whose constructor takes only learning rates / time constants (+ defaults):
    name -> (class, float keys, choice keys {key: values}, call arguments)"""
    import importlib
    import inspect
    import pkgutil
    import inferno.learn as L
    import inferno.learn.trainers as LT
    found = {}
    mods = [L] + [importlib.import_module(f"{LT.__name__}.{m.name}") for m in pkgutil.iter_modules(LT.__path__)]
    for mod in mods:
        for name, cls in vars(mod).items():
            if inspect.isclass(cls) and issubclass(cls, L.IndependentCellTrainer) and cls is not L.IndependentCellTrainer:
                found.setdefault(name, cls)
    out = {}
    for name, cls in sorted(found.items()):
        sig = inspect.signature(cls.__init__)
        req = [p.name for p in list(sig.parameters.values())[1:]
               if p.default is inspect.Parameter.empty and p.kind is inspect.Parameter.POSITIONAL_OR_KEYWORD]
        if not req or not all(re.match(r"(lr|tc)_", k) for k in req):
            continue                              # kernels, homeostasis: other streams
        if name.startswith("DelayAdjusted"):
            continue                              # need learned delays (SPEC["assumptions"]: no learned delays)
        choice = {}
        if "trace_mode" in sig.parameters:
            choice["trace_mode"] = ["cumulative", "nearest"]
        if "inplace" in sig.parameters:
            choice["inplace"] = [False, True]
        fwd = inspect.signature(cls.forward)
        call = (1.0,) if "signal" in fwd.parameters else ()
        out[name] = (cls, req, choice, call)
    return out


def iso_value(rng, key, other=None):
    """a hyperparameter value (dyadic / small integers), different from `other`"""
    for _ in range(20):
        if key.startswith("tc_"):
            # (the triplet rules require slow > fast)
            v = float(rng.choice([5, 10, 15, 20, 30] if key.endswith("_fast") else [40, 60, 100, 120, 150]
                                 if key.endswith("_slow") else [10, 15, 20, 30, 40, 60]))
        else:
            mag = rng.choice([0.0625, 0.125, 0.25, 0.5])
            neg = ("pre" in key) != (rng.random() < 0.2)        # mostly the conventional sign, sometimes the opposite one
            v = -mag if neg else mag
        if other is None or v != other:
            return v
    return v


def iso_case(rng, cname, info, override_keys=None, lifecycle=True, nsteps=10, topo=None):
    """one twin program: {'cls', 'topo', 'hyper', 'regs': [[name, cell index, overrides]], 'ops': [...]}"""
    _, fkeys, choice, _ = info
    topo = topo or rng.choice(ISO_TOPOS)
    ncells = len(topo.split(","))
    hyper = {k: iso_value(rng, k) for k in fkeys}
    for k, vals in choice.items():
        hyper[k] = rng.choice(vals)
    order = list(range(ncells))
    rng.shuffle(order)
    allkeys = list(fkeys) + list(choice)

    def overrides(keys):
        o = {}
        for k in keys:
            o[k] = iso_value(rng, k, hyper[k]) if k in fkeys else rng.choice([v for v in choice[k] if v != hyper[k]])
        return o

    regs = []
    for j, c in enumerate(order):
        if j == 0:
            keys = []
        elif override_keys is not None:
            keys = override_keys if j == 1 else rng.choice([[], override_keys])
        else:
            keys = rng.sample(allkeys, rng.choice([0, 1, 1, 2]))
        regs.append([f"x{j}", c, overrides(keys)])
    ops = [f"reg {j}" for j in range(len(regs))]
    steps = 0
    while steps < nsteps:
        r = rng.random()
        if r < 0.62 or not lifecycle:
            ops.append("lstep")
            steps += 1
            if not lifecycle and steps == nsteps // 2:
                ops.append("tstep")
        elif r < 0.72:
            ops.append("tstep")
        elif r < 0.78:
            ops.append(f"ttrain {b(rng.random() < 0.5)}")
        elif r < 0.84:
            ops.append(f"ltrain {b(rng.random() < 0.5)}")
        elif r < 0.92:
            # a registration leaves and comes back (later than its neighbours: the pool is searched in another order)
            j = rng.randrange(len(regs))
            ops += [f"del {j}", "lstep", f"reg {j}"]
            steps += 1
        else:
            ops.append("clear")
    ops += ["lstep", "tstep"]
    return {"twin": True, "cls": cname, "topo": topo, "hyper": hyper, "regs": regs, "ops": ops}


class IsoRun:
    """both sides of the twin"""

    def __init__(self, case, info):
        self.case, (self.cls, _, _, self.call) = case, info
        r, r2 = Real(), Real()
        r._begin(case["topo"])
        r2._begin(case["topo"])                   # (same seed: the same weights)
        self.r = r
        self.A, self.B = r.layers[0], r2.layers[0]
        self.shared = self.cls(**case["hyper"])
        self.solo = {}
        self.live = []
        self.gen = torch.Generator().manual_seed(4711)

    def cell(self, layer, idx):
        _, c, n = self.r.pairs[idx]
        return layer.cells_[f"c{c}"][f"n{n}"]

    def data(self, mon):
        out = []
        for f in (mon.peek, mon.dump):
            try:
                x = f()
            except Exception as e:  # noqa: BLE001
                out.append(type(e).__name__)
                continue
            out.append(None if x is None else x.detach().clone().double())
        return out

    def step(self, op):
        """-> None or (what, expected (own trainer), observed (shared trainer))"""
        tok = op.split()
        regs = self.case["regs"]

        def both(fa, fb, what):
            ea = eb = None
            try:
                fb()
            except Exception as e:  # noqa: BLE001
                eb = f"{type(e).__name__}: {str(e)[:160]}"
            try:
                fa()
            except Exception as e:  # noqa: BLE001
                ea = f"{type(e).__name__}: {str(e)[:160]}"
            if (ea is None) != (eb is None):
                return (what + " raises on one side only", eb or "succeeds", ea or "succeeds")
            return None

        if tok[0] == "reg":
            j = int(tok[1])
            name, c, ov = regs[j]
            self.solo[j] = self.cls(**self.case["hyper"])
            self.solo[j].train(self.shared.training)
            self.live.append(j)
            d = both(lambda: self.shared.register_cell(name, self.cell(self.A, c), **ov),
                     lambda: self.solo[j].register_cell(name, self.cell(self.B, c), **ov), f"register_cell {name}")
            # (a pooled monitor the newcomer shares has a longer history than a fresh one: start both sides afresh)
            d = d or both(lambda: self.shared.clear(), lambda: [t.clear() for t in self.solo.values()], "clear")
        elif tok[0] == "del":
            j = int(tok[1])
            name = regs[j][0]
            self.live.remove(j)
            solo = self.solo.pop(j)
            d = both(lambda: self.shared.del_cell(name), lambda: solo.del_cell(name), f"del_cell {name}")
            del solo
        elif tok[0] == "lstep":
            conns = sorted({c for _, c, _ in self.r.pairs})
            inputs = {f"c{c}": ((torch.rand(1, self.r.nin[c], generator=self.gen) < 0.5).float(),) for c in conns}
            d = both(lambda: self.A(inputs), lambda: self.B({k: (v[0].clone(),) for k, v in inputs.items()}), "layer step")
        elif tok[0] == "tstep":
            def fb():
                for j in self.live:
                    self.solo[j](*self.call)
                # (CellTrainer.update applies every distinct updater of its cells ONCE, whoever accumulated into it)
                ups = []
                for j in self.live:
                    up = self.cell(self.B, self.case["regs"][j][1]).updater
                    if up is not None and not any(up is u for u in ups):
                        ups.append(up)
                for up in ups:
                    up()

            def fa():
                self.shared(*self.call)
                self.shared.update()
            d = both(fa, fb, "trainer step + update")
        elif tok[0] == "ttrain":
            d = both(lambda: self.shared.train(tb(tok[1])), lambda: [t.train(tb(tok[1])) for t in self.solo.values()],
                     "trainer.train")
        elif tok[0] == "ltrain":
            d = both(lambda: self.A.train(tb(tok[1])), lambda: self.B.train(tb(tok[1])), "layer.train")
        elif tok[0] == "clear":
            d = both(lambda: self.shared.clear(), lambda: [t.clear() for t in self.solo.values()], "clear")
        else:
            raise AssertionError(op)
        return d or self.compare()

    def compare(self):
        def close(x, y):
            if not (torch.is_tensor(x) and torch.is_tensor(y)):
                return not torch.is_tensor(x) and not torch.is_tensor(y) and x == y
            return x.shape == y.shape and bool(torch.allclose(x, y, rtol=1e-6, atol=1e-7, equal_nan=True))
        show = lambda x: x if not torch.is_tensor(x) else [round(v, 6) for v in x.flatten().tolist()[:12]]
        for j in self.live:
            name = self.case["regs"][j][0]
            try:
                got = dict(self.shared.named_monitors_of(name))
                want = dict(self.solo[j].named_monitors_of(name))
            except Exception as e:  # noqa: BLE001
                return (f"listing the monitors of cell {name} raises", "a listing", f"{type(e).__name__}: {e}")
            if sorted(got) != sorted(want):
                return (f"monitor names of cell {name}", sorted(want), sorted(got))
            for mn in sorted(want):
                if got[mn].registered != want[mn].registered:
                    return (f"monitor {name}.{mn}: registered", want[mn].registered, got[mn].registered)
                for what, x, y in zip(("peek()", "dump()"), self.data(got[mn]), self.data(want[mn])):
                    if not close(x, y):
                        return (f"monitor {name}.{mn}: {what}", show(y), show(x))
        for (_, c, _) in self.r.pairs:
            wa, wb = self.A.connections_[f"c{c}"].weight, self.B.connections_[f"c{c}"].weight
            if not close(wa.detach().double(), wb.detach().double()):
                return (f"weights of connection c{c}", show(wb.detach().double()), show(wa.detach().double()))
        return None


def iso_run(case, classes):
    """first difference between the shared trainer and the per-cell trainers: (op index, what, expected, observed) or None;
    also whether anything was recorded"""
    run = IsoRun(case, classes[case["cls"]])
    recorded = False
    for i, op in enumerate(case["ops"]):
        d = run.step(op)
        if d is not None:
            return (i,) + d, recorded
        if op == "lstep" and not recorded:
            recorded = any(m.peek() is not None and bool(m.peek().abs().sum() > 0) for m in run.shared.monitors)
    return None, recorded


def iso_shrink(case, classes, max_tries=40):
    cur = dict(case)
    tries = 0
    changed = True
    while changed and tries < max_tries:
        changed = False
        nreg = len(cur["regs"])
        for i in range(len(cur["ops"]) - 1, nreg - 1, -1):
            cand = dict(cur, ops=cur["ops"][:i] + cur["ops"][i + 1:])
            tries += 1
            if tries > max_tries:
                break
            try:
                d, _ = iso_run(cand, classes)
            except Exception:  # noqa: BLE001
                continue
            if d is not None:
                cur, changed = dict(cand, ops=cand["ops"][: d[0] + 1]), True
                break
    return cur


def iso_stream(ctx, ex, thorough):
    rng = ctx.rng
    classes = iso_classes()
    cases = []
    for cname, info in classes.items():
        _, fkeys, choice, _ = info
        for k in list(fkeys) + list(choice):
            # the second cell overrides exactly this key: everything else about the two cells' monitors coincides
            # (once with cells that share their neuron group, once with cells that share their connection)
            for topo in ISO_TOPOS[:2]:
                cases.append(iso_case(rng, cname, info, override_keys=[k], lifecycle=False, nsteps=6, topo=topo))
        for _ in range(6 if not thorough else 40):
            cases.append(iso_case(rng, cname, info, nsteps=10))
    found = 0
    for case in cases:
        ex.count("isolation_twin_class", case["cls"])
        ex.count("isolation_twin_overrides", "+".join(sorted({k for _, _, o in case["regs"] for k in o})) or "none")
        ex.evaluations += len(case["ops"])
        d, recorded = iso_run(case, classes)
        if recorded:
            ex.nontriv(("twin", case["cls"], case["topo"], str(case["hyper"]), str(case["regs"]), tuple(case["ops"])))
        if d is None or found >= 3:
            continue
        found += 1
        small = iso_shrink(dict(case, ops=case["ops"][: d[0] + 1]), classes)
        d2, _ = iso_run(small, classes)
        d2 = d2 or d
        info = dict(small, index=d2[0], what=d2[1], expected=d2[2], observed=d2[3],
                    note=("twin run: `observed` = one trainer of class `cls` (hyperparameters `hyper`) holding every registration "
                          "of `regs` ([name, cell index in `topo`, per-cell keyword overrides]); `expected` = the same cell "
                          "registered alone with a trainer of its own (same hyperparameters and overrides) on an identical "
                          "twin of the layer fed the same inputs; ops: reg j / del j = register_cell / del_cell of regs[j], "
                          "lstep, tstep = trainer() + update(), ttrain / ltrain, clear"))
        ex.findings.append(Finding(
            kind="spec", key=KEY_ISO,
            what=(f"{small['cls']} on {small['topo']}: after op #{d2[0]} `{small['ops'][d2[0]]}` {d2[1]}: alone `{d2[2]}`, "
                  f"next to its neighbours `{d2[3]}`"),
            case=info))
    ex.extra["isolation_twin_classes"] = sorted(classes)
    return cases


def explore(ctx) -> Exploration:
    torch.set_default_dtype(torch.float32)
    ex = Exploration()
    rng = ctx.rng
    thorough = ctx.tier == "thorough" or ctx.intensify
    cases = corpus_cases()
    ncorpus = len(cases)
    scripted = scripted_cases()
    cases += scripted
    nfree = 520 if not thorough else 3000
    nprone = 120 if not thorough else 700
    free = [random_program(rng, False) for _ in range(nfree)]
    prone = [random_program(rng, True) for _ in range(nprone)]
    ntwo = 120 if not thorough else 700
    two = [random_program(rng, False, two_layers=True) for _ in range(ntwo)]
    sdeath = scripted_death_cases()
    ndeath = 110 if not thorough else 700
    death = [death_program(rng, two_layers=(i % 4 == 3)) for i in range(ndeath)]
    cases += free + prone + two + sdeath + death
    for c in cases:
        for l in c:
            t = l.split()
            ex.count("ops", t[0])
            if t[0] == "trainer":
                ex.count("trainer_class", t[2] if len(t) > 2 else t[1])
        ex.count("topology", c[0].split()[1])
        ex.count("program_length", str(10 * ((len(c) - 1) // 10)) + "+")
        ex.count("stream", ("cells-die-unremoved " if is_death(c) else "") +
                 ("two-layers-in-one-trainer " if cross_layer_prone(c) else "") +
                 ("D18-prone" if d18_prone(c) else "D18-free"))
        if is_death(c):
            ex.count("reregistration_after_cell_death", reregistration_kind(c))
    run_cases(ctx, cases, ex)
    dead_layer_probe(ex)
    iso = iso_stream(ctx, ex, thorough)
    ex.rule = ("cases = corpus + 4 scripted scenarios (D17: deleting one of two cells that share pooled monitors, on shared neuron "
               "and on shared connection; D18: second trainer on a cell, then its deletion) + seeded random programs (length <= 40) "
               "over the ten operations with 1-3 trainers (STDP, MSTDP, MSTDPET) on Biclique layers with 2-4 cells sharing "
               "neurons and/or connections, and (third stream) on TWO layers with equal connection / neuron names whose cells one "
               "trainer may register side by side; the D18-free stream never lets a cell used by an MSTDPET registration be registered a "
               "second time, the D18-prone stream does; 3% of trainer-addressed ops name a dropped / never-created trainer; a case "
               "is non-trivial when some monitor recorded at least one observation; distinct = distinct protocol text; "
               "(fourth stream, cells-die-unremoved) D18-free programs with two more real-side operations — `relayer l`: the "
               "layer is dropped and collected WITHOUT del_cell and a fresh layer takes its slot, `recell c`: a custom Layer "
               "deletes one cell, it is collected, the layer re-creates it — after which cells are registered again, three "
               "times out of four under a name a dead cell had; the driver sees del_cell for every registration of a dead "
               "cell, the real trainer's listings are restricted to still-registered cells; "
               "(fifth stream, isolation twin — judged by a twin run, not by the driver) for every shipped IndependentCellTrainer "
               "whose constructor takes only learning rates / time constants (STDP, StableSTDP, TripletSTDP, StableTripletSTDP, "
               "MSTDP, MSTDPET): one trainer holding 2-4 cells of a Biclique, registered with per-cell keyword overrides (every "
               "hyperparameter key alone, on cells sharing their neuron group and on cells sharing their connection; random "
               "pairs; opposite-sign learning rates; trace_mode / inplace), against one trainer PER CELL on an identically built "
               "twin layer fed the same inputs; after every op (lstep, trainer() + update(), train/eval of trainer and layer, "
               "clear, del_cell + later re-registration) every monitor's peek() / dump(), its registered flag, the success of "
               "the trainer step and the connection weights must agree")
    ex.samples = [scripted[0], free[0], prone[0], sdeath[0], death[0]]
    ex.extra["streams"] = {"corpus": ncorpus, "scripted": len(scripted), "random_D18_free": len(free),
                           "random_D18_prone": len(prone), "random_two_layers": len(two),
                           "scripted_cells_die_unremoved": len(sdeath), "random_cells_die_unremoved": len(death),
                           "isolation_twin": len(iso)}
    ex.extra["model_layer_filter"] = LAYER_FILTER
    return ex


def replay(ctx, data) -> int:
    fi = data.get("failing_input") or data
    if isinstance(fi, dict) and fi.get("twin"):
        torch.set_default_dtype(torch.float32)
        d, _ = iso_run(fi, iso_classes())
        print("DISAGREEMENT" if d else "agrees", d or "")
        return 1 if d else 0
    case = data.get("failing_input", {}).get("ops") or data.get("ops")
    if not case:
        print("replay file has no op sequence (proof/tie breakage without failing input):", data.get("broken"))
        return 1
    real = seqcheck.exec_real(Real, case)
    resp = drive(ctx, [case])[0]
    for l, r, d in zip(case, real, resp):
        print(f"{l}\n    real: {r[0]}\n    lean: {d}")
    d = compare_case(case, real, resp)
    print("DISAGREEMENT" if d else "agrees", d or "", key_of(case, d) if d else "")
    return 1 if d else 0
