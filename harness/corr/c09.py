"""C09 — every trainer's LTP / LTD split: correspondence with the Lean routing tables + search.

Real side: every exported trainer (`inferno/learn/__init__.py`) registered on a small real layer
(`LinearDense(3 -> 2)`, `LinearDirect(3)` or a small `Conv2D` - kernel weights shared by several
synaptic pairs - with bias and learnable delays + `ExactNeuron` whose spikes are forced), stepped through seeded spike histories; after every `trainer()` call the
accumulators `cell.updater.<param>.pos / .neg` are read.

Tie: the magnitudes the trainer routes (`dpost`, `dpre`, the signed kernel outputs, the signed
homeostatic term `k`) are recomputed from the trainer's monitors exactly as `forward` computes
them; the routing / clamp split is then done by `lean/drivers/C09.lean` (the hand transcription
`Model/Split.lean` the theorems are about) and compared with what the real trainer handed to the
updater.  The learning-rate sign flags are computed here from the configuration, not taken from
the code.  The driver also prints the SPECIFICATION: the signed rule `sgn·x + sgn·y` which
`pos − neg` must equal, and `nonneg=T`.

Numbers: float64 throughout (`torch.set_default_dtype`), values cross as IEEE bit patterns,
compared to 1e-12 relative (the routing itself is one `+`; reductions may associate differently).
"""
from __future__ import annotations

import gc
import math
import struct
import weakref
from itertools import repeat

import einops as ein
import torch

import inferno
import inferno.learn as L
from inferno.extra import ExactNeuron
import inferno.functional as F
from inferno.functional import exp_stdp_post_kernel, exp_stdp_pre_kernel
from inferno.neural import Conv2D, DeltaCurrent, LinearDense, LinearDirect, Serial

from runner import Exploration, Finding

SPEC = {
    "prop": "C09",
    "lean_targets": ["InfernoVerif.Props.C09", "InfernoVerif.Props.C09Glue", "InfernoVerif.Props.C18GlueProg", "InfernoVerif.Model.Split", "InfernoVerif.Drv.Proto"],
    "prop_files": ["InfernoVerif/Props/C09.lean", "InfernoVerif/Props/C09Glue.lean", "InfernoVerif/Props/C18GlueProg.lean"],
    "translate": ["Routes", "DelaySTDPProg"],
    "driver_targets": ["InfernoVerif.Model.Split", "InfernoVerif.Drv.Proto"],
    "lemma_files": ["InfernoVerif/Lemmas/Split.lean"],
    "model_files": ["InfernoVerif/Model/Split.lean"],
    "driver": "drivers/C09.lean",
    "assumptions": [
        "the magnitudes a trainer routes (traces x spikes, kernel outputs, the homeostatic term) are taken from the trainer's own monitors, recomputed with the expressions of `forward`; that they equal the documented sums over spike pairs is C08 / C18, that traces with |lr| amplitudes are non-negative is C07",
        "routing tables, their match subjects and the clamp splits in Model/Split.lean are hand-written AND proved equal (Props/C09Glue.lean) to Gen/Routes.lean, which harness/sites.py regenerates on every run from the match statements / updater assignments inside each trainer's forward; how the routed magnitudes are computed (einsum, batch reduction, per-sample partition) is tied by differential execution only",
        "theorems over the reals; comparison in float64 to 1e-12 relative",
        "homeostasis: the FULL statement (depressive part >= 0, net = k) is false for the code (known finding D9, key C09:homeostasis:neg-part-sign); proved: the potentiating half and the negation witness",
        "bounded updates: the accumulator is configured with the library's multiplicative / power (exponent 2) half and full bounding functions; the expected applied change upper(pos) - lower(neg) is a closed form written in the check ((ub - w)^k * pos - (w - lb)^k * neg), compared in float64 to 1e-12 relative; other bounding functions (scaled, sharp) are not exercised",
        "sign-insensitive hyperparameters (TripletSTDP's triplet rates): checked by a twin cell registered with the absolute values and by the non-negativity of the parts; the magnitudes themselves are still recomputed from the trainer's monitors",
        "layers: LinearDense(3->2), LinearDirect(3) (receptive axis of length 1) and small Conv2D geometries (every kernel weight shared by 2..10 output positions; strides, zero padding, 1-2 channels / filters); batch sizes 1..3; device CPU",
        "kernel arguments as tensors: 0-d tensors and per-synapse learning rates of one sign per side (shape of the parameter + a trailing singleton), with the library's exponential kernels only",
        "cells that die without del_cell: the owning layer is dropped and gc.collect() is called; only the case where an EARLIER-registered cell dies is generated (one or two survivors)",
        "kernel trainers: besides the tie, the parts are compared with a closed form written in the check: the documented rule K_post(t)[t >= 0] + K_pre(t)[t < 0], t = t_post - t_pre - d, evaluated pair by pair from the spike history with the exponential kernels, positive contributions summed into the potentiating part and negative ones into the depressing part (1e-9 relative); applies to sum / mean batch reductions and presynaptic times taken at the synapse input (KernelSTDP with delayed views and amax reductions are covered by the tie only); the pair geometry of each connection is written in the check from its documentation",
    ],
}
DRIVER = "drivers/C09.lean"
TOL = 1e-12
KNOWN_D9 = "C09:homeostasis:neg-part-sign"
RED = {"sum": torch.sum, "mean": torch.mean, "amax": torch.amax}


def f2hex(x: float) -> str:
    return struct.pack(">d", float(x)).hex()


def hex2f(s: str) -> float:
    return struct.unpack(">d", bytes.fromhex(s))[0]


def hexs(t) -> str:
    return ",".join(f2hex(x) for x in t.detach().to(torch.float64).reshape(-1).tolist())


def hexn(t) -> str:
    return ",".join("nan" if x != x else f2hex(x) for x in t.detach().to(torch.float64).reshape(-1).tolist())


def part_s(p) -> str:
    return "None" if p is None else hexs(p)


def vec_close(a: str, b: str) -> bool:
    if a == b:
        return True
    if a in ("None", "-", "nonuniform") or b in ("None", "-", "nonuniform"):
        return False
    xa, xb = a.split(","), b.split(",")
    if len(xa) != len(xb):
        return False
    for s, t in zip(xa, xb):
        if s == t:
            continue
        x, y = hex2f(s), hex2f(t)
        if x != x and y != y:
            continue
        if not abs(x - y) <= TOL * max(1.0, abs(x), abs(y)):
            return False
    return True


def view_close(a: str, b: str) -> bool:
    """views are `key=vec key=vec …`"""
    ta, tb = a.split(), b.split()
    if len(ta) != len(tb):
        return False
    for x, y in zip(ta, tb):
        kx, vx = x.split("=", 1)
        ky, vy = y.split("=", 1)
        if kx != ky:
            return False
        if vx == "-" or vy == "-":      # the specification has no closed form here (non-additive batch reduction)
            continue
        if vx in ("T", "F") or vy in ("T", "F"):
            if vx != vy:
                return False
            continue
        if not vec_close(vx, vy):
            return False
    return True


# ---------------------------------------------------------------------------------------------
# real side

def geom(cfg):
    """(input shape, output shape, shape of weight / delay) of the layer of a configuration, batch axis excluded; written
    from the documented geometry of the connections, not read off the constructed object"""
    kind = cfg["layer"]
    if kind == "dense":
        return (3,), (2,), (2, 3)
    if kind == "direct":
        return (3,), (3,), (3,)
    g = cfg["conv"]
    oh = (g["h"] + 2 * g["ph"] - g["kh"]) // g["sh"] + 1
    ow = (g["w"] + 2 * g["pw"] - g["kw"]) // g["sw"] + 1
    return (g["ch"], g["h"], g["w"]), (g["f"], oh, ow), (g["f"], g["ch"], g["kh"], g["kw"])


def prod(shape):
    n = 1
    for d in shape:
        n *= d
    return n


def nin(cfg):
    return prod(geom(cfg)[0])


def nout(cfg):
    return prod(geom(cfg)[1])


def nweights(cfg):
    return prod(geom(cfg)[2])


def synaptic_pairs(cfg):
    """every synaptic pair of the layer as (flat index of the weight / delay it belongs to, flat index of the presynaptic
    input element, flat index of the postsynaptic output element).  LinearDense: one pair per weight; LinearDirect: one pair
    per weight; Conv2D: kernel weight (f, c, u, v) is SHARED by one pair per output position (oy, ox): input element
    (c, oy * sh + u - ph, ox * sw + v - pw) (positions in the zero padding carry no input, hence no pair) and output element
    (f, oy, ox)"""
    kind = cfg["layer"]
    if kind == "dense":
        return [(o * 3 + i, i, o) for o in range(2) for i in range(3)]
    if kind == "direct":
        return [(i, i, i) for i in range(3)]
    g = cfg["conv"]
    (_, H, W), (_, oh, ow), (_, C, kh, kw) = geom(cfg)
    out = []
    for f in range(g["f"]):
        for c in range(C):
            for u in range(kh):
                for v in range(kw):
                    e = ((f * C + c) * kh + u) * kw + v
                    for oy in range(oh):
                        for ox in range(ow):
                            y, x = oy * g["sh"] + u - g["ph"], ox * g["sw"] + v - g["pw"]
                            if 0 <= y < H and 0 <= x < W:
                                out.append((e, (c * H + y) * W + x, (f * oh + oy) * ow + ox))
    return out


def make_layer(cfg, B, biased=True, delay=3.0):
    kind = cfg["layer"]
    syn = DeltaCurrent.partialconstructor(1.0)
    if kind == "dense":
        c = LinearDense((3,), (2,), 1.0, synapse=syn, delay=delay, bias=biased, batch_size=B)
    elif kind == "direct":
        c = LinearDirect((3,), 1.0, synapse=syn, delay=delay, bias=biased, batch_size=B)
    else:
        g = cfg["conv"]
        c = Conv2D(g["h"], g["w"], g["ch"], g["f"], 1.0, (g["kh"], g["kw"]), stride=(g["sh"], g["sw"]),
                   padding=(g["ph"], g["pw"]), synapse=syn, delay=delay, bias=biased, batch_size=B)
    if tuple(c.inshape) != geom(cfg)[0] or tuple(c.outshape) != geom(cfg)[1] or tuple(c.weight.shape) != geom(cfg)[2]:
        raise RuntimeError(f"layer geometry of {kind} is not the documented one: {c.inshape} {c.outshape} {tuple(c.weight.shape)}")
    n = ExactNeuron(tuple(c.outshape), 1.0, rest_v=-60.0, thresh_v=-45.0, batch_size=B)
    c.updater = c.defaultupdater()
    return Serial(c, n)


def b(x):
    return "T" if x else "F"


def kernel_kwargs(cfg, side):
    """keyword arguments of the post / pre kernel of a kernel trainer.  `kw_tensor` (a documented feature: kernel arguments may
    be tensors) gives the arguments of the sides listed in `kw_sides` as TENSORS: `scalar` = 0-d tensors, `persynapse` = one
    learning rate per weight / delay (`lr_scale` times the side's rate, same sign everywhere), shaped like the parameter with a
    trailing singleton so that it broadcasts over the batch and the receptive axis; `tc_tensor`: the time constant as well"""
    lr, tc = (cfg["lr_a"], cfg["tc_a"]) if side == "post" else (cfg["lr_b"], cfg["tc_b"])
    mode = cfg.get("kw_tensor")
    if mode and side in cfg.get("kw_sides", ("post", "pre")):
        if mode == "persynapse":
            lr = lr * torch.tensor(cfg["lr_scale"][: nweights(cfg)], dtype=torch.float64).reshape(*geom(cfg)[2], 1)
        else:
            lr = torch.tensor(lr, dtype=torch.float64)
        if cfg.get("tc_tensor"):
            tc = torch.tensor(tc, dtype=torch.float64)
    return {"learning_rate": lr, "time_constant": tc}


def synapse_rate(cfg, side, e):
    """the learning rate of weight / delay `e` on one side (a float, whatever way the argument is handed to the trainer)"""
    lr = cfg["lr_a"] if side == "post" else cfg["lr_b"]
    if cfg.get("kw_tensor") == "persynapse" and side in cfg.get("kw_sides", ("post", "pre")):
        return lr * cfg["lr_scale"][e]
    return lr


def build_trainer(cfg):
    f, red = cfg["family"], RED[cfg["red"]]
    a, c = cfg["lr_a"], cfg["lr_b"]
    if f == "STDP":
        return L.STDP(lr_post=a, lr_pre=c, tc_post=cfg["tc_a"], tc_pre=cfg["tc_b"], delayed=cfg["delayed"],
                      trace_mode=cfg["trace"], batch_reduction=red)
    if f == "TripletSTDP":
        return L.TripletSTDP(lr_post_pair=a, lr_post_triplet=cfg["lr_a3"], lr_pre_pair=c, lr_pre_triplet=cfg["lr_b3"],
                             tc_post_fast=cfg["tc_a"], tc_post_slow=2 * cfg["tc_a"], tc_pre_fast=cfg["tc_b"],
                             tc_pre_slow=2 * cfg["tc_b"], delayed=cfg["delayed"], trace_mode=cfg["trace"],
                             batch_reduction=red)
    if f == "MSTDP":
        return L.MSTDP(lr_post=a, lr_pre=c, tc_post=cfg["tc_a"], tc_pre=cfg["tc_b"], delayed=cfg["delayed"],
                       trace_mode=cfg["trace"], batch_reduction=red)
    if f == "MSTDPET":
        return L.MSTDPET(lr_post=a, lr_pre=c, tc_post=cfg["tc_a"], tc_pre=cfg["tc_b"], tc_eligibility=15.0,
                         trace_mode=cfg["trace"], batch_reduction=red)
    kk = dict(kernel_post=exp_stdp_post_kernel, kernel_pre=exp_stdp_pre_kernel,
              kernel_post_kwargs=kernel_kwargs(cfg, "post"), kernel_pre_kwargs=kernel_kwargs(cfg, "pre"), batch_reduction=red)
    if f == "KernelSTDP":
        return L.KernelSTDP(delayed=cfg["delayed"], **kk)
    if f == "DelayAdjustedKernelSTDP":
        return L.DelayAdjustedKernelSTDP(**kk)
    if f == "DelayAdjustedKernelSTDPD":
        return L.DelayAdjustedKernelSTDPD(**kk)
    if f == "DelayAdjustedSTDP":
        return L.DelayAdjustedSTDP(lr_pos=a, lr_neg=c, tc_pos=cfg["tc_a"], tc_neg=cfg["tc_b"], batch_reduction=red)
    if f == "DelayAdjustedSTDPD":
        return L.DelayAdjustedSTDPD(lr_neg=a, lr_pos=c, tc_neg=cfg["tc_a"], tc_pos=cfg["tc_b"], batch_reduction=red)
    if f == "DelayAdjustedMSTDP":
        return L.DelayAdjustedMSTDP(lr_pos=a, lr_neg=c, tc_pos=cfg["tc_a"], tc_neg=cfg["tc_b"], batch_reduction=red)
    if f == "DelayAdjustedMSTDPD":
        return L.DelayAdjustedMSTDPD(lr_neg=a, lr_pos=c, tc_neg=cfg["tc_a"], tc_pos=cfg["tc_b"], batch_reduction=red)
    if f == "LinearHomeostasis":
        return L.LinearHomeostasis(plasticity=a, target=cfg["target"], param=cfg["param"], batch_reduction=red)
    raise AssertionError(f)


THREE_FACTOR = ("MSTDP", "MSTDPET", "DelayAdjustedMSTDP", "DelayAdjustedMSTDPD")
KERNEL = ("KernelSTDP", "DelayAdjustedKernelSTDP", "DelayAdjustedKernelSTDPD")


def target_param(cfg):
    f = cfg["family"]
    if f == "LinearHomeostasis":
        return cfg["param"]
    return "delay" if f.endswith("STDPD") else "weight"


def signal_of(cfg, B, step=0):
    """reward passed to a three-factor trainer at `step`: a float, or a tensor of per-sample rewards
    (`signal_seq`: one reward vector per step, else the constant `signal`)"""
    sig = cfg["signal_seq"][step] if cfg.get("signal_seq") else cfg["signal"]
    if cfg.get("signal_kind") == "tensor":
        return torch.tensor(sig[:B], dtype=torch.float64)
    return float(sig[0])


def rows_s(t):
    """B x E tensor -> `sample|sample`"""
    return "|".join(hexs(t[i]) for i in range(t.shape[0]))


def request_line(cfg, layer, unit, signal=None):
    """the driver request for the CURRENT monitor state: the magnitudes as `forward` computes them
    from the monitors + the sign flags computed from the configuration"""
    f = cfg["family"]
    conn, mon, state = layer.connection, unit.monitors, unit.state
    red = RED[cfg["red"]]
    a, c = cfg["lr_a"], cfg["lr_b"]
    B = conn.batchsz
    delayed = bool(cfg.get("delayed")) and bool(conn.delayedby)

    def recv_pre(m):
        return conn.presyn_receptive(m.view(conn.selector, state.tolerance) if delayed else m.peek())

    if f in ("STDP", "MSTDP"):
        x_post = conn.postsyn_receptive(mon["trace_post"].peek())
        x_pre = recv_pre(mon["trace_pre"])
        i_post = conn.postsyn_receptive(mon["spike_post"].peek())
        i_pre = recv_pre(mon["spike_pre"])
        dpost_b = ein.einsum(i_post, x_pre, "b ... r, b ... r -> b ...")
        dpre_b = ein.einsum(i_pre, x_post, "b ... r, b ... r -> b ...")
        if f == "STDP":
            return f"route stdp {b(a >= 0)} {b(c >= 0)} {hexs(red(dpost_b, 0))} {hexs(red(dpre_b, 0))}"
        return three_factor_line("mstdp", cfg, B, red, dpost_b, dpre_b, a, c, False, signal)
    if f == "TripletSTDP":
        y_a = conn.postsyn_receptive(mon["trace_post_fast"].peek())
        x_a = recv_pre(mon["trace_pre_fast"])
        y_b = mon["trace_post_slow"].reducer.data_.read(2)
        x_b = (mon["trace_pre_slow"].reducer.data_.select(conn.selector, mon["trace_pre_slow"].reducer.interpolate,
                                                          tolerance=state.tolerance, offset=2)
               if delayed else mon["trace_pre_slow"].reducer.data_.read(2))
        y = mon["spike_post"].peek()
        x = mon["spike_pre"].view(conn.selector, state.tolerance) if delayed else mon["spike_pre"].peek()
        y = conn.postsyn_receptive((1.0 + y_b) * y)
        x = conn.presyn_receptive((1.0 + x_b) * x)
        dpost = red(ein.einsum(y, x_a, "b ... r, b ... r -> b ..."), 0)
        dpre = red(ein.einsum(x, y_a, "b ... r, b ... r -> b ..."), 0)
        return f"route triplet {b(a >= 0)} {b(c >= 0)} {hexs(dpost)} {hexs(dpre)}"
    if f == "MSTDPET":
        return three_factor_line("mstdp", cfg, B, red, mon["elig_post"].peek(), mon["elig_pre"].peek(), a, c, False, signal)
    if f == "LinearHomeostasis":
        target = cfg["target"]
        k = conn.postsyn_receptive((target - mon["spike_rate"].peek()) / target).mean(dim=-1)
        k = k * (-a if cfg["param"] == "delay" else a)
        return f"homeo {cfg['red']} {rows_s(k.reshape(k.shape[0], -1))}"
    # spike-time based trainers
    t_post = conn.postsyn_receptive(mon["spike_post"].peek())
    if f == "KernelSTDP":
        t_pre = recv_pre(mon["spike_pre"])
        t_delta = t_pre - t_post
    else:
        t_pre = conn.presyn_receptive(mon["spike_pre"].peek())
        t_delta = t_pre - t_post - conn.delay.unsqueeze(-1)
    if f in KERNEL:
        dpost = exp_stdp_post_kernel(t_delta, **kernel_kwargs(cfg, "post"))
        dpre = exp_stdp_pre_kernel(t_delta, **kernel_kwargs(cfg, "pre"))
        return f"kernel {cfg['red']} {tensor_s(dpost)} {tensor_s(dpre)}"
    if f in ("DelayAdjustedSTDP", "DelayAdjustedSTDPD", "DelayAdjustedMSTDP", "DelayAdjustedMSTDPD"):
        ta = t_delta.abs()
        # the part with t_delta >= 0 uses (lr_a, tc_a), the part with t_delta < 0 uses (lr_b, tc_b): in every one of
        # the four classes the first constructor argument pair belongs to the `t_delta >= 0` term
        ge = (torch.exp(ta / (-cfg["tc_a"])) * (abs(a) * (t_delta >= 0).to(dtype=ta.dtype))).nansum(-1)
        lt = (torch.exp(ta / (-cfg["tc_b"])) * (abs(c) * (t_delta < 0).to(dtype=ta.dtype))).nansum(-1)
        if f == "DelayAdjustedSTDP":       # dpos = ge (lr_pos = a), dneg = lt (lr_neg = c)
            return f"route dastdp {b(a >= 0)} {b(c >= 0)} {hexs(red(ge, 0))} {hexs(red(lt, 0))}"
        if f == "DelayAdjustedSTDPD":      # dneg = ge (lr_neg = a), dpos = lt (lr_pos = c); flags (lr_neg < 0, lr_pos < 0)
            return f"route dastdpd {b(a < 0)} {b(c < 0)} {hexs(red(lt, 0))} {hexs(red(ge, 0))}"
        if f == "DelayAdjustedMSTDP":      # dpost = ge (lr_pos = a), dpre = lt (lr_neg = c)
            return three_factor_line("damstdp", cfg, B, red, ge, lt, a, c, False, signal)
        return three_factor_line("damstdpd", cfg, B, red, ge, lt, a, c, True, signal)   # dpost = ge (lr_neg = a), dpre = lt (lr_pos = c)
    raise AssertionError(f)


def tensor_s(t):
    """B x ... x R tensor -> `sample|…` of `receptive;…` of element vectors (NaN = `nan`)"""
    B, R = t.shape[0], t.shape[-1]
    t2 = t.reshape(B, -1, R)
    return "|".join(";".join(hexn(t2[i, :, r]) for r in range(R)) for i in range(B))


def three_factor_line(tag, cfg, B, red, dpost_b, dpre_b, a, c, lt, signal):
    # the sign flags come from the rates and the reward ONLY; `scale` enters through |signal * scale|
    scale = cfg["scale"]
    if isinstance(signal, torch.Tensor):
        ss = (signal * scale).abs().view(-1, *repeat(1, dpost_b.ndim - 1))
        x, y = dpost_b * ss, dpre_b * ss
        signs = "".join("+" if s >= 0 else "-" for s in signal.tolist())
        fa, fb = (a < 0, c < 0) if lt else (a >= 0, c >= 0)
        return (f"routeT {tag} {b(fa)} {b(fb)} {cfg['red']} {signs} {rows_s(x.reshape(B, -1))} "
                f"{rows_s(y.reshape(B, -1))}")
    if tag == "mstdp":
        # MSTDP / MSTDPET scalar branch: the rates, the reward and the scale themselves are sent; the flags
        # `lr * signal >= 0` and the factor |signal * scale| are computed by `mstdp_forward_scalar` in Lean
        return (f"mstdp3 {f2hex(a)} {f2hex(c)} {f2hex(signal)} {f2hex(scale)} {hexs(red(dpost_b, 0))} "
                f"{hexs(red(dpre_b, 0))}")
    x = red(dpost_b, 0) * abs(signal * scale)
    y = red(dpre_b, 0) * abs(signal * scale)
    fa, fb = (a * signal < 0, c * signal < 0) if lt else (a * signal >= 0, c * signal >= 0)
    return f"route {tag} {b(fa)} {b(fb)} {hexs(x)} {hexs(y)}"


def real_views(acc, like):
    pos, neg = acc.pos, acc.neg
    m = f"pos={part_s(pos)} neg={part_s(neg)}"
    p = pos.detach() if pos is not None else torch.zeros_like(like)
    n = neg.detach() if neg is not None else torch.zeros_like(like)
    nonneg = bool((p >= 0).all()) and bool((n >= 0).all())
    return m, f"net={hexs(p - n)} nonneg={b(nonneg)}", (p - n).reshape(-1)


class TrainerRaised(Exception):
    pass


def override_kwargs(cfg):
    """per-cell hyperparameter overrides for `register_cell` (documented feature)"""
    f, a, c = cfg["family"], cfg["lr_a"], cfg["lr_b"]
    if f in ("STDP", "MSTDP", "MSTDPET"):
        return {"lr_post": a, "lr_pre": c}
    if f == "TripletSTDP":
        # the triplet rates can be overridden per cell as well; their sign is documented not to matter (|.| is taken)
        return {"lr_post_pair": a, "lr_pre_pair": c, "lr_post_triplet": cfg["lr_a3"], "lr_pre_triplet": cfg["lr_b3"]}
    if f in ("DelayAdjustedSTDP", "DelayAdjustedMSTDP"):
        return {"lr_pos": a, "lr_neg": c}
    if f in ("DelayAdjustedSTDPD", "DelayAdjustedMSTDPD"):
        return {"lr_neg": a, "lr_pos": c}
    if f in KERNEL:
        return {"kernel_post_kwargs": kernel_kwargs(cfg, "post"), "kernel_pre_kwargs": kernel_kwargs(cfg, "pre")}
    if f == "LinearHomeostasis":
        return {"plasticity": a, "target": cfg["target"]}       # each cell keeps its OWN default target
    raise AssertionError(f)


def cell_cfgs(cfg):
    """the trainer's cells: one registered with the trainer defaults and, if `override` is given,
    a second one registered with per-cell learning rates (`override` = {lr_a, lr_b})"""
    out = [dict(cfg, cell="default")]
    if cfg.get("override"):
        out.append(dict(cfg, cell="override", **cfg["override"]))
        if cfg.get("abs_twin"):
            # a third cell registered with the ABSOLUTE VALUES of the sign-insensitive overrides (`abs_twin` names them):
            # it must be handed exactly the parts of the second cell
            ov = dict(cfg["override"])
            for k in cfg["abs_twin"]:
                ov[k] = abs(ov[k])
            out.append(dict(cfg, cell="override-abs", **ov))
    if cfg.get("cell_order") == "reversed":      # the cells with per-cell rates are registered BEFORE the one with the defaults
        out.reverse()
    return out


# ---------------------------------------------------------------------------------------------
# bounding configured on the accumulator of the trained parameter: `bound` = {mode, fn, ub, lb}
#   mode half-both / half-upper / half-lower: `upperbound(...)` and / or `lowerbound(...)`; full: `fullbound(...)`
#   fn   mult: (ub - w) * pos, (w - lb) * neg;  pow2: (ub - w)^2 * pos, (w - lb)^2 * neg

BOUND_MODES = ["half-both", "half-upper", "half-lower", "full"]


def configure_bound(acc, bd):
    mode, fn, ub, lb = bd["mode"], bd["fn"], bd["ub"], bd["lb"]
    if mode == "full":
        if fn == "mult":
            acc.fullbound(F.bound_multiplicative, ub, lb)
        else:
            acc.fullbound(F.bound_power, ub, lb, upper_power=2.0, lower_power=2.0)
        return
    if mode in ("half-both", "half-upper"):
        if fn == "mult":
            acc.upperbound(F.bound_upper_multiplicative, ub)
        else:
            acc.upperbound(F.bound_upper_power, ub, power=2.0)
    if mode in ("half-both", "half-lower"):
        if fn == "mult":
            acc.lowerbound(F.bound_lower_multiplicative, lb)
        else:
            acc.lowerbound(F.bound_lower_power, lb, power=2.0)


def bounded_change(bd, w, pos, neg):
    """closed form of the applied change: potentiation scaled by the UPPER-bound function minus depression scaled by the
    LOWER-bound function (a side with no bound configured is taken as it is)"""
    if bd is None:
        return pos - neg
    k = 1 if bd["fn"] == "mult" else 2
    up = ((bd["ub"] - w) ** k) * pos if bd["mode"] in ("half-both", "half-upper", "full") else pos
    lo = ((w - bd["lb"]) ** k) * neg if bd["mode"] in ("half-both", "half-lower", "full") else neg
    return up - lo


PAIR_TOL = 1e-9


def pair_oracle_applies(cfg):
    """the pair-by-pair closed form is written for the kernel trainers with the exponential kernels, additive batch
    reductions, and presynaptic times taken at the synapse input (KernelSTDP with `delayed` views is left to the tie)"""
    return (cfg["family"] in KERNEL and cfg["red"] in ("sum", "mean") and not cfg.get("delayed")
            and not (cfg["family"] == "KernelSTDP" and cfg.get("delays")))


def pair_parts(ccfg, last_pre, last_post):
    """the documented rule of the kernel trainers evaluated pair by pair from the SPIKE HISTORY (independent of the trainer's
    monitors and of the connection's receptive reshaping): every synaptic pair whose two neurons have fired contributes the
    signed value  K_post(t) [t >= 0] + K_pre(t) [t < 0],  t = t_post - t_pre - d  (d = the learned delay of the pair's
    synapse for the delay-adjusted trainers, 0 for KernelSTDP, whose delays are all zero here), with
    K_post(t) = lr_post exp(-|t| / tc_post), K_pre(t) = lr_pre exp(-|t| / tc_pre).  The potentiating part of a parameter is
    the sum of its POSITIVE pair contributions, the depressing part the sum of the magnitudes of its NEGATIVE ones (per
    sample, then reduced over the batch by sum / mean).  -> (pos, neg) flat tensors, one entry per weight / delay"""
    B, ne = ccfg["B"], nweights(ccfg)
    a, c, tca, tcb = ccfg["lr_a"], ccfg["lr_b"], ccfg["tc_a"], ccfg["tc_b"]
    adjusted = ccfg["family"] != "KernelSTDP"
    delays = ccfg.get("delays") if adjusted else None
    pos = [[0.0] * ne for _ in range(B)]
    neg = [[0.0] * ne for _ in range(B)]
    for smp in range(B):
        for (e, i, j) in synaptic_pairs(ccfg):
            tpre, tpost = last_pre[smp][i], last_post[smp][j]
            if tpre is None or tpost is None:
                continue
            t = float(tpost - tpre) - (delays[e] if delays else 0.0)
            val = (synapse_rate(ccfg, "post", e) * math.exp(-abs(t) / tca) if t >= 0
                   else synapse_rate(ccfg, "pre", e) * math.exp(-abs(t) / tcb))
            if val >= 0:
                pos[smp][e] += val
            else:
                neg[smp][e] -= val
    red = torch.sum if ccfg["red"] == "sum" else torch.mean
    return red(torch.tensor(pos, dtype=torch.float64), 0), red(torch.tensor(neg, dtype=torch.float64), 0)


def pair_mismatch(cfg, rec):
    """None, or the finding triple when the parts handed to the updater are not the pair-by-pair sums of `pair_parts`"""
    if rec.get("pairs") is None:
        return None
    want_p, want_n = rec["pairs"]
    got_p, got_n = rec["parts"]

    def close(x, y):
        return x.shape == y.shape and bool(((x - y).abs() <= PAIR_TOL * torch.maximum(torch.ones_like(x), torch.maximum(x.abs(), y.abs()))).all())

    if close(got_p, want_p) and close(got_n, want_n):
        return None
    return ("spec", f"C09:pairs:{fam_key(cfg)}",
            f"{cfg['family']} on {layer_s(cfg)} step {rec['step']} (cell {rec['cell']}): handed potentiating part {got_p.tolist()} and depressing part "
            f"{got_n.tolist()}; summed pair by pair over the spike history, the positively signed contributions are {want_p.tolist()} and the "
            f"negatively signed ones {want_n.tolist()} (batch reduction {cfg['red']})")


def layer_s(cfg):
    if cfg["layer"] != "conv":
        return {"dense": "LinearDense(3->2)", "direct": "LinearDirect(3)"}[cfg["layer"]]
    g = cfg["conv"]
    return (f"Conv2D({g['ch']}x{g['h']}x{g['w']}, {g['f']} filters, kernel {g['kh']}x{g['kw']}, stride {g['sh']}x{g['sw']}, "
            f"padding {g['ph']}x{g['pw']}; {prod(geom(cfg)[1][1:])} output positions share each kernel weight)")


def run_case(cfg):
    """-> list of records {line, m, s, net, step, cell[, delta]}: one per trainer call and cell"""
    B, kind = cfg["B"], cfg["layer"]
    trainer = build_trainer(cfg)
    pname = target_param(cfg)
    cells = []
    for ccfg in cell_cfgs(cfg):
        layer = make_layer(cfg, B)
        if cfg.get("delays"):
            layer.connection.delay = torch.tensor(cfg["delays"], dtype=torch.float64).reshape(layer.connection.delay.shape)
        kw = override_kwargs(ccfg) if ccfg["cell"] != "default" else {}
        if cfg.get("param_init"):
            cur = getattr(layer.connection, pname)
            setattr(layer.connection, pname,
                    torch.tensor(cfg["param_init"][: cur.numel()], dtype=torch.float64).reshape(cur.shape))
        if cfg.get("bound"):
            configure_bound(getattr(layer.connection.updater, pname), cfg["bound"])
        try:
            unit = trainer.register_cell(ccfg["cell"], layer.cell, **kw)
        except Exception as e:
            raise TrainerRaised(f"register_cell({', '.join(f'{k}={v}' for k, v in kw.items())}) raised {type(e).__name__}: {e}") from e
        cells.append((ccfg, layer, unit))
    recs = []
    last_pre = [[None] * nin(cfg) for _ in range(B)]
    last_post = [[None] * nout(cfg) for _ in range(B)]
    drop = set(cfg.get("drop") or [])
    for step, (pre, post) in enumerate(cfg["history"]):
        if drop and step == cfg.get("drop_at", 0):
            # the layers owning the cells named in `drop` go away WITHOUT trainer.del_cell (a trainer only holds weak references
            # to its cells; the layer owns them): every surviving cell must still be trained with its own hyperparameters
            dead = [weakref.ref(u.cell) for cc, _l, u in cells if cc["cell"] in drop]
            cells = [t for t in cells if t[0]["cell"] not in drop]
            ccfg = layer = unit = _u = acc = None
            gc.collect()
            if any(r() is not None for r in dead):
                raise RuntimeError("a dropped layer's cell is still alive after gc.collect(): the harness holds a reference to it")
        for smp in range(B):
            for i, v in enumerate(pre[smp]):
                if v:
                    last_pre[smp][i] = step
            for j, v in enumerate(post[smp]):
                if v:
                    last_post[smp][j] = step
        pre_t = torch.tensor(pre, dtype=torch.bool).reshape(B, *geom(cfg)[0])
        post_t = torch.tensor(post, dtype=torch.bool).reshape(B, *geom(cfg)[1])
        for _, layer, _u in cells:
            _ = layer(pre_t, neuron_kwargs={"override": post_t})
            if not cfg.get("apply"):
                for n in layer.connection.updater.names:
                    delattr(layer.connection.updater, n)
        signal = signal_of(cfg, B, step) if cfg["family"] in THREE_FACTOR else None
        try:
            if cfg["family"] in THREE_FACTOR:
                trainer(signal, cfg["scale"])
            else:
                trainer()
        except Exception as e:
            raise TrainerRaised(f"forward raised {type(e).__name__}: {e}") from e
        for ccfg, layer, unit in cells:
            line = request_line(ccfg, layer, unit, signal)
            acc = getattr(layer.connection.updater, pname)
            m, s, net = real_views(acc, getattr(layer.connection, pname))
            if line.startswith("homeo"):
                s = m
            rec = {"line": line, "m": m, "s": s, "net": net, "step": step, "cell": ccfg["cell"]}
            if pair_oracle_applies(ccfg):
                like = getattr(layer.connection, pname)
                rec["pairs"] = pair_parts(ccfg, last_pre, last_post)
                rec["parts"] = tuple((torch.zeros_like(like) if t is None else t.detach().expand(like.shape)).reshape(-1).to(torch.float64)
                                     for t in (acc.pos, acc.neg))
            acc_shape = next((t.shape for t in (acc.pos, acc.neg) if t is not None), None)
            if cfg.get("apply"):
                # no bounding configured: `update()` must change the parameter by exactly pos - neg
                old = getattr(layer.connection, pname).detach().clone()
                try:
                    layer.connection.update()
                except Exception as e:
                    raise TrainerRaised(f"connection.update() after step {step} raised {type(e).__name__}: {e}") from e
                rec["old"] = old
                rec["delta"] = getattr(layer.connection, pname).detach() - old
                pp = acc_shape
                rec["part_shape"] = tuple(pp) if pp is not None else tuple(old.shape)
            recs.append(rec)
    return recs


# ---------------------------------------------------------------------------------------------
# generators

FAMILIES = ["STDP", "TripletSTDP", "MSTDP", "MSTDPET", "KernelSTDP", "DelayAdjustedKernelSTDP",
            "DelayAdjustedKernelSTDPD", "DelayAdjustedSTDP", "DelayAdjustedSTDPD", "DelayAdjustedMSTDP",
            "DelayAdjustedMSTDPD", "LinearHomeostasis"]
SIGNS = [(1, 1), (1, -1), (-1, 1), (-1, -1)]


def rand_history(rng, cfg, T, p=0.35):
    B, ni, no = cfg["B"], nin(cfg), nout(cfg)
    return [([[int(rng.random() < p) for _ in range(ni)] for _ in range(B)],
             [[int(rng.random() < p) for _ in range(no)] for _ in range(B)]) for _ in range(T)]


def directed_history(cfg, causal):
    """all presynaptic neurons fire at step 1 and all postsynaptic ones at step 3 (causal) or the
    other way round (anti-causal); nothing else"""
    T, B, ni, no = 6, cfg["B"], nin(cfg), nout(cfg)
    h = []
    for t in range(T):
        pre_on = (t == 1) if causal else (t == 3)
        post_on = (t == 3) if causal else (t == 1)
        h.append(([[int(pre_on)] * ni for _ in range(B)], [[int(post_on)] * no for _ in range(B)]))
    return h


def rand_conv(rng):
    """a small Conv2D geometry in which every kernel weight is shared by at least two output positions (receptive axis
    of length 2..10), at most 8 weights; strides and zero padding included"""
    while True:
        g = {"h": rng.choice([1, 2, 3]), "w": rng.choice([3, 4]), "ch": rng.choice([1, 1, 2]), "f": rng.choice([1, 2]),
             "kh": rng.choice([1, 2]), "kw": rng.choice([1, 2, 2]), "sh": 1, "sw": rng.choice([1, 1, 2]),
             "ph": 0, "pw": rng.choice([0, 0, 1])}
        if g["kh"] > g["h"]:
            continue
        c = {"layer": "conv", "conv": g}
        if nweights(c) <= 8 and 2 <= prod(geom(c)[1][1:]) <= 10 and nin(c) <= 16:
            return g


def base_cfg(rng, family, sa, sb, kind=None):
    kind = kind or rng.choice(["dense", "direct", "conv"])
    B = rng.choice([1, 2, 3])
    cfg = {"family": family, "layer": kind, "B": B,
           "lr_a": sa * rng.choice([0.5, 0.25, 1.0, 0.125]), "lr_b": sb * rng.choice([0.5, 0.25, 0.75]),
           "lr_a3": rng.choice([0.25, 0.5]), "lr_b3": rng.choice([0.25, 0.125]),
           "tc_a": rng.choice([10.0, 20.0]), "tc_b": rng.choice([15.0, 25.0]),
           "trace": rng.choice(["cumulative", "nearest"]), "red": rng.choice(["sum", "mean", "amax"]),
           "delayed": rng.random() < 0.3 and family in ("STDP", "TripletSTDP", "MSTDP", "KernelSTDP"),
           "scale": rng.choice([1.0, 0.5, 2.0, -1.0, -0.5, 0.0]) if family in THREE_FACTOR else 1.0}
    if kind == "conv":
        cfg["conv"] = rand_conv(rng)
    cfg["apply"] = (not family.endswith("STDPD")) and rng.random() < 0.5
    if family.startswith("DelayAdjusted") or cfg["delayed"]:
        cfg["delays"] = [float(rng.choice([0, 1, 2])) for _ in range(nweights(cfg))]
    if family in THREE_FACTOR:
        cfg["red"] = rng.choice(["sum", "sum", "mean", "amax"])
    return cfg


def cases_for(rng, thorough):
    cases = []
    reps = 2 if not thorough else 8
    for family in FAMILIES:
        if family == "LinearHomeostasis":
            for param in ("weight", "bias", "delay"):
                for sa in (1, -1):
                    for above in (True, False):          # target above / below the observed rate
                        for _ in range(reps):
                            cfg = base_cfg(rng, family, sa, 1)
                            cfg.update(param=param, lr_a=sa * rng.choice([0.125, 0.25]),
                                       target=(0.9 if above else 0.05), red=rng.choice(["mean", "sum", "amax"]))
                            cfg["history"] = rand_history(rng, cfg, 6, p=(0.15 if above else 0.7))
                            cfg["stream"] = "target-above" if above else "target-below"
                            cases.append(cfg)
            continue
        for (sa, sb) in SIGNS:
            variants = [("scalar", +1), ("scalar", -1), ("tensor", 0)] if family in THREE_FACTOR else [(None, 0)]
            for (sk, ssign) in variants:
                for _ in range(reps):
                    cfg = base_cfg(rng, family, sa, sb)
                    if sk:
                        cfg["signal_kind"] = sk
                        cfg["signal"] = ([ssign * rng.choice([1.0, 0.5, 2.0])] * 3 if sk == "scalar"
                                         else [rng.choice([1.0, -1.0, 0.5, -2.0, 0.0]) for _ in range(3)])
                    cfg["history"] = rand_history(rng, cfg, rng.randint(5, 8))
                    cfg["stream"] = "random"
                    if rng.random() < 0.35:       # a second cell with per-cell rates of another sign mode
                        oa, ob = rng.choice([m for m in SIGNS if m != (sa, sb)])
                        cfg["override"] = {"lr_a": oa * rng.choice([0.5, 0.25]), "lr_b": ob * rng.choice([0.5, 0.125])}
                    cases.append(cfg)
    return cases


def override_cases(rng):
    """two cells per trainer: one registered with the trainer defaults, one with per-cell learning
    rates whose SIGN MODE differs from the defaults (every family accepts per-cell rates)"""
    out = []
    for family in FAMILIES:
        for (sa, sb), (oa, ob) in (((1, -1), (-1, 1)), ((1, 1), (-1, -1)), ((-1, 1), (1, 1))):
            cfg = base_cfg(rng, family, sa, sb)
            cfg["override"] = {"lr_a": oa * rng.choice([0.5, 0.25]), "lr_b": ob * rng.choice([0.5, 0.125])}
            cfg["stream"] = "per-cell-override"
            if family == "LinearHomeostasis":
                tg = rng.choice([0.9, 0.05])
                # the second cell has its own plasticity AND its own default target, on the other side of the observed rate;
                # the trainer is called without a target, so each cell must use its own
                cfg.update(param=rng.choice(["weight", "bias", "delay"]), target=tg,
                           lr_a=sa * 0.125, override={"lr_a": -sa * 0.25, "lr_b": 1.0, "target": 0.95 - tg})
            if family in THREE_FACTOR:
                cfg.update(signal_kind=rng.choice(["scalar", "tensor"]),
                           signal=[rng.choice([1.0, -1.0, 0.5, -2.0]) for _ in range(3)])
            cfg["history"] = rand_history(rng, cfg, 6, p=0.45)
            out.append(cfg)
    return out


def triplet_rate_cases(rng):
    """TripletSTDP with triplet rates of EITHER sign, given to the constructor and / or as per-cell overrides
    (only their absolute value may matter), small and large relative to the pair rates (|beta / alpha| from 1/8 to 32);
    histories dense enough that a spike follows an earlier spike of the same side by two steps or more (slow trace
    non-zero); the overriding cell has an absolute-value twin which must be handed identical parts"""
    out = []
    mags = [4.0, 2.0, 0.125, 0.5]
    for i, ((sa, sb), (ta, tb), (ca, cb)) in enumerate(
            [((1, -1), (-1, -1), (1, 1)), ((1, -1), (-1, 1), (1, 1)), ((-1, 1), (1, -1), (1, 1)), ((1, 1), (-1, -1), (-1, -1)),
             ((-1, -1), (-1, -1), (1, -1)), ((1, -1), (1, 1), (-1, -1)), ((-1, 1), (-1, -1), (-1, 1)), ((1, -1), (-1, -1), (1, 1))]):
        cfg = base_cfg(rng, "TripletSTDP", sa, sb)
        big = i % 2 == 0
        cfg.update(lr_a3=ca * rng.choice([0.25, 0.5, 2.0]), lr_b3=cb * rng.choice([0.25, 0.125, 2.0]),
                   stream="triplet-rate-sign", abs_twin=["lr_a3", "lr_b3"])
        cfg["override"] = {"lr_a": cfg["lr_a"], "lr_b": cfg["lr_b"],
                           "lr_a3": ta * (4.0 if big else rng.choice(mags)), "lr_b3": tb * (4.0 if big else rng.choice(mags))}
        if i >= 6:      # the pair rates are overridden as well (another sign mode)
            oa, ob = rng.choice([m for m in SIGNS if m != (sa, sb)])
            cfg["override"].update(lr_a=oa * rng.choice([0.5, 0.25]), lr_b=ob * rng.choice([0.5, 0.125]))
        cfg["history"] = rand_history(rng, cfg, 8, p=0.5)
        out.append(cfg)
    return out


def bounded_cases(rng):
    """every rule whose parameter update is applied, in all four sign modes (three-factor rules: scalar reward of both signs,
    all-negative and mixed reward tensors), with BOUNDING configured on the accumulator of the trained parameter: half bounds
    (upper and lower, upper only, lower only) or a full bound, multiplicative or power-2 dependence, limits around seeded
    parameter values (many close to the lower limit); connection.update() after every step; the applied change is compared
    with the closed form upper(potentiating part) - lower(depressing part) - steps handing only one part included"""
    out = []
    off = rng.randrange(4)
    fams = [f for f in FAMILIES if not f.endswith("STDPD")]

    def bound_of(i):
        ub, lb = rng.choice([(1.0, 0.0), (2.0, -1.0), (0.5, -0.5)])
        return {"mode": BOUND_MODES[(i + off) % 4], "fn": rng.choice(["mult", "mult", "pow2"]), "ub": ub, "lb": lb}

    def finish(cfg, i):
        bd = bound_of(i)
        cfg.update(apply=True, bound=bd, delayed=False,
                   param_init=[bd["lb"] + (bd["ub"] - bd["lb"]) * rng.choice([1, 1, 2, 2, 3, 4, 8, 12, 15]) / 16 for _ in range(8)])
        if not cfg["family"].startswith("DelayAdjusted"):
            cfg.pop("delays", None)
        out.append(cfg)

    for fi, family in enumerate(fams):
        if family == "LinearHomeostasis":
            for pi, param in enumerate(("weight", "bias")):
                for si, sa in enumerate((1, -1)):
                    cfg = base_cfg(rng, family, sa, 1)
                    above = rng.random() < 0.5
                    cfg.update(param=param, lr_a=sa * rng.choice([0.125, 0.25]), target=(0.9 if above else 0.05),
                               red=rng.choice(["mean", "sum", "amax"]), stream="bounded")
                    cfg["history"] = rand_history(rng, cfg, 5, p=(0.15 if above else 0.7))
                    finish(cfg, fi + 2 * pi + si)
            continue
        for gi, (sa, sb) in enumerate(SIGNS):
            variants = ([("scalar", 1), ("scalar", -1), ("tensor", -1), ("tensor", 0)] if family in THREE_FACTOR else [(None, 0)])
            for vi, (sk, ssign) in enumerate(variants):
                cfg = base_cfg(rng, family, sa, sb)
                if sk == "scalar":
                    cfg.update(signal_kind=sk, signal=[ssign * rng.choice([1.0, 0.5, 2.0])] * 3)
                elif sk == "tensor":
                    cfg.update(signal_kind=sk, signal=[(-rng.choice([1.0, 0.5, 2.0]) if ssign < 0 else rng.choice([1.0, -1.0, 0.5, -2.0]))
                                                       for _ in range(3)])
                if family in THREE_FACTOR:
                    cfg["scale"] = rng.choice([1.0, 0.5, 2.0, -1.0])
                cfg["history"] = rand_history(rng, cfg, 5, p=0.45)
                cfg["stream"] = "bounded"
                finish(cfg, fi + gi + vi)
    return out


def shared_parameter_cases(rng):
    """connections whose parameters are SHARED by several synaptic pairs (Conv2D: every kernel weight belongs to one pair per
    output position; strides, zero padding, several channels / filters), batch 1..3, spike histories dense enough that pairs
    of the same weight and the same sample are causal and anti-causal at once: the kernel trainers (weight and delay variants)
    in all four sign modes, once with the parts only and once with bounding configured and update() applied after every step
    (the delay variant: parts only); every other rule once with bounding.  The kernel trainers' parts are compared with the
    pair-by-pair sums over the spike history (`pair_parts`), the applied change with upper(potentiation) - lower(depression)"""
    out = []
    off = rng.randrange(4)

    def bound(cfg, i):
        ub, lb = rng.choice([(1.0, 0.0), (2.0, -1.0), (0.5, -0.5)])
        bd = {"mode": BOUND_MODES[(i + off) % 4], "fn": rng.choice(["mult", "mult", "pow2"]), "ub": ub, "lb": lb}
        cfg.update(apply=True, bound=bd,
                   param_init=[lb + (ub - lb) * rng.choice([1, 2, 3, 4, 8, 12, 15]) / 16 for _ in range(8)])

    i = 0
    for family in KERNEL:
        for (sa, sb) in SIGNS:
            for bounded in (False, True):
                cfg = base_cfg(rng, family, sa, sb, kind="conv")
                cfg.update(delayed=False, red=rng.choice(["sum", "sum", "mean", "amax"]), apply=False, stream="shared-parameter")
                if family == "KernelSTDP":
                    cfg.pop("delays", None)
                if bounded and not family.endswith("STDPD"):
                    bound(cfg, i)
                elif bounded and rng.random() < 0.5:     # a second cell with per-cell rates of another sign mode instead
                    oa, ob = rng.choice([m for m in SIGNS if m != (sa, sb)])
                    cfg["override"] = {"lr_a": oa * rng.choice([0.5, 0.25]), "lr_b": ob * rng.choice([0.5, 0.125])}
                i += 1
                cfg["history"] = rand_history(rng, cfg, rng.randint(5, 7), p=0.5)
                out.append(cfg)
    for family in FAMILIES:
        if family in KERNEL or family.endswith("STDPD"):
            continue
        sa, sb = rng.choice(SIGNS)
        cfg = base_cfg(rng, family, sa, sb, kind="conv")
        cfg.update(delayed=False, stream="shared-parameter")
        if not family.startswith("DelayAdjusted"):
            cfg.pop("delays", None)
        if family == "LinearHomeostasis":
            above = rng.random() < 0.5
            cfg.update(param=rng.choice(["weight", "bias"]), lr_a=sa * rng.choice([0.125, 0.25]), target=(0.9 if above else 0.05),
                       red=rng.choice(["mean", "sum", "amax"]))
        if family in THREE_FACTOR:
            kind = rng.choice(["scalar", "tensor"])
            cfg.update(signal_kind=kind, scale=rng.choice([1.0, 0.5, 2.0, -1.0]),
                       signal=([rng.choice([1.0, -1.0, 0.5, -2.0])] * 3 if kind == "scalar"
                               else [rng.choice([1.0, -1.0, 0.5, -2.0]) for _ in range(3)]))
        bound(cfg, i)
        i += 1
        cfg["history"] = rand_history(rng, cfg, 5, p=0.5)
        out.append(cfg)
    return out


def tensor_kwarg_cases(rng):
    """the kernel trainers (weight and delay variants) with kernel keyword arguments given as TENSORS (registered as buffers on
    the cell state) instead of floats: 0-d tensors or one learning rate per synapse (magnitudes 1/2..2 times the side's rate),
    on both sides or on one side only (the other side keeps floats), the time constants as tensors too in half of the cases;
    all four sign modes, so that the post and the pre kernel receive DIFFERENT tensors; histories with causal and anti-causal
    pairs; a third of the trainers have a second cell whose per-cell kernel arguments (tensors as well) are of another sign mode.
    Compared with the Lean split of the kernels evaluated with each side's own arguments and with the pair-by-pair oracle"""
    out = []
    i = 0
    for family in KERNEL:
        for (sa, sb) in SIGNS:
            for mode in ("scalar", "persynapse"):
                cfg = base_cfg(rng, family, sa, sb)
                cfg.update(kw_tensor=mode, tc_tensor=rng.random() < 0.5, stream="tensor-kernel-arguments",
                           kw_sides=list(rng.choice([("post", "pre"), ("post", "pre"), ("post",), ("pre",)])),
                           red=rng.choice(["sum", "sum", "mean", "amax"]))
                if i % 3 != 0:
                    cfg["delayed"] = False
                    if family == "KernelSTDP":
                        cfg.pop("delays", None)
                if mode == "persynapse":
                    cfg["lr_scale"] = [rng.choice([0.5, 1.0, 1.5, 2.0]) for _ in range(nweights(cfg))]
                if i % 3 == 1:
                    oa, ob = rng.choice([m for m in SIGNS if m != (sa, sb)])
                    cfg["override"] = {"lr_a": oa * rng.choice([0.5, 0.25]), "lr_b": ob * rng.choice([0.5, 0.125])}
                i += 1
                cfg["history"] = rand_history(rng, cfg, rng.randint(5, 7), p=0.45)
                out.append(cfg)
    return out


def dropped_cell_cases(rng):
    """one trainer with two cells of DIFFERENT sign modes (one registered with the trainer defaults, one with per-cell rates,
    in either registration order; homeostasis: opposite plasticity sign and its own target on the other side of the observed
    rate); the layer owning the FIRST-registered cell is garbage-collected without trainer.del_cell - before the first step or
    between two steps (a trainer holds only weak references to its cells) - and the surviving cell is stepped and trained on:
    every call must hand it the split of ITS OWN signed rule"""
    out = []
    modes = [((1, -1), (-1, 1)), ((-1, 1), (1, -1)), ((1, 1), (-1, -1)), ((-1, -1), (1, -1))]
    for fi, family in enumerate(FAMILIES):
        for k in range(2):
            (sa, sb), (oa, ob) = modes[(fi + 2 * k + rng.randrange(2)) % 4]
            cfg = base_cfg(rng, family, sa, sb)
            cfg["override"] = {"lr_a": oa * rng.choice([0.5, 0.25]), "lr_b": ob * rng.choice([0.5, 0.125])}
            cfg["stream"] = "cell-dropped"
            if family == "LinearHomeostasis":
                tg = rng.choice([0.9, 0.05])
                cfg.update(param=rng.choice(["weight", "bias", "delay"]), target=tg,
                           lr_a=sa * 0.125, override={"lr_a": -sa * 0.25, "lr_b": 1.0, "target": 0.95 - tg})
            if family in THREE_FACTOR:
                cfg.update(signal_kind=rng.choice(["scalar", "tensor"]),
                           signal=[rng.choice([1.0, -1.0, 0.5, -2.0]) for _ in range(3)])
            if k == 1:
                cfg["cell_order"] = "reversed"
            cfg["drop"] = ["override" if k == 1 else "default"]
            cfg["drop_at"] = rng.choice([0, 0, 2, 3])
            cfg["history"] = rand_history(rng, cfg, 6, p=0.45)
            out.append(cfg)
    return out


def cancelling_reward_cases(rng):
    """three-factor rules with per-sample reward tensors that are NOT all zero but whose batch total (or mean) is exactly
    zero - equally many / equally weighted rewarded and punished samples, some with an unrewarded sample in between: the
    rewarded samples still potentiate and the punished ones depress (sum reduction, so that the signed rule has a closed
    form); with and without update() between the steps"""
    out = []
    for family in THREE_FACTOR:
        for (sa, sb) in ((1, 1), (1, -1), (-1, -1)):
            for B in (2, 3):
                cfg = base_cfg(rng, family, sa, sb)
                g = rng.choice([1.0, 0.5, 2.0])
                sig = ([g, -g, 0.0] if B == 2 else rng.choice([[g, -g / 2, -g / 2], [-g, -g, 2 * g], [g, 0.0, -g], [-g, g / 2, g / 2]]))
                cfg.update(B=B, signal_kind="tensor", signal=sig, red="sum", scale=rng.choice([1.0, 0.5, 2.0, -1.0]),
                           stream="cancelling-rewards")
                cfg["history"] = rand_history(rng, cfg, 5, p=0.5)
                out.append(cfg)
    return out


def multistep_cases(rng):
    """histories over which what is handed as depression CHANGES from step to step while the
    parameter is updated (applied + cleared) in between: single-sign three-factor rules whose reward
    changes sign (-,-,+,+,-,+), so that a step handing only potentiation follows steps handing only
    depression; the applied change of EVERY step is compared with the signed rule"""
    out = []
    seq = [-1.0, -1.0, 1.0, 1.0, -1.0, 1.0, 1.0]
    for family in THREE_FACTOR:
        for (sa, sb) in ((1, 1), (-1, -1), (1, -1)):
            for kind in ("scalar", "tensor"):
                cfg = base_cfg(rng, family, sa, sb)
                g = rng.choice([1.0, 0.5, 2.0])
                cfg.update(signal_kind=kind, scale=rng.choice([1.0, 0.5]), red="sum", delayed=False,
                           signal_seq=[[sg * g] * 3 for sg in seq], signal=[seq[0] * g] * 3,
                           apply=not family.endswith("STDPD"), stream="multi-step")
                cfg.pop("delays", None)
                if family.startswith("DelayAdjusted"):
                    cfg["delays"] = [float(rng.choice([0, 1])) for _ in range(nweights(cfg))]
                cfg["history"] = rand_history(rng, cfg, len(seq), p=0.6)
                out.append(cfg)
    return out


def scale_twin_cases(rng):
    """three-factor rules called with scale = +g and scale = -g (and 0): only |scale| may matter, the
    twins must hand identical parts"""
    out = []
    for family in THREE_FACTOR:
        for kind, ssign in (("scalar", 1.0), ("scalar", -1.0), ("tensor", 0.0)):
            sa, sb = rng.choice(SIGNS)
            cfg = base_cfg(rng, family, sa, sb)
            g = rng.choice([1.0, 0.5, 2.0])
            cfg.update(signal_kind=kind, apply=False, stream="scale-sign",
                       signal=([ssign * rng.choice([1.0, 0.5])] * 3 if kind == "scalar"
                               else [rng.choice([1.0, -1.0, 0.5, -2.0]) for _ in range(3)]))
            cfg["history"] = rand_history(rng, cfg, 5, p=0.5)
            out.append(dict(cfg, scale=g))
            out.append(dict(cfg, scale=-g, twin=True))       # compared with the case just before it
        z = base_cfg(rng, family, 1, -1)
        z.update(signal_kind="scalar", signal=[1.0] * 3, scale=0.0, apply=False, stream="scale-sign")
        z["history"] = rand_history(rng, z, 4, p=0.5)
        out.append(z)
    return out


def direction_cases(rng):
    """Hebbian signs on causal-only and anti-causal-only histories; three-factor rules with both
    reward signs on the same history"""
    out = []
    for family in FAMILIES:
        if family == "LinearHomeostasis" or family.endswith("STDPD"):
            continue
        for causal in (True, False):
            cfg = base_cfg(rng, family, 1, -1)      # Hebbian: the t_delta >= 0 / post-triggered term potentiates
            cfg.update(red="sum", delayed=False, trace="cumulative", history=None, scale=1.0, apply=False)
            cfg.pop("delays", None)
            cfg["history"] = directed_history(cfg, causal)
            cfg["stream"] = "causal" if causal else "anti-causal"
            if family in THREE_FACTOR:
                for ssign in (1.0, -1.0):
                    c2 = dict(cfg, signal_kind="scalar", signal=[ssign] * 3, stream=cfg["stream"] + (":reward+" if ssign > 0 else ":reward-"))
                    out.append(c2)
            else:
                out.append(cfg)
    return out


# ---------------------------------------------------------------------------------------------

def fam_key(cfg):
    return cfg["family"] + (":" + cfg["param"] if cfg["family"] == "LinearHomeostasis" else "")


def is_d9(rec, dm, ds):
    """known finding D9 exactly: the real parts equal the code-shaped transcription
    `(reduce(k.clamp_min(0)), reduce(k.clamp_max(0)))`, the potentiating part is as specified, and the
    only deviation is a "depressive" part that is <= 0 (negative somewhere) instead of >= 0"""
    try:
        if not view_close(rec["m"], dm):
            return False
        rp, rn = [kv.split("=", 1)[1] for kv in rec["s"].split()]
        sp, sn = [kv.split("=", 1)[1] for kv in ds.split()]
        if not vec_close(rp, sp):
            return False
        a = [hex2f(x) for x in rn.split(",")]
        c = [hex2f(x) for x in sn.split(",")]
        return all(x <= 0 for x in a) and all(y >= 0 for y in c) and (any(x < 0 for x in a) or any(y > 0 for y in c))
    except Exception:
        return False


def routed_parts(dm, dtype):
    """(pos, neg) of the Lean-routed parts as flat tensors (`None` stays `None`)"""
    vals = []
    for kv in dm.split()[:2]:
        v = kv.split("=", 1)[1]
        vals.append(None if v == "None" else torch.tensor([hex2f(x) for x in v.split(",")], dtype=dtype))
    return vals[0], vals[1]


def applied_mismatch(cfg, rec, dm, pairs=None):
    """None, or the finding triple when the change applied by `update()` is not upper(pos) - lower(neg) of the routed parts
    (`pos - neg` with no bounding configured).  The parts are the Lean-routed ones of `dm` (only meaningful while the parts
    handed to the updater agree with them) or, with `pairs`, the pair-by-pair sums of the independent oracle `pair_parts`"""
    bd = cfg.get("bound")
    z = torch.zeros_like(rec["delta"])
    if pairs is None:
        rp, rn = routed_parts(dm, rec["delta"].dtype)
        pp = rp.reshape(rec["part_shape"]).expand(rec["delta"].shape) if rp is not None else z
        nn_ = rn.reshape(rec["part_shape"]).expand(rec["delta"].shape) if rn is not None else z
        tol, src, key = TOL, f"the parts of this step (`{dm}`)", ""
    else:
        pp, nn_ = pairs[0].reshape(rec["delta"].shape), pairs[1].reshape(rec["delta"].shape)
        tol, key = PAIR_TOL, ":pairs"
        src = (f"the positively signed pair contributions {pairs[0].tolist()} and the negatively signed ones {pairs[1].tolist()} "
               f"(summed pair by pair over the spike history, {layer_s(cfg)})")
    want = bounded_change(bd, rec["old"], pp, nn_)
    if bool(((rec["delta"] - want).abs() <= tol * torch.maximum(torch.ones_like(want), want.abs())).all()):
        return None
    how = ("no bounding" if bd is None else
           f"bounding {bd['mode']} / {bd['fn']} (upper limit {bd['ub']}, lower limit {bd['lb']}) on {target_param(cfg)} = {rec['old'].tolist()}")
    rule = ("potentiation minus depression" if bd is None else
            "upper-bound function of the potentiating part minus lower-bound function of the depressing part")
    return ("spec", f"C09:applied:{fam_key(cfg)}" + ("" if bd is None else ":bounded") + key,
            f"{cfg['family']} step {rec['step']} (cell {rec['cell']}): update() with {how} changed {target_param(cfg)} by {rec['delta'].tolist()}, "
            f"{rule} of {src} is {want.tolist()}")


def split_resp(resp):
    if resp.startswith("M ") and " || S " in resp:
        m, s = resp[2:].split(" || S ", 1)
        return m.strip(), s.strip()
    return resp.strip(), resp.strip()


def slim(cfg):
    return {k: v for k, v in cfg.items()}


def explore(ctx) -> Exploration:
    ex = Exploration()
    rng = ctx.rng
    thorough = ctx.tier == "thorough" or ctx.intensify
    old = torch.get_default_dtype()
    torch.set_default_dtype(torch.float64)
    try:
        cases = cases_for(rng, thorough) + direction_cases(rng) + override_cases(rng) + multistep_cases(rng) + scale_twin_cases(rng)
        cases += triplet_rate_cases(rng) + bounded_cases(rng) + shared_parameter_cases(rng) + cancelling_reward_cases(rng)
        cases += tensor_kwarg_cases(rng) + dropped_cell_cases(rng)
        runs = []
        for cfg in cases:
            try:
                recs = run_case(cfg)
            except TrainerRaised as e:
                ex.findings.append(Finding(kind="spec", key=f"C09:raises:{fam_key(cfg)}",
                                           what=f"{cfg['family']}: {e}", case={"config": slim(cfg)}))
                recs = []
            runs.append(recs)
    finally:
        torch.set_default_dtype(old)
    flat = [r["line"] for recs in runs for r in recs]
    resp = ctx.run_driver(DRIVER, flat) if flat else []
    pos = 0
    seen_keys = {}
    prev_recs = None
    for cfg, recs in zip(cases, runs):
        ex.count("cells", ("default+override+|override|" if cfg.get("abs_twin") else "default+override") if cfg.get("override") else "default")
        if cfg["family"] in KERNEL:
            ex.count("kernel_arguments", ("tensor:" + cfg["kw_tensor"] + ":" + "+".join(cfg.get("kw_sides", ("post", "pre")))
                                          + (":tc" if cfg.get("tc_tensor") else "")) if cfg.get("kw_tensor") else "float")
        if cfg.get("drop"):
            ex.count("dropped_cells", f"{'+'.join(cfg['drop'])} (registered first) dropped before step {cfg.get('drop_at', 0)}")
        ex.count("bounding", f"{cfg['bound']['mode']}:{cfg['bound']['fn']}" if cfg.get("bound") else "none")
        ex.count("clearing", "update() applied" if cfg.get("apply") else "del updater.<param>")
        if cfg["family"] in THREE_FACTOR:
            ex.count("scale", "negative" if cfg["scale"] < 0 else ("zero" if cfg["scale"] == 0 else "positive"))
        ex.count("family", fam_key(cfg))
        ex.count("sign_mode", f"{'+' if cfg['lr_a'] >= 0 else '-'}{'+' if cfg['lr_b'] >= 0 else '-'}")
        ex.count("batch_reduction", cfg["red"])
        ex.count("stream", cfg["stream"])
        ex.count("layer", f"{cfg['layer']}:B={cfg['B']}")
        if cfg["family"] in THREE_FACTOR:
            ex.count("reward", cfg.get("signal_kind", "?") + (":" + ("+" if cfg["signal"][0] >= 0 else "-") if cfg.get("signal_kind") == "scalar" else ""))
        nets = []
        for rec in recs:
            r = resp[pos]
            pos += 1
            ex.evaluations += 1
            ex.traces_validated += 1
            if "bad-op" in r or "nonuniform" in r:
                raise RuntimeError(f"driver protocol failure on `{rec['line'][:200]}`: {r}")
            dm, ds = split_resp(r)
            nets.append(rec["net"])
            if bool((rec["net"] != 0).any()):
                ex.nontriv((cfg["family"], rec["line"]))
            ex.count("request", rec["line"].split()[0] + (":" + rec["line"].split()[1] if not rec["line"].startswith("mstdp3") else ""))
            bads = []
            if not view_close(rec["s"], ds):
                if cfg["family"] == "LinearHomeostasis" and is_d9(rec, dm, ds):
                    seen_keys[KNOWN_D9 + ":all"] = seen_keys.get(KNOWN_D9 + ":all", 0) + 1
                    bads.append(("spec", KNOWN_D9, f"LinearHomeostasis({cfg['param']}) hands a depressive part <= 0: observed `{rec['s']}`, "
                                                   f"the split of the signed term must be `{ds}`; the applied change is |k|"))
                else:
                    bads.append(("spec", f"C09:spec:{fam_key(cfg)}:{cfg['stream'].split(':')[0]}",
                                 f"{cfg['family']} step {rec['step']} (cell registered with {rec['cell']} rates): parts handed to the updater give `{rec['s']}`, the signed rule gives `{ds}`"))
            if not bads and rec.get("pairs") is not None:
                # independent oracle: the parts against the pair-by-pair sums over the spike history
                pm = pair_mismatch(cfg, rec)
                if pm:
                    bads.append(pm)
                ex.count("pair_oracle_checks", f"{cfg['family']}:{cfg['layer']}")
                if cfg["layer"] == "conv" and bool((rec["pairs"][0] > 0).any()) and bool((rec["pairs"][1] > 0).any()):
                    ex.count("pair_oracle_checks", "shared parameter with contributions of both signs")
            if not bads and not view_close(rec["m"], dm):
                bads.append(("model", f"C09:model:{fam_key(cfg)}",
                             f"{cfg['family']} step {rec['step']}: real parts `{rec['m']}`, Lean routing `{dm}`"))
            if "delta" in rec:
                bd = cfg.get("bound")
                if rec.get("pairs") is not None:
                    # the applied change against the independent oracle's parts (whatever was handed to the updater)
                    am = applied_mismatch(cfg, rec, dm, pairs=rec["pairs"])
                    if am:
                        bads.append(am)
                    ex.count("applied_change_checks", cfg["stream"] + " (pair oracle)")
                if not bads:
                    rp, rn = routed_parts(dm, rec["delta"].dtype)
                    am = applied_mismatch(cfg, rec, dm)
                    if am:
                        bads.append(am)
                    if bd is not None:
                        ex.count("bounded_update_checks", f"{bd['mode']}:{bd['fn']}:" + ("pos+neg" if rp is not None and rn is not None else
                                                                                      "pos only" if rp is not None else
                                                                                      "neg only" if rn is not None else "nothing"))
                    ex.count("applied_change_checks", cfg["stream"])
            for bad in bads:
                if seen_keys.get(bad[1], 0) < 3:
                    seen_keys[bad[1]] = seen_keys.get(bad[1], 0) + 1
                    ex.findings.append(Finding(kind=bad[0], key=bad[1], what=bad[2],
                                               case={"config": slim(cfg), "step": rec["step"], "request": rec["line"],
                                                     "expected": r, "observed": f"M {rec['m']} || S {rec['s']}"}))
        # scale = -g must hand the same parts as scale = +g
        if cfg.get("twin") and prev_recs is not None and len(prev_recs) == len(recs):
            ex.count("scale_twins", cfg["family"])
            for ra, rb in zip(prev_recs, recs):
                if not view_close(ra["m"], rb["m"]):
                    ex.findings.append(Finding(kind="spec", key=f"C09:scale-sign:{cfg['family']}",
                                               what=f"{cfg['family']} step {rb['step']}: scale={-cfg['scale']} hands `{ra['m']}`, scale={cfg['scale']} hands `{rb['m']}` (only |scale| may matter)",
                                               case={"config": slim(cfg), "step": rb["step"]}))
                    break
        prev_recs = recs
        # a cell registered with sign-insensitive overrides must be handed the parts of its absolute-value twin
        if cfg.get("abs_twin"):
            ex.count("abs_twins", cfg["family"])
            by = {(r["cell"], r["step"]): r for r in recs}
            for (cell, step), ra in sorted(by.items()):
                rb = by.get(("override-abs", step))
                if cell != "override" or rb is None:
                    continue
                if not view_close(ra["m"], rb["m"]):
                    ov = {k: cfg["override"][k] for k in cfg["abs_twin"]}
                    ex.findings.append(Finding(kind="spec", key=f"C09:abs-twin:{cfg['family']}",
                                               what=f"{cfg['family']} step {step}: the cell registered with per-cell {ov} is handed `{ra['m']}`, the cell registered "
                                                    f"with their absolute values is handed `{rb['m']}` (the absolute value of these rates is documented to be taken)",
                                               case={"config": slim(cfg), "step": step}))
                    break
        # direction on the real accumulators (independent of the driver)
        if cfg["stream"].startswith(("causal", "anti-causal")) and nets:
            tot = torch.stack(nets, 0)
            sign = 1.0 if cfg["stream"].startswith("causal") else -1.0
            if cfg["family"] in THREE_FACTOR and cfg["signal"][0] < 0:
                sign = -sign
            ok = bool((sign * tot >= -1e-15).all()) and bool((sign * tot > 0).any())
            ex.count("direction_checks", cfg["stream"])
            if not ok:
                ex.findings.append(Finding(kind="spec", key=f"C09:direction:{cfg['family']}:{cfg['stream']}",
                                           what=f"{cfg['family']} with Hebbian signs on a {cfg['stream']} history: net changes {tot.tolist()}",
                                           case={"config": slim(cfg)}))
        if cfg["family"] == "LinearHomeostasis" and nets and cfg["param"] != "delay" and cfg["lr_a"] > 0:
            # rate above target must not raise the parameter (weight / bias, positive plasticity)
            ex.count("direction_checks", "homeostasis:" + cfg["stream"])
    ex.rule = ("every exported trainer (12 classes; LinearHomeostasis on weight / bias / delay) x all four sign combinations of its two "
               "learning rates (homeostasis: both plasticity signs x target above / below the observed rate) x (three-factor rules: scalar reward "
               "of both signs and per-sample reward tensors) on LinearDense(3->2) / LinearDirect(3) with batch 1..3, seeded spike histories of "
               "5-8 steps with random time constants, trace modes, delays and batch reductions (sum / mean / amax); after every trainer() call the "
               "accumulators are read and compared with the Lean routing of the magnitudes recomputed from the monitors, with the signed rule, "
               "and checked >= 0; plus causal-only / anti-causal-only histories under Hebbian signs (direction) with both reward signs; "
               "plus two-cell trainers whose second cell is registered with per-cell rates of a different sign mode; multi-step histories in which "
               "the reward changes sign (-,-,+,+,-,+) with connection.update() between the steps, the applied change of every step compared with "
               "pos - neg of that step; three-factor rules with negative and zero `scale` and +g / -g twins that must hand identical parts; "
               "TripletSTDP with triplet rates of either sign at the constructor and as per-cell overrides (|beta/alpha| 1/8..32), the overriding cell "
               "next to a cell registered with the absolute values, which must be handed identical parts; every applied rule in all sign modes / reward "
               "signs with half bounds (both, upper only, lower only) or a full bound (multiplicative / power 2) on the accumulator and seeded parameter "
               "values, the applied change of every step compared with upper(potentiation) - lower(depression), steps handing a single part included; "
               "all of the above on Conv2D layers as well (a third of the seeded layers), plus a shared-parameter stream: Conv2D geometries in which every "
               "kernel weight belongs to several pairs, dense histories (causal and anti-causal pairs of one weight in one sample), kernel trainers "
               "in all sign modes with and without bounding, every other applied rule with bounding; the kernel trainers' parts are compared with "
               "the pair-by-pair sums over the spike history (positive contributions -> potentiation, negative -> depression); "
               "three-factor rules with per-sample reward tensors that are not all zero but sum to exactly zero (sum reduction); "
               "kernel trainers whose kernel arguments are tensors (0-d or one learning rate per synapse, on both sides or one side, time constants "
               "too) in all four sign modes, with per-cell tensor overrides of another sign mode; two-cell trainers of every family whose first-registered "
               "cell (defaults or per-cell rates of another sign mode) dies with its layer without del_cell before a step, the survivor trained on; "
               "a call is non-trivial when some part is non-zero; distinct = distinct driver request")
    # findings with a wrong VALUE first, configurations on which the code raises after them
    ex.findings.sort(key=lambda f: f.key.startswith("C09:raises"))
    ex.samples = [{"config": {k: v for k, v in cases[0].items() if k != "history"}, "request": runs[0][-1]["line"] if runs[0] else None},
                  {"config": {k: v for k, v in cases[-1].items() if k != "history"}}]
    ex.extra["trainer_cases"] = len(cases)
    nh = sum(len(r) for c, r in zip(cases, runs) if c["family"] == "LinearHomeostasis")
    ex.extra["unproved_subclaims"] = [{
        "claim": "homeostasis_split (FULL STATEMENT in Props/C09.lean): depressive part >= 0 and pos - neg = k for LinearHomeostasis",
        "status": "false for the code (negation witness homeostasis_neg_part_negative proved); known finding " + KNOWN_D9,
        "proved_instead": ["homeostasis_split_partial", "homeostasis_net_is_abs", "homeostasis_neg_part_negative"],
        "cases_explored": nh, "cases_exhibiting_the_finding": seen_keys.get(KNOWN_D9 + ":all", 0)}]
    return ex


def replay(ctx, data) -> int:
    cfg = data.get("failing_input", {}).get("config") or data.get("config")
    if not cfg:
        print("replay file has no trainer configuration (proof/tie breakage without failing input):", data.get("broken"))
        return 1
    old = torch.get_default_dtype()
    torch.set_default_dtype(torch.float64)
    try:
        recs = run_case(cfg)
    except TrainerRaised as e:
        print(f"{cfg['family']} ({cfg.get('stream')}): {e}\n    DISAGREEMENT: the configuration is inside the property's quantifier, the specification has a value")
        return 1
    finally:
        torch.set_default_dtype(old)
    resp = ctx.run_driver(DRIVER, [r["line"] for r in recs])
    rc = 0
    for rec, r in zip(recs, resp):
        dm, ds = split_resp(r)
        ok = view_close(rec["s"], ds) and view_close(rec["m"], dm)
        print(f"step {rec['step']} cell {rec['cell']}: {rec['line'][:160]}\n    real: M {rec['m']} || S {rec['s']}\n    lean: {r}\n    {'agrees' if ok else 'DISAGREEMENT'}")
        pm = pair_mismatch(cfg, rec)
        if pm:
            print("    PAIR-BY-PAIR ORACLE DISAGREES: " + pm[2])
            ok = False
        if "delta" in rec:
            am = (applied_mismatch(cfg, rec, dm, pairs=rec["pairs"]) if rec.get("pairs") is not None else None) or \
                 (applied_mismatch(cfg, rec, dm) if ok else None)
            if am:
                print("    APPLIED CHANGE DISAGREES: " + am[2])
                ok = False
        rc = rc or (0 if ok else 1)
    if cfg.get("abs_twin"):
        by = {(r["cell"], r["step"]): r for r in recs}
        for (cell, step), ra in sorted(by.items()):
            rb = by.get(("override-abs", step))
            if cell == "override" and rb is not None and not view_close(ra["m"], rb["m"]):
                print(f"step {step}: cell with overrides {cfg['override']} handed `{ra['m']}`, its absolute-value twin `{rb['m']}`: DISAGREEMENT")
                rc = 1
    return rc
