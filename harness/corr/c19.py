"""C19 — spike encoders: correspondence by SAMPLE REPLAY + implementation-side search.

Real side: the seven functions of `inferno/neural/functional/encoding.py` (functional API) and the
three encoder modules (`HomogeneousPoissonEncoder`, `HomogeneousPoissonApproxEncoder`,
`PoissonIntervalEncoder`; constructor and setters).  For every case the harness clones the
generator state, draws the tensors the function is about to draw (same calls, same shapes, same
order), checks that the clone ends in the same generator state as the real call, and sends rates +
samples to `lean/drivers/C19.lean`.  The driver answers with the spike train of the Float model
(M, compared exactly) and with what the specification demands of any output for that request (S:
row count, silent elements, minimum inter-spike distance) — the harness evaluates those demands,
plus dtype / layout / reproducibility, on the REAL output.
"""
from __future__ import annotations

import struct
from fractions import Fraction

import torch

import inferno
import inferno.neural.functional as nf
from inferno.neural import (HomogeneousPoissonApproxEncoder, HomogeneousPoissonEncoder,
                            PoissonIntervalEncoder)

from runner import Exploration, Finding
import seqcheck

SPEC = {
    "prop": "C19",
    "lean_targets": ["InfernoVerif.Props.C19", "InfernoVerif.Props.C19Glue", "InfernoVerif.Props.C19GlueProg", "InfernoVerif.Props.C19GlueCls", "InfernoVerif.Gen.Dispatch"],
    "translate": ["EncoderSites", "EncoderProg", "EncClsProg"],
    "driver_targets": ["InfernoVerif.Model.Encoder", "InfernoVerif.Drv.Proto", "InfernoVerif.Gen.Dispatch"],
    "prop_files": ["InfernoVerif/Props/C19.lean", "InfernoVerif/Props/C19Glue.lean", "InfernoVerif/Props/C19GlueProg.lean", "InfernoVerif/Props/C19GlueCls.lean"],
    "lemma_files": ["InfernoVerif/Lemmas/Encoder.lean"],
    "model_files": ["InfernoVerif/Model/Encoder.lean"],
    "driver": "drivers/C19.lean",
    "assumptions": [
        "TRUSTED sampling pattern (validated on every case by comparing the cloned generator's final state with the real one): "
        "exp offline = `empty(nbins, *shape, float64).exponential_(1.0, generator)` with nbins = int(steps // max(refrac/dt, 1)); "
        "exp online = `empty(shape).exponential_()` once, then per step `empty(k).exponential_()` for the k firing elements (row-major); "
        "poisson offline = `torch.poisson(rates.expand(steps+2, *shape))`; poisson online = `torch.poisson(rates)` once, then "
        "`torch.poisson(rates[spikes])` per step; bernoulli = `torch.rand(shape, dtype of p) < p` (one draw of the whole tensor offline, one per step online)",
        "`torch.bernoulli(p, generator=g)` on CPU == `torch.rand(p.shape, dtype=p.dtype, generator=g) < p` (strict), in output AND in the generator state it leaves, for float32 and "
        "float64 p (established by experiment, re-validated on every Bernoulli case; a float32 stream runs against a Float32 copy of the model)",
        "Bernoulli strictness probes use generator positions found by a deterministic search (fixed seeds): a position whose next float32 uniform is exactly 0.0 "
        "(lands on a silent element: must stay silent) and positions whose next uniform u0 < 2^-10 equals the element's probability exactly (must not fire); "
        "a float64 zero sample (2^-53) cannot be exhibited",
        "partial (float): for non-representable dt (0.1, 0.2, 0.3) with refrac = n*dt or its decimal literal, the theorem-backed demand is floor(refrac/dt) of the doubles (may be n-1); "
        "the search additionally judges the real output with the nominal demand round(refrac/dt) = n (finding key `gap-nominal`), which float rounding could in principle miss by one step "
        "only when a cumulative time is within 1e-15 of an integer",
        "supports of the samplers: exponential_ > 0, torch.poisson(0) = 0, torch.rand in [0,1) — hypotheses of the theorems, asserted on every replayed tensor",
        "inputs are float64, non-negative, +0.0 for silence (the functions document non-negative inputs; -0.0 and negative rates are not generated)",
        "theorems are about the exact (Rat) model; the Float model with the same operation order is what is compared with torch — "
        "cells where float rounding moves a spike across a step boundary relative to exact arithmetic are counted (Q=diff) and reported, not excused: "
        "the gap/silence demands are evaluated on the real float output",
        "min-gap demand for refrac = R*dt is floor(refrac/dt) computed from the doubles; with non-dyadic dt (0.1, 0.3) the quotient of the doubles decides (partial: float)",
        "functional API with frequency*refrac >= 1000 under compensation (documented as nonsensical; unreachable through the modules) carries no demand: only model = code is compared there",
        "device CPU; sample replay through the Lean driver on tensors of at most a few dozen elements (element-wise code; broadcasting itself is torch's); "
        "the volume stream (12k..32k elements x 100..400 steps, float32 and float64 inputs) is judged by the closed-form demands only, without a model comparison",
        "tiny-first-sample probes rank seeds by the first `empty(shape).exponential_()` draw (search over the sampler, not the code); the probed element is the argmin of the exact first row the function draws",
    ],
}
DRIVER = "drivers/C19.lean"
F64 = torch.float64


# ---------------------------------------------------------------------------------------------
# encoding helpers

def hx(x: float) -> str:
    return struct.pack(">d", float(x)).hex()


def hxs(vals) -> str:
    vals = [float(v) for v in vals]
    return ",".join(hx(v) for v in vals) if vals else "-"


def nats(vals) -> str:
    vals = [int(v) for v in vals]
    return ",".join(str(v) for v in vals) if vals else "-"


def lists(rows, enc) -> str:
    rows = list(rows)
    return ";".join(enc(r) for r in rows) if rows else "_"


def rows_s(t: torch.Tensor, steps: int) -> str:
    """time-first canonical text of a spike tensor: rows `0101` joined by `|`."""
    if t.shape[0] == 0:
        return "-"
    flat = t.reshape(t.shape[0], -1)
    return "|".join("".join("1" if bool(v) else "0" for v in row) for row in flat.tolist())


def clone_gen(g: torch.Generator) -> torch.Generator:
    g2 = torch.Generator()
    g2.set_state(g.get_state())
    return g2


def frac_s(x) -> str:
    f = Fraction(x)
    return str(f.numerator) if f.denominator == 1 else f"{f.numerator}/{f.denominator}"


def frac_v(tok: str) -> float:
    return float(Fraction(tok))


# ---------------------------------------------------------------------------------------------
# one encoder case = a dict; `execute` runs the REAL code + the sample replay and returns the
# protocol line and the real-side observation

OPS = ("expoff", "expon", "poioff", "poion", "bernoff", "bernon", "berninh")


def tdtype(case):
    return torch.float32 if case.get("dtype") == "f32" else F64


def make_inputs(case) -> torch.Tensor:
    if "volume" in case:
        # image-like input: exact zeros everywhere except the listed (flat index, intensity) pairs
        x = torch.zeros(numel(case["shape"]), dtype=tdtype(case))
        for i, v in case["volume"]["lit"]:
            x[int(i)] = float(v)
        return x.reshape(case["shape"])
    return torch.tensor(case["intens"], dtype=tdtype(case)).reshape(case["shape"])


def make_gen(case) -> torch.Generator:
    """generator of the case: seeded, then positioned by discarding `advance` uniform draws of the
    case's dtype (uniform draws are consumed sequentially — checked in `find_positions`)."""
    g = torch.Generator().manual_seed(case["seed"])
    adv = int(case.get("advance", 0))
    if adv > 0:
        torch.rand(adv, dtype=tdtype(case), generator=g)
    return g


def build_module(case, g):
    """module API: construct directly or reach the configuration through the setters."""
    op, steps, dt, freq = case["op"], case["steps"], case["dt"], case["freq"]
    via = case.get("via", "ctor")
    if op in ("expoff", "expon"):
        if via == "ctor":
            return HomogeneousPoissonEncoder(steps, dt, freq, refrac=case["refrac"], compensate=case["comp"], generator=g)
        enc = HomogeneousPoissonEncoder(7, 1.0, 10.0, refrac=None, compensate=False)
        order = case.get("order", ["steps", "dt", "frequency", "refrac"])
        for name in order:
            setattr(enc, name, {"steps": steps, "dt": dt, "frequency": freq, "refrac": case["refrac"]}[name])
        enc.compensated = case["comp"]
        enc.generator = g
        return enc
    cls = HomogeneousPoissonApproxEncoder if op in ("bernoff", "bernon") else PoissonIntervalEncoder
    if via == "ctor":
        return cls(steps, dt, freq, generator=g)
    enc = cls(7, 1.0, 10.0)
    for name in case.get("order", ["steps", "dt", "frequency"]):
        if name == "refrac":
            continue
        setattr(enc, name, {"steps": steps, "dt": dt, "frequency": freq}[name])
    enc.generator = g
    return enc


def call_real(case, g):
    """returns the real output: a tensor (offline) or a list of slices (online)."""
    op, steps, dt = case["op"], case["steps"], case["dt"]
    x = make_inputs(case)
    online = op in ("expon", "poion", "bernon")
    if case["api"] == "mod":
        enc = build_module(case, g)
        r = enc(x, online=online)
        return list(r) if online else r
    rates = case["freq"] * x
    if op == "expoff":
        return nf.homogeneous_poisson_exp_interval(rates, steps, dt, refrac=case["refrac"], compensate=case["comp"], generator=g)
    if op == "expon":
        return list(nf.homogeneous_poisson_exp_interval_online(rates, steps, dt, refrac=case["refrac"], compensate=case["comp"], generator=g))
    if op == "poioff":
        return nf.poisson_interval(rates, steps, dt, generator=g)
    if op == "poion":
        return list(nf.poisson_interval_online(rates, steps, dt, generator=g))
    if op == "bernoff":
        return nf.homogenous_poisson_bernoulli_approx(rates, steps, dt, generator=g)
    if op == "bernon":
        return list(nf.homogenous_poisson_bernoulli_approx_online(rates, steps, dt, generator=g))
    if op == "berninh":
        return nf.inhomogeneous_poisson_bernoulli_approx(rates, dt, generator=g)
    raise AssertionError(op)


def effective_cfg(case):
    """(steps, dt, refrac, comp) the functional layer receives."""
    if case["api"] == "mod" and case["op"] in ("expoff", "expon"):
        # the module always passes its `refrac` property (dt when derived)
        refrac = case["dt"] if case["refrac"] is None else case["refrac"]
        return case["steps"], case["dt"], float(refrac), case["comp"]
    return case["steps"], case["dt"], case.get("refrac"), case.get("comp", False)


def replay_and_run(case):
    """Runs the real code and the sample replay side by side.

    returns dict(line, out (tensor|None), err, support_ok, state_ok, slices_ok, repro_ok)"""
    op = case["op"]
    x = make_inputs(case)
    shape = tuple(x.shape)
    n = x.numel()
    rates = case["freq"] * x
    steps, dt, refrac, comp = effective_cfg(case)
    g = make_gen(case)
    udt = tdtype(case)
    b32 = "32" if udt == torch.float32 else ""
    st0 = g.get_state()
    g2 = clone_gen(g)
    obs = {"err": None, "support_ok": True, "state_ok": True, "slices_ok": True, "repro_ok": True, "out": None}
    meta = f"seed={case['seed']};adv={case.get('advance', 0)};api={case['api']};via={case.get('via', '-')}"
    online = op in ("expon", "poion", "bernon")
    xs_tok = hxs(rates.reshape(-1).tolist())

    def finish_state():
        obs["state_ok"] = bool(torch.equal(g2.get_state(), g.get_state()))

    try:
        if not online:
            out = call_real(case, g)
        else:
            # drive the real iterator step by step so the replay can follow its draws
            if case["api"] == "mod":
                it = build_module(case, g)(x, online=True)
            elif op == "expon":
                it = nf.homogeneous_poisson_exp_interval_online(rates, steps, dt, refrac=case["refrac"], compensate=case["comp"], generator=g)
            elif op == "poion":
                it = nf.poisson_interval_online(rates, steps, dt, generator=g)
            else:
                it = nf.homogenous_poisson_bernoulli_approx_online(rates, steps, dt, generator=g)
            out = None
    except Exception as e:  # the real code raised
        obs["err"] = type(e).__name__
        out = None
        it = None

    line = None
    if op == "expoff":
        refrac_ = dt if refrac is None else refrac
        R = refrac_ / dt
        nbins = int(steps // max(R, 1))
        s = torch.empty(nbins, *shape, dtype=F64).exponential_(1.0, generator=g2)
        obs["support_ok"] = bool((s > 0).all())
        cols = s.reshape(nbins, n).T.tolist() if nbins > 0 else [[] for _ in range(n)]
        line = f"expoff {steps} {hx(dt)} {'N' if refrac is None else hx(refrac)} {'T' if comp else 'F'} {xs_tok} {lists(cols, hxs)} {meta}"
        finish_state()
    elif op == "poioff":
        mask = rates > 0
        pr = (1 / rates) * (1000.0 / dt)
        pr[~mask] = 0
        s = torch.poisson(pr.expand(steps + 2, *shape), generator=g2)
        flat = s.reshape(steps + 2, n)
        obs["support_ok"] = bool((flat[:, (~mask).reshape(-1)] == 0).all()) and bool((s >= 0).all())
        cols = flat.T.tolist()
        line = f"poioff {steps} {xs_tok} {lists(cols, nats)} {meta}"
        finish_state()
    elif op == "bernoff":
        u = torch.rand((steps,) + shape, dtype=udt, generator=g2)
        obs["support_ok"] = bool(((u >= 0) & (u < 1)).all())
        line = f"bern{b32} {steps} {hx(dt)} {xs_tok} {lists(u.reshape(steps, n).tolist(), hxs)} {meta}"
        finish_state()
    elif op == "berninh":
        u = torch.rand(shape, dtype=udt, generator=g2)
        obs["support_ok"] = bool(((u >= 0) & (u < 1)).all())
        T = shape[0]
        line = f"berninh{b32} {hx(dt)} {lists(rates.reshape(T, -1).tolist(), hxs)} {lists(u.reshape(T, -1).tolist(), hxs)} {meta}"
        finish_state()
    else:
        # online: initial draw, then one draw per step whose size is the number of real spikes
        slices, freshs = [], []
        s0tok = "-"
        if op == "expon":
            s0 = torch.empty(shape, dtype=F64).exponential_(1.0, generator=g2)
            obs["support_ok"] &= bool((s0 > 0).all())
            s0tok = hxs(s0.reshape(-1).tolist())
        elif op == "poion":
            mask = rates > 0
            pr = (1 / rates) * (1000.0 / dt)
            pr[~mask] = 0
            k0 = torch.poisson(pr, generator=g2)
            obs["support_ok"] &= bool((k0.reshape(-1)[(~mask).reshape(-1)] == 0).all())
            s0tok = nats(k0.reshape(-1).tolist())
        for t in range(steps):
            sp = None
            if it is not None and obs["err"] is None:
                try:
                    sp = next(it)
                except StopIteration:
                    obs["slices_ok"] = False
                    it = None
                except Exception as e:
                    obs["err"] = type(e).__name__
            if op == "bernon":
                u = torch.rand(shape, dtype=udt, generator=g2)
                obs["support_ok"] &= bool(((u >= 0) & (u < 1)).all())
                freshs.append(u.reshape(-1).tolist())
            elif sp is None:
                freshs.append([])
            elif op == "expon":
                k = int(sp.sum())
                s = torch.empty(k, dtype=F64).exponential_(1.0, generator=g2)
                obs["support_ok"] &= bool((s > 0).all())
                freshs.append(s.tolist())
            else:
                k = int(sp.sum())
                try:
                    s = torch.poisson(pr[sp], generator=g2)
                    freshs.append(s.reshape(-1).tolist())
                except Exception:
                    freshs.append([])
            if sp is not None:
                ok = isinstance(sp, torch.Tensor) and sp.dtype == torch.bool and tuple(sp.shape) == shape
                obs["slices_ok"] &= bool(ok)
                slices.append(sp.clone())
                if obs["err"] is None and not torch.equal(g2.get_state(), g.get_state()):
                    obs["state_ok"] = False
        if it is not None and obs["err"] is None:
            try:
                next(it)
                obs["slices_ok"] = False      # more than `steps` slices
            except StopIteration:
                pass
            except Exception as e:
                obs["err"] = type(e).__name__
        if obs["err"] is None and len(slices) == steps:
            try:
                out = torch.stack(slices)
            except Exception:
                obs["slices_ok"] = False
                out = None
        if op == "expon":
            line = f"expon {steps} {hx(dt)} {'N' if refrac is None else hx(refrac)} {'T' if comp else 'F'} {xs_tok} {s0tok} {lists(freshs, hxs)} {meta}"
        elif op == "poion":
            line = f"poion {steps} {xs_tok} {s0tok} {lists(freshs, nats)} {meta}"
        else:
            line = f"bern{b32} {steps} {hx(dt)} {xs_tok} {lists(freshs, hxs)} {meta}"
    obs["line"] = line
    obs["out"] = out
    # reproducibility: the same generator state gives the same spikes
    if obs["err"] is None and out is not None:
        try:
            gr = torch.Generator()
            gr.set_state(st0)
            again = call_real(case, gr)
            if isinstance(again, list):
                again = torch.stack(again)
            obs["repro_ok"] = bool(torch.equal(again, out))
        except Exception as e:
            obs["repro_ok"] = False
    return obs


def parse_resp(resp: str):
    m, s = seqcheck.split_resp(resp)
    d = {}
    for tok in s.split():
        if "=" in tok:
            k, v = tok.split("=", 1)
            d[k] = v
    return m, d


def spike_times(col):
    return [t for t, b in enumerate(col) if b]


def judge(case, obs, resp, ex: Exploration):
    """compares one case with the driver's answer; returns a list of Findings."""
    out = []
    op = case["op"]
    m, d = parse_resp(resp)
    if "nbins-mismatch" in resp:
        return [Finding(kind="model", key=f"C19:model:{op}:nbins", what=f"{op}: number of sampled bins differs from the model's ({resp})",
                        case={"case": {**case, "line": obs["line"]}, "expected": resp, "observed": "nbins of the replay"})]
    if m.startswith("bad-op") or not d:
        raise RuntimeError(f"driver rejected {obs['line'][:200]} -> {resp}")
    steps = int(d["steps"]) if "steps" in d else case["steps"]
    n = int(d.get("n", "0"))
    gap = d.get("gap", "any")
    total = gap != "any"             # the specification's hypotheses hold for this request
    x = make_inputs(case)
    shape = tuple(x.shape)
    exp_shape = ((steps,) + shape) if op != "berninh" else shape
    where = {k: case[k] for k in case}
    where["line"] = obs["line"]

    def add(kind, sub, what):
        out.append(Finding(kind=kind, key=f"C19:{kind}:{op}:{sub}", what=f"{op} ({case['api']}) seed={case['seed']}: {what}",
                           case={"case": where, "expected": resp, "observed": what}))

    if not obs["support_ok"]:
        add("model", "sampler-support", "a replayed sample left the assumed support (exp > 0 / Poisson(0) = 0 / U in [0,1))")
    real = obs["out"]
    if obs["err"] is not None:
        real_m = "err " + obs["err"]
    elif real is None:
        real_m = "no-output"
    else:
        real_m = rows_s(real, steps)
    # ---- code vs specification
    if total:
        if obs["err"] is not None:
            add("spec", "raises", f"raised {obs['err']} where a spike train of {steps} steps is required")
        elif real is None or not obs["slices_ok"]:
            add("spec", "shape", f"online iteration did not yield exactly {steps} boolean slices of shape {shape}")
        else:
            if not isinstance(real, torch.Tensor) or real.dtype != torch.bool:
                add("spec", "dtype", f"output dtype {getattr(real, 'dtype', type(real))} is not bool")
            if tuple(real.shape) != exp_shape:
                add("spec", "shape", f"output shape {tuple(real.shape)} != time-first {exp_shape}")
            else:
                flat = real.reshape(real.shape[0], -1)
                if op == "berninh":
                    must = d.get("silentcells", "")
                    if must and must != "-":
                        for t, row in enumerate(must.split("|")):
                            for i, c in enumerate(row):
                                if c == "1" and bool(flat[t, i]):
                                    add("spec", "silent", f"element {i} fired at step {t} although its rate there is 0")
                                    break
                else:
                    silent = d.get("silent", "")
                    g = int(gap)
                    for i in range(flat.shape[1]):
                        col = flat[:, i].tolist()
                        ts = spike_times(col)
                        if i < len(silent) and silent[i] == "1" and ts:
                            add("spec", "silent", f"element {i} has rate 0 but fired at steps {ts[:5]}")
                            break
                        bad = [(a, b) for a, b in zip(ts, ts[1:]) if b - a < g]
                        if bad:
                            add("spec", "gap", f"element {i} fired at steps {bad[0][0]} and {bad[0][1]}: distance {bad[0][1] - bad[0][0]} < required {g} (refrac/dt)")
                            break
                    # second opinion on the gap: inferno.isi
                    try:
                        isi = inferno.isi(real.reshape(real.shape[0], -1), 1.0, time_first=True)
                        if isi.numel() > 0 and not torch.isnan(isi).all():
                            mn = float(isi[~torch.isnan(isi)].min())
                            ex.count("isi_min_steps", str(int(mn)) if mn == int(mn) else f"{mn:.3f}")
                            if mn < g and not any(f.key.endswith(":gap") for f in out):
                                add("spec", "gap", f"inferno.isi reports a minimum inter-spike interval of {mn} steps < required {g}")
                    except Exception as e:
                        ex.count("isi_errors", type(e).__name__)
            # partial (float): nominal demand round(refrac/dt) for non-representable dt (the quotient of the doubles
            # can sit one ulp below the integer; the theorem-backed demand above is its floor)
            ng = case.get("nominal_gap")
            if ng and op in ("expoff", "expon") and tuple(real.shape) == exp_shape and not any(f.key.endswith(":gap") for f in out):
                flat = real.reshape(real.shape[0], -1)
                for i in range(flat.shape[1]):
                    ts = spike_times(flat[:, i].tolist())
                    bad = [(a, b) for a, b in zip(ts, ts[1:]) if b - a < ng]
                    if bad:
                        add("spec", "gap-nominal", f"element {i} fired at steps {bad[0][0]} and {bad[0][1]}: distance {bad[0][1] - bad[0][0]} < "
                            f"round(refrac/dt) = {ng} (refrac={case['refrac']!r}, dt={case['dt']!r}; partial (float) demand)")
                        break
                ex.count("nominal_gap_demand", f"{ng} (floor-of-doubles demand {gap})")
            if not obs["repro_ok"]:
                add("spec", "repro", "a second run from the same generator state gave a different spike train")
    # ---- code vs code-shaped model
    if real_m != m:
        add("model", "train", f"real `{real_m[:160]}` vs model `{m[:160]}`")
    if not obs["state_ok"]:
        add("model", "generator-state", "the replayed draws left the cloned generator in a different state than the real call (sampling pattern changed)")
    if d.get("mok") == "F" and total:
        add("model", "float-model-off-spec", "the Float model's own output does not meet the demands (float rounding vs exact theorem)")
    q = d.get("Q", "same")
    ex.count("exact_vs_float_model", "same" if q == "same" else "differs")
    ex.count("hypotheses", "hold" if total else "excluded-region(model only)")
    return out


# ---------------------------------------------------------------------------------------------
# generators

SHAPES = [(1,), (3,), (2, 2), (2, 3), (1, 4), ()]
DTS = [0.25, 0.5, 1.0, 2.0]
STEPS = [1, 2, 3, 5, 8, 13, 20, 40]
FREQS = [5.0, 20.0, 60.0, 100.0, 150.0, 240.0, 330.0, 480.0, 900.0]


def intensities(rng, numel):
    vals = [rng.random() for _ in range(numel)]
    # exact zeros and ones, always present when there is room
    for v in (0.0, 1.0):
        if rng.random() < 0.8:
            vals[rng.randrange(numel)] = v
    if rng.random() < 0.08:
        vals = [0.0] * numel
    if rng.random() < 0.08:
        vals = [1.0] * numel
    return vals


def numel(shape):
    p = 1
    for s in shape:
        p *= s
    return p


def gen_case(rng, op, api, region="valid", nonrep=False):
    shape = rng.choice(SHAPES)
    steps = rng.choice(STEPS)
    dt = rng.choice(DTS) if not nonrep else rng.choice([0.1, 0.3, 1.0 / 3.0])
    case = {"op": op, "api": api, "seed": rng.randrange(2 ** 31), "steps": steps, "dt": dt, "shape": list(shape)}
    if op in ("expoff", "expon"):
        k = rng.choice([None, 1, 2, 3, 3, 2, 1.5, 0.5, 0, 5])
        if k in (1.5, 0.5, 0, 5) and rng.random() < 0.6:
            k = rng.choice([None, 1, 2, 3])
        refrac = None if k is None else k * dt
        comp = rng.random() < 0.65
        rms = dt if refrac is None else refrac
        if region == "valid":
            ok = [f for f in FREQS if (not comp) or f * rms < 1000]
            freq = rng.choice(ok) if ok else 5.0
        else:  # excluded region: compensation with frequency * refrac >= 1000 (functional API only)
            comp = True
            bad = [f for f in (400.0, 600.0, 1000.0, 1500.0, 3000.0) if f * rms >= 1000]
            if not bad:
                refrac, rms = 3 * dt, 3 * dt
                bad = [f for f in (400.0, 600.0, 1000.0, 1500.0, 3000.0, 8000.0) if f * rms >= 1000]
            freq = rng.choice(bad)
        case.update({"refrac": refrac, "comp": comp, "freq": freq})
    else:
        case.update({"freq": rng.choice(FREQS + [1500.0, 4000.0])})
    if op == "berninh":
        T = rng.choice([1, 2, 5, 9])
        shape = (T,) + tuple(s for s in shape)
        case["shape"] = list(shape)
        case["steps"] = T
    case["intens"] = intensities(rng, numel(case["shape"]))
    if api == "mod":
        case["via"] = rng.choice(["ctor", "setters"])
        order = ["steps", "dt", "frequency", "refrac"]
        rng.shuffle(order)
        case["order"] = order
    return case


def boundary_cases():
    """hand-enumerated: one per branch of the model."""
    base = {"api": "fn", "seed": 11, "shape": [3], "intens": [0.0, 1.0, 0.5]}
    out = []
    for op in ("expoff", "expon"):
        for refrac_k in (None, 1, 2, 3):
            for comp in (True, False):
                for steps in (1, 2, 7):
                    out.append({**base, "op": op, "steps": steps, "dt": 0.5, "freq": 300.0,
                                "refrac": None if refrac_k is None else refrac_k * 0.5, "comp": comp})
        # interval scale exactly 0 (rate * refrac == 1000, functional API only: the modules reject it): every interval
        # equals refrac/dt exactly, so the count-down comparison `< 1` and the floor are exercised at equality
        for (dt_, refrac_, freq_) in ((1.0, 2.0, 500.0), (1.0, 4.0, 250.0), (2.0, 8.0, 125.0), (1.0, 1.0, 1000.0)):
            out.append({**base, "op": op, "steps": 13, "dt": dt_, "freq": freq_, "refrac": refrac_, "comp": True,
                        "intens": [1.0, 0.0, 1.0], "fn_only": True})
        # steps < refrac/dt : nbins = 0, silent output
        out.append({**base, "op": op, "steps": 2, "dt": 1.0, "freq": 100.0, "refrac": 3.0, "comp": True})
        # all-zero and all-one intensities, scalar tensor
        out.append({**base, "op": op, "steps": 9, "dt": 1.0, "freq": 200.0, "refrac": 2.0, "comp": True, "intens": [0.0, 0.0, 0.0]})
        out.append({**base, "op": op, "steps": 9, "dt": 1.0, "freq": 200.0, "refrac": 2.0, "comp": True, "intens": [1.0, 1.0, 1.0]})
        out.append({**base, "op": op, "steps": 9, "dt": 1.0, "freq": 200.0, "refrac": 2.0, "comp": True, "shape": [], "intens": [1.0]})
    for op in ("poioff", "poion", "bernoff", "bernon"):
        for steps in (1, 2, 7):
            out.append({**base, "op": op, "steps": steps, "dt": 1.0, "freq": 400.0})
        out.append({**base, "op": op, "steps": 6, "dt": 2.0, "freq": 2000.0})     # probability clamp / rate > 1 per step
        out.append({**base, "op": op, "steps": 6, "dt": 1.0, "freq": 1000.0, "intens": [0.0, 0.0, 0.0]})
        out.append({**base, "op": op, "steps": 6, "dt": 1.0, "freq": 1000.0, "shape": [], "intens": [1.0]})
    out.append({**base, "op": "berninh", "steps": 2, "dt": 1.0, "freq": 1500.0, "shape": [2, 3],
                "intens": [0.0, 1.0, 0.5, 0.25, 0.0, 1.0]})
    mods = []
    for c in out:
        if c["op"] != "berninh" and not c.get("fn_only"):
            for via in ("ctor", "setters"):
                mods.append({**c, "api": "mod", "via": via, "order": ["dt", "steps", "refrac", "frequency"]})
    return out + mods[::3]


# ---- Bernoulli strictness probes: generator states whose next uniform sample is a boundary value

_POS = {}


def find_positions():
    """Deterministic search (fixed seeds, independent of VERIF_SEED) for generator positions at which the
    next uniform draw is (a) exactly 0.0 in float32 (probability 2^-24 per draw; float64 would need 2^53
    draws) and (b) a value u0 in (0, 2^-10), for which the rate 1000*u0 and the probability
    (1000*u0/1000)*1 == u0 are exact in float32 and float64 alike.  Also checks that uniform draws are
    consumed sequentially (a big draw equals two consecutive smaller ones)."""
    if _POS:
        return _POS
    g = torch.Generator().manual_seed(1)
    a = torch.rand(4096, dtype=torch.float32, generator=g)
    g = torch.Generator().manual_seed(1)
    b = torch.cat([torch.rand(1000, dtype=torch.float32, generator=g), torch.rand(3096, dtype=torch.float32, generator=g)])
    _POS["sequential"] = bool(torch.equal(a, b))
    for seed in range(12):
        g = torch.Generator().manual_seed(seed)
        a = torch.rand(2 ** 25, dtype=torch.float32, generator=g)
        z = (a == 0).nonzero().reshape(-1)
        z = z[z > 4096]
        if z.numel() > 0:
            _POS["f32zero"] = (seed, int(z[0]))
            break
    for name, dt_ in (("f32small", torch.float32), ("f64small", F64)):
        g = torch.Generator().manual_seed(5)
        a = torch.rand(2 ** 16, dtype=dt_, generator=g)
        idx = ((a > 0) & (a < 2.0 ** -10)).nonzero().reshape(-1)
        idx = idx[idx > 4096]
        _POS[name] = (5, int(idx[0]), float(a[idx[0]]))
    return _POS


def probe_cases():
    """zero probe: a silent element receives the sample 0.0 (must stay silent: `u < p` is strict);
    equality probe: an element with probability exactly u0 receives the sample u0 (must not fire)."""
    pos = find_positions()
    out = []
    n, steps = 3, 4
    combos = [("bernoff", "fn"), ("bernon", "fn"), ("bernoff", "mod"), ("bernon", "mod"), ("berninh", "fn")]
    for op, api in combos:
        for (t, i) in ((0, 0), (2, 1), (3, 2)):
            j = t * n + i
            shape = [n] if op != "berninh" else [steps, n]
            numel_ = n if op != "berninh" else steps * n
            if "f32zero" in pos:
                seed, k = pos["f32zero"]
                intens = [0.5 + 0.01 * q for q in range(numel_)]
                if op == "berninh":
                    intens[j] = 0.0
                else:
                    intens[i] = 0.0
                out.append({"op": op, "api": api, "seed": seed, "advance": k - j, "dtype": "f32", "steps": steps, "dt": 1.0,
                            "freq": 400.0, "shape": shape, "intens": intens, "via": "ctor", "probe": f"zero-sample at step {t} element {i}"})
            for name, dts in (("f32small", "f32"), ("f64small", "f64")):
                seed, k, u0 = pos[name]
                intens = [0.0] * numel_
                if op == "berninh":
                    intens[j] = 1000.0 * u0
                else:
                    intens[i] = 1000.0 * u0
                out.append({"op": op, "api": api, "seed": seed, "advance": k - j, "dtype": dts, "steps": steps, "dt": 1.0,
                            "freq": 1.0, "shape": shape, "intens": intens, "via": "ctor", "probe": f"sample == probability {u0!r} at step {t} element {i}"})
    return out


# ---- non-representable step times: nominal gap demand round(refrac/dt)  (partial: float)

def gen_nonrep_gap_case(rng, op, api):
    dt = rng.choice([0.1, 0.2, 0.3])
    n = rng.choice([2, 3, 5, 10])
    refrac = n * dt if rng.random() < 0.5 else round(n * dt, 10)      # the product, or the decimal a user would type
    comp = rng.random() < 0.5
    if comp:
        freq = float(int(rng.choice([0.5, 0.8, 0.95]) * 1000.0 / refrac))
    else:
        freq = rng.choice([1000.0, 3000.0, 9000.0])
    shape = rng.choice([(1,), (3,), (2, 2)])
    intens = [1.0 if rng.random() < 0.7 else rng.random() for _ in range(numel(shape))]
    if rng.random() < 0.3:
        intens[rng.randrange(len(intens))] = 0.0
    case = {"op": op, "api": api, "seed": rng.randrange(2 ** 31), "steps": rng.choice([20, 40, 60]), "dt": dt, "shape": list(shape),
            "refrac": refrac, "comp": comp, "freq": freq, "intens": intens, "nominal_gap": n}
    if api == "mod":
        case["via"] = rng.choice(["ctor", "setters"])
        order = ["steps", "dt", "frequency", "refrac"]
        rng.shuffle(order)
        case["order"] = order
    return case


# ---- extreme-sample probes for the interval encoders: "for all generator seeds" includes the seeds whose
# first exponential sample for some element is tiny (first interval = sample * scale + refrac at its minimum)

_TINY = {}


def tiny_sample_seeds(shape, base, count, keep):
    """Deterministic search over the seeds base .. base+count-1 (sampler only, never the code under test):
    the `keep` seeds whose first exponential draw of `shape` (float64) contains the smallest samples."""
    k = (tuple(shape), base, count, keep)
    if k not in _TINY:
        res = []
        for seed in range(base, base + count):
            g = torch.Generator().manual_seed(seed)
            s = torch.empty(tuple(shape), dtype=F64).exponential_(1.0, generator=g)
            res.append((float(s.min()), seed))
        res.sort()
        _TINY[k] = res[:keep]
    return _TINY[k]


def gen_tiny_sample_case(rng, op, api, seed, shape, variant):
    """a small case whose element with the smallest FIRST sample (computed from the exact tensor the function
    draws: row 0 of `empty(nbins, *shape)` offline, `empty(shape)` online) is silent (variant `silent`: must
    stay silent however small the sample and however long the window) or at full intensity (variant `lit`:
    its first interval sits at the refractory minimum)."""
    steps = rng.choice([40, 100, 200, 400])
    dt = rng.choice([0.5, 1.0, 2.0])
    k = rng.choice([None, 1, 2, 3])
    refrac = None if k is None else k * dt
    comp = rng.random() < 0.6
    rms = dt if refrac is None else refrac
    ok = [f for f in FREQS if (not comp) or f * rms < 1000]
    case = {"op": op, "api": api, "seed": seed, "steps": steps, "dt": dt, "shape": list(shape),
            "refrac": refrac, "comp": comp, "freq": rng.choice(ok) if ok else 5.0}
    g = torch.Generator().manual_seed(seed)
    if op == "expoff":
        nbins = int(steps // max(rms / dt, 1))
        first = torch.empty(nbins, *shape, dtype=F64).exponential_(1.0, generator=g)[0]
    else:
        first = torch.empty(tuple(shape), dtype=F64).exponential_(1.0, generator=g)
    idx = int(first.reshape(-1).argmin())
    intens = [0.2 + 0.8 * rng.random() for _ in range(numel(shape))]
    if variant == "silent":
        for j in range(len(intens)):
            if j != idx and rng.random() < 0.3:
                intens[j] = 0.0
        intens[idx] = 0.0
    else:
        intens[idx] = 1.0
    case["intens"] = intens
    case["probe"] = f"tiny-first-sample {variant} at element {idx} (sample {float(first.reshape(-1)[idx])!r})"
    if api == "mod":
        case["via"] = rng.choice(["ctor", "setters"])
        order = ["steps", "dt", "frequency", "refrac"]
        rng.shuffle(order)
        case["order"] = order
    return case


def tiny_sample_cases(rng, nseeds, per):
    out = []
    base = rng.randrange(2 ** 30)
    for shape in ((3,), (2, 3), (2, 2)):
        seeds = tiny_sample_seeds(shape, base, nseeds, keep=max(per, 4))
        for op in ("expoff", "expon"):
            for api in ("fn", "mod"):
                for q in range(per):
                    _, seed = seeds[q % len(seeds)]
                    out.append(gen_tiny_sample_case(rng, op, api, seed, shape, "silent" if q % 3 != 2 else "lit"))
    return out


# ---- volume stream: mostly-silent, image-like inputs over long windows.  The property's silence clause is a
# statement about EVERY zero element at EVERY step; a few dozen elements x a few dozen steps sample it thinly, so
# this stream runs millions of zero-intensity element-steps per case.  Too large for sample replay through the
# driver: judged against the closed-form demands of the specification (time-first rows == steps, bool, silent at
# rate 0, inter-spike distance >= floor(refrac/dt), reproducible from the same generator state).

VOLUMES = [((32, 32, 32), 150), ((16, 1, 28, 28), 400), ((40, 28, 28), 150), ((4, 3, 32, 32), 400), ((8, 64, 64), 150)]


def gen_volume_case(rng, op, api):
    shape, steps = rng.choice(VOLUMES)
    dt = rng.choice([0.5, 1.0, 2.0])
    case = {"op": op, "api": api, "seed": rng.randrange(2 ** 31), "steps": steps, "dt": dt,
            "dtype": rng.choice(["f64", "f32"])}
    if op in ("expoff", "expon"):
        k = rng.choice([None, 1, 2, 3])
        refrac = None if k is None else k * dt
        comp = rng.random() < 0.6
        rms = dt if refrac is None else refrac
        ok = [f for f in FREQS if (not comp) or f * rms < 1000]
        case.update({"refrac": refrac, "comp": comp, "freq": rng.choice(ok) if ok else 5.0})
    else:
        case["freq"] = rng.choice(FREQS + [1500.0])
    if op == "berninh":
        # time-varying rates: the leading dimension IS time
        n = numel(shape)
        shape = (steps, max(n // 4, 1))
    n = numel(shape)
    lit = {}
    for _ in range(rng.choice([8, 24, 64])):
        lit[rng.randrange(n)] = rng.choice([1.0, 1.0, rng.random(), 0.5])
    case["shape"] = list(shape)
    case["volume"] = {"lit": sorted([i, v] for i, v in lit.items())}
    if api == "mod":
        case["via"] = rng.choice(["ctor", "setters"])
        order = ["steps", "dt", "frequency", "refrac"]
        rng.shuffle(order)
        case["order"] = order
    return case


def volume_observe(case):
    """runs the real code once on a volume case and evaluates the demands; returns (problems, out) where
    problems is a list of (sub-key, description)."""
    op = case["op"]
    steps, dt, refrac, comp = effective_cfg(case)
    x = make_inputs(case)
    shape = tuple(x.shape)
    exp_shape = ((steps,) + shape) if op != "berninh" else shape
    g = torch.Generator().manual_seed(case["seed"])
    st0 = g.get_state()
    probs = []
    try:
        out = call_real(case, g)
    except Exception as e:
        return [("raises", f"raised {type(e).__name__} ({str(e)[:100]}) where a spike train of {steps} steps is required")], None
    if isinstance(out, list):
        ok = len(out) == steps and all(isinstance(s, torch.Tensor) and s.dtype == torch.bool and tuple(s.shape) == shape for s in out)
        if not ok:
            return [("shape", f"online iteration yielded {len(out)} slices; exactly {steps} boolean slices of shape {shape} are required")], None
        out = torch.stack(out)
    if not isinstance(out, torch.Tensor) or out.dtype != torch.bool:
        probs.append(("dtype", f"output dtype {getattr(out, 'dtype', type(out))} is not bool"))
        return probs, None
    if tuple(out.shape) != exp_shape:
        probs.append(("shape", f"output shape {tuple(out.shape)} != time-first {exp_shape}"))
        return probs, out
    # silence at zero intensity (rate = frequency * intensity == 0 exactly where the intensity is 0)
    zero = (x == 0)
    if op == "berninh":
        bad = (out & zero).nonzero()
        nzero_cells = int(zero.sum())
        if bad.numel() > 0:
            ex_ = [tuple(int(v) for v in b) for b in bad[:5].tolist()]
            probs.append(("silent", f"{bad.shape[0]} spikes were emitted in cells whose rate is 0 ({nzero_cells} such cells); first at (step, element...) {ex_}"))
    else:
        flat = out.reshape(steps, -1)
        zf = zero.reshape(-1)
        bad = (flat & zf.unsqueeze(0)).nonzero()
        if bad.numel() > 0:
            ex_ = [(int(t), int(i)) for t, i in bad[:5].tolist()]
            probs.append(("silent", f"{bad.shape[0]} spikes were emitted by elements of intensity exactly 0 ({int(zf.sum())} silent elements over {steps} steps of {dt} ms); "
                          f"first (step, flat element) {ex_}"))
        # refractory gap on the lit elements
        if op in ("expoff", "expon"):
            g_req = int((dt if refrac is None else refrac) // dt)
            for i, _v in case["volume"]["lit"]:
                ts = spike_times(flat[:, int(i)].tolist())
                close = [(a, b) for a, b in zip(ts, ts[1:]) if b - a < g_req]
                if close:
                    probs.append(("gap", f"element {i} fired at steps {close[0][0]} and {close[0][1]}: distance {close[0][1] - close[0][0]} < required {g_req} (refrac/dt)"))
                    break
    # reproducibility from the same generator state
    try:
        gr = torch.Generator()
        gr.set_state(st0)
        again = call_real(case, gr)
        if isinstance(again, list):
            again = torch.stack(again)
        if not torch.equal(again, out):
            probs.append(("repro", "a second run from the same generator state gave a different spike train"))
    except Exception as e:
        probs.append(("repro", f"a second run from the same generator state raised {type(e).__name__}"))
    return probs, out


def volume_shrink(case, sub, budget=10):
    """smaller volume (leading dimension / steps halved) that still shows the same kind of problem"""
    cur = case
    for _ in range(budget):
        cands = []
        shape = list(cur["shape"])
        lead = 1 if cur["op"] == "berninh" else 0
        if shape[lead] > 1:
            sh = list(shape)
            sh[lead] = shape[lead] // 2
            ratio_n = numel(sh)
            if cur["op"] == "berninh":
                # element index = t * width + j : keep the cells whose column survives
                w_old, w_new = shape[1], sh[1]
                lit = [[(i // w_old) * w_new + (i % w_old), v] for i, v in cur["volume"]["lit"] if (i % w_old) < w_new]
            else:
                lit = [[i, v] for i, v in cur["volume"]["lit"] if i < ratio_n]
            cands.append({**cur, "shape": sh, "volume": {"lit": lit}})
        if cur["steps"] > 8:
            st = cur["steps"] // 2
            c2 = {**cur, "steps": st}
            if cur["op"] == "berninh":
                w = shape[1]
                c2["shape"] = [st, w]
                c2["volume"] = {"lit": [[i, v] for i, v in cur["volume"]["lit"] if i < st * w]}
            cands.append(c2)
        nxt = None
        for c in cands:
            probs, _ = volume_observe(c)
            if any(p[0] == sub for p in probs):
                nxt = c
                break
        if nxt is None:
            break
        cur = nxt
    return cur


def volume_findings(case, shrink=True):
    probs, out = volume_observe(case)
    fs = []
    for sub, what in probs[:2]:
        c = volume_shrink(case, sub) if shrink and sub in ("silent", "gap") else case
        if c is not case:
            p2, _ = volume_observe(c)
            what = next((w for s_, w in p2 if s_ == sub), what)
        steps, dt, refrac, comp = effective_cfg(c)
        desc = (f"{c['op']} ({c['api']}{':' + c.get('via', '') if c['api'] == 'mod' else ''}) generator seed={c['seed']}, input {c.get('dtype', 'f64')} zeros of shape {c['shape']} "
                f"with {len(c['volume']['lit'])} lit elements, steps={steps}, dt={dt}, frequency={c['freq']}"
                + (f", refrac={refrac}, compensate={comp}" if c['op'] in ('expoff', 'expon') else "") + f": {what}")
        fs.append(Finding(kind="spec", key=f"C19:spec:{c['op']}:{sub}", what=desc,
                          case={"case": c, "expected": "closed-form demands of the specification: time-first bool train of `steps` rows, no spike where the rate is 0, "
                                "inter-spike distance >= floor(refrac/dt), reproducible from the same generator state", "observed": what}))
    return fs, out


# ---- attempts to reach an incompatible configuration through the modules (must be rejected)

def incompatible_attempts(rng, count):
    out = []
    for _ in range(count):
        dt = rng.choice(DTS)
        k = rng.choice([None, 1, 2, 3])
        refrac = None if k is None else k * dt
        rms = dt if refrac is None else refrac
        bad = [f for f in (250.0, 400.0, 500.0, 1000.0, 2000.0, 4000.0) if f * rms >= 1000]
        if not bad:
            refrac, rms = 3.0 * dt, 3.0 * dt
            bad = [f for f in (400.0, 500.0, 1000.0, 2000.0, 4000.0, 8000.0) if f * rms >= 1000]
        out.append({"steps": rng.choice([20, 40]), "dt": dt, "refrac": refrac, "freq": rng.choice(bad),
                    "path": rng.choice(["ctor", "set-frequency", "set-refrac", "set-compensated", "set-dt"]),
                    "seed": rng.randrange(2 ** 31)})
    return out


def try_incompatible(a):
    """returns None when the module rejects the configuration (ValueError), else a description of
    what the accepted encoder then does."""
    steps, dt, refrac, freq, path = a["steps"], a["dt"], a["refrac"], a["freq"], a["path"]
    try:
        if path == "ctor":
            enc = HomogeneousPoissonEncoder(steps, dt, freq, refrac=refrac, compensate=True)
        elif path == "set-frequency":
            enc = HomogeneousPoissonEncoder(steps, dt, 1.0, refrac=refrac, compensate=True)
            enc.frequency = freq
        elif path == "set-refrac":
            enc = HomogeneousPoissonEncoder(steps, dt, freq, refrac=0.0, compensate=True)
            enc.refrac = refrac
        elif path == "set-compensated":
            enc = HomogeneousPoissonEncoder(steps, dt, freq, refrac=refrac, compensate=False)
            enc.compensated = True
        else:  # set-dt: the refractory period follows dt when it was given as None
            small = 1000.0 / freq / 4.0
            enc = HomogeneousPoissonEncoder(steps, small, freq, refrac=None, compensate=True)
            refrac = None
            enc.dt = max(dt, 1000.0 / freq)
    except ValueError:
        return None
    except Exception as e:
        return f"raised {type(e).__name__} instead of ValueError"
    prod = enc.frequency * enc.refrac
    if not (enc.compensated and prod >= 1000):
        return None
    g_req = max(int(enc.refrac // enc.dt), 1)
    worst = None
    for seed in range(a["seed"] % 1000, a["seed"] % 1000 + 6):
        enc.generator = torch.Generator().manual_seed(seed)
        for online in (False, True):
            try:
                r = enc(torch.tensor([1.0, 0.75, 0.0], dtype=F64), online=online)
                r = torch.stack(list(r)) if online else r
            except Exception as e:
                return (f"accepted frequency*refrac = {prod} >= 1000 with compensation; forward(online={online}, generator seed {seed}) "
                        f"then raised {type(e).__name__}: {str(e)[:80]}")
            for i in range(r.shape[1]):
                ts = spike_times(r[:, i].tolist())
                for x, y in zip(ts, ts[1:]):
                    if y - x < g_req and worst is None:
                        worst = (f"accepted frequency*refrac = {prod} >= 1000 with compensation; forward(online={online}, generator seed {seed}) "
                                 f"element {i} fired at steps {x} and {y} (distance {y - x} < refrac/dt = {g_req})")
    return worst or f"accepted frequency*refrac = {prod} >= 1000 with compensation (constructor/setters must reject it)"


# ---------------------------------------------------------------------------------------------
# encoder configuration sequences (constructor + setters) through seqcheck

class RealEnc:
    def __init__(self):
        self.enc = None
        self.kind = "hp"

    def state(self):
        e = self.enc
        if e is None:
            return "none"
        s = f"steps={e.steps} dt={frac_s(e.dt)} freq={frac_s(e.frequency)}"
        if self.kind == "hp":
            s += f" refrac={frac_s(e.refrac)} comp={'T' if e.compensated else 'F'}"
        return s

    def inv(self):
        e = self.enc
        if e is None:
            return "inv=T"
        ok = e.steps > 0 and e.dt > 0 and e.frequency >= 0
        if self.kind == "hp":
            ok = ok and e.refrac >= 0 and ((not e.compensated) or e.frequency * e.refrac < 1000)
        return "inv=T" if ok else "inv=F"

    def exec(self, line):
        tok = line.split()
        err = None
        try:
            if tok[0] == "encnew":
                self.kind = tok[1]
                self.enc = None
                steps, dt, freq = int(tok[2]), frac_v(tok[3]), frac_v(tok[4])
                if self.kind == "hp":
                    self.enc = HomogeneousPoissonEncoder(steps, dt, freq, refrac=None if tok[5] == "N" else frac_v(tok[5]),
                                                         compensate=tok[6] == "T")
                elif self.kind == "approx":
                    self.enc = HomogeneousPoissonApproxEncoder(steps, dt, freq)
                else:
                    self.enc = PoissonIntervalEncoder(steps, dt, freq)
            elif tok[0] == "encset":
                if self.enc is None:
                    return "err NoObject"
                field, v = tok[1], tok[2]
                if field == "steps":
                    self.enc.steps = int(v)
                elif field == "dt":
                    self.enc.dt = frac_v(v)
                elif field == "freq":
                    self.enc.frequency = frac_v(v)
                elif field == "refrac":
                    self.enc.refrac = None if v == "N" else frac_v(v)
                elif field == "comp":
                    self.enc.compensated = v == "T"
                else:
                    raise AssertionError(line)
            else:
                raise AssertionError(line)
        except AssertionError:
            raise
        except Exception as e:
            err = type(e).__name__
        if err is None:
            return (f"ok {self.state()}", f"ok {self.inv()}")
        return (f"err {err} {self.state()}", f"err {err} {self.inv()}")


V_STEPS = ["-1", "0", "1", "5", "20"]
V_DT = ["-1", "0", "1/4", "1/2", "1", "2", "4", "10"]
V_FREQ = ["-5", "0", "50", "100", "250", "400", "500", "999", "1000", "2000"]
V_REFRAC = ["N", "-1", "0", "1/2", "1", "2", "5/2", "3", "4", "10"]


def enc_cases(rng, nrand):
    cases = []
    # exhaustive constructor grid (single-line cases)
    for steps in ("0", "5"):
        for dt in ("0", "1/2", "1", "4"):
            for freq in ("-5", "0", "250", "400", "1000", "2000"):
                for refrac in ("N", "-1", "0", "1", "5/2", "4"):
                    for comp in ("T", "F"):
                        cases.append([f"encnew hp {steps} {dt} {freq} {refrac} {comp}"])
    for kind in ("approx", "interval"):
        for steps in ("0", "5"):
            for dt in ("0", "1/2"):
                for freq in ("-5", "0", "250"):
                    cases.append([f"encnew {kind} {steps} {dt} {freq} N F"])
    # exhaustive single setter from a few base states
    bases = ["encnew hp 5 1 250 N T", "encnew hp 5 1/2 400 2 T", "encnew hp 5 1 400 2 F", "encnew hp 5 1/4 999 N T"]
    for b in bases:
        for v in V_STEPS:
            cases.append([b, f"encset steps {v}"])
        for v in V_DT:
            cases.append([b, f"encset dt {v}"])
        for v in V_FREQ:
            cases.append([b, f"encset freq {v}"])
        for v in V_REFRAC:
            cases.append([b, f"encset refrac {v}"])
        for v in ("T", "F"):
            cases.append([b, f"encset comp {v}"])
    # a rejected setter followed by a dt change (a rejected negative refrac unpins refrac from dt)
    for b in bases + ["encnew hp 5 1 100 N F"]:
        for bad in ("refrac -1", "freq -5", "dt 0", "steps 0", "refrac 10", "freq 2000"):
            for v in ("1/4", "2", "4"):
                cases.append([b, f"encset {bad}", f"encset dt {v}", "encset refrac N", f"encset dt 1"])
    for kind in ("approx", "interval"):
        b = f"encnew {kind} 5 1 100 N F"
        for v in V_STEPS:
            cases.append([b, f"encset steps {v}"])
        for v in V_DT:
            cases.append([b, f"encset dt {v}"])
        for v in V_FREQ:
            cases.append([b, f"encset freq {v}"])
    # random sequences
    for _ in range(nrand):
        kind = rng.choice(["hp", "hp", "hp", "approx", "interval"])
        if kind == "hp":
            first = f"encnew hp {rng.choice(['1', '5', '20'])} {rng.choice(['1/4', '1/2', '1', '2'])} {rng.choice(['0', '50', '100', '250'])} {rng.choice(['N', '0', '1/2', '1', '2', '3'])} {rng.choice('TF')}"
        else:
            first = f"encnew {kind} {rng.choice(['1', '5', '20'])} {rng.choice(['1/4', '1/2', '1', '2'])} {rng.choice(['0', '50', '100', '250'])} N F"
        c = [first]
        for _ in range(rng.randint(2, 12)):
            f = rng.choice(["steps", "dt", "freq", "refrac", "comp"] if kind == "hp" else ["steps", "dt", "freq"])
            v = rng.choice({"steps": V_STEPS, "dt": V_DT, "freq": V_FREQ, "refrac": V_REFRAC, "comp": ["T", "F"]}[f])
            c.append(f"encset {f} {v}")
        cases.append(c)
    return cases


def enc_key(case, d):
    tok = case[d[0]].split()
    what = tok[1] if tok[0] == "encset" else "ctor"
    kind = next((l.split()[1] for l in case if l.startswith("encnew")), "?")
    return f"C19:{d[1]}:config:{kind}:{what}"


# ---------------------------------------------------------------------------------------------

def run_encoder_cases(ctx, cases, ex: Exploration, max_findings=10):
    obs = [replay_and_run(c) for c in cases]
    resp = ctx.run_driver(DRIVER, [o["line"] for o in obs])
    found = []
    for c, o, r in zip(cases, obs, resp):
        ex.evaluations += 1
        ex.traces_validated += 1
        ex.count("op", c["op"])
        ex.count("api", c["api"] + (":" + c.get("via", "") if c["api"] == "mod" else ""))
        ex.count("steps", str(c["steps"]))
        ex.count("dt", str(c["dt"]))
        if c["op"] in ("expoff", "expon"):
            rk = "None" if c["refrac"] is None else f"{c['refrac'] / c['dt']:g}dt"
            ex.count("refrac", rk)
            ex.count("compensate", str(c["comp"]))
        ex.count("elements", str(numel(c["shape"])))
        ex.count("dtype", c.get("dtype", "f64"))
        if c.get("probe"):
            ex.count("probes", c["probe"].split(" at ")[0].split(" 0.")[0])
        if o["err"]:
            ex.count("real_errors", o["err"])
        out = o["out"]
        if out is not None and bool(out.any()):
            ex.nontriv((c["op"], c["api"], c["seed"], c["steps"], c["dt"], c.get("refrac"), c.get("comp"), c["freq"], tuple(c["intens"])))
        found += judge(c, o, r, ex)
    # smallest failing inputs first
    found.sort(key=lambda f: (0 if f.kind == "spec" else 1, numel(f.case["case"]["shape"]) * f.case["case"]["steps"]))
    seen = {}
    for f in found:
        seen.setdefault(f.key, []).append(f)
    for key, fs in seen.items():
        ex.findings += fs[:2]
    ex.findings = ex.findings[: max(max_findings, len(ex.findings) if len(ex.findings) < 30 else 30)]
    return obs


def explore(ctx) -> Exploration:
    ex = Exploration()
    import transval
    transval.validate(ctx, SPEC["translate"], ex, per_fn=40)   # generated encoder expressions vs the compiled source expressions
    rng = ctx.rng
    thorough = ctx.tier == "thorough" or ctx.intensify
    per = 200 if not thorough else 4000
    cases = boundary_cases()
    nb = len(cases)
    for op in OPS:
        for api in ("fn", "mod"):
            if op == "berninh" and api == "mod":
                continue
            k = per if op in ("expoff", "expon") else per // 2
            cases += [gen_case(rng, op, api) for _ in range(k)]
    nonrep = [gen_case(rng, op, "fn", nonrep=True) for op in ("expoff", "expon", "bernoff") for _ in range(per // 4)]
    cases += nonrep
    excluded = [gen_case(rng, op, "fn", region="excluded") for op in ("expoff", "expon") for _ in range(per // 4)]
    cases += excluded
    # float32 Bernoulli stream (torch.bernoulli draws uniforms of the probability tensor's dtype)
    f32 = []
    for op in ("bernoff", "bernon", "berninh"):
        for api in ("fn", "mod"):
            if op == "berninh" and api == "mod":
                continue
            for _ in range(per // 4):
                c = gen_case(rng, op, api)
                c["dtype"] = "f32"
                f32.append(c)
    cases += f32
    probes = probe_cases()
    cases += probes
    ex.extra["bernoulli_probe_positions"] = {k: v for k, v in find_positions().items()}
    if not find_positions().get("sequential") or "f32zero" not in find_positions():
        ex.findings.append(Finding(kind="model", key="C19:model:bernoulli:probe-setup", what="uniform draws are not consumed sequentially / no zero sample found: strictness probes unavailable",
                                   case={"positions": dict(find_positions())}))
    nominal = [gen_nonrep_gap_case(rng, op, api) for op in ("expoff", "expon") for api in ("fn", "mod") for _ in range(per // 4)]
    cases += nominal
    # extreme-sample probes: seeds (found by a search over the sampler alone) whose first exponential sample is tiny,
    # landing on a silent element / on a full-intensity element, over long windows
    tiny = tiny_sample_cases(rng, 20000 if not thorough else 100000, 4 if not thorough else 8)
    cases += tiny
    obs = run_encoder_cases(ctx, cases, ex)

    # volume stream: millions of zero-intensity element-steps per case (mostly black image batches, long windows)
    vols = []
    for op in OPS:
        for api in ("fn", "mod"):
            if op == "berninh" and api == "mod":
                continue
            k = (4 if op in ("expoff", "expon") else 1) * (1 if not thorough else 2)
            vols += [gen_volume_case(rng, op, api) for _ in range(k)]
    vol_element_steps = 0
    for c in vols:
        ex.evaluations += 1
        ex.count("volume_stream", f"{c['op']}:{c['api']}:{c['dtype']}")
        n_ = numel(c["shape"]) * (1 if c["op"] == "berninh" else c["steps"])
        vol_element_steps += n_ - len(c["volume"]["lit"]) * (1 if c["op"] == "berninh" else c["steps"])
        already = {f.key for f in ex.findings}
        fs, out = volume_findings(c, shrink=not any(k.startswith(f"C19:spec:{c['op']}:") for k in already))
        if out is not None and bool(out.any()):
            ex.nontriv(("volume", c["op"], c["api"], c["seed"], c["steps"], c["dt"], c.get("refrac"), c.get("comp"), c["freq"], tuple(c["shape"]), c["dtype"]))
        ex.findings += [f for f in fs if f.key not in already]
    ex.extra["volume_zero_element_steps"] = vol_element_steps

    # modules must reject frequency * refrac >= 1000 under compensation on every path
    attempts = incompatible_attempts(rng, 60 if not thorough else 1000)
    for a in attempts:
        ex.evaluations += 1
        ex.count("incompatible_attempt_path", a["path"])
        r = try_incompatible(a)
        ex.count("incompatible_attempt_result", "rejected" if r is None else "ACCEPTED")
        if r is not None and sum(1 for f in ex.findings if f.key.startswith("C19:spec:config:accepts")) < 3:
            ex.findings.append(Finding(kind="spec", key=f"C19:spec:config:accepts-incompatible:{a['path']}",
                                       what=f"HomogeneousPoissonEncoder via {a['path']} (steps={a['steps']}, dt={a['dt']}, refrac={a['refrac']}, frequency={a['freq']}): {r}",
                                       case={"attempt": a, "observed": r, "expected": "ValueError"}))

    # constructor / setter sequences against the configuration machine
    ecases = enc_cases(rng, 250 if not thorough else 6000)
    for c in ecases:
        for l in c:
            t = l.split()
            ex.count("config_ops", t[0] if t[0] == "encnew" else "set-" + t[1])
    seqcheck.run_cases(ctx, DRIVER, ecases, RealEnc, ex, enc_key, "C19",
                       nontrivial=lambda case, real: any(r[0].startswith("ok") for r in real), shrink=True)

    ex.rule = ("encoder cases = hand-enumerated boundary cases (one per model branch: refrac None/dt/2dt/3dt x compensate x steps 1/2/7, nbins = 0, "
               "all-zero / all-one / 0-d inputs, probability clamp) + seeded random cases per function x API (functional, module via constructor, module via setters): "
               "seed x intensities in [0,1] with exact 0 and 1 x steps in {1..40} x dt in {1/4,1/2,1,2} x frequency x refrac in {None, dt, 2dt, 3dt, 1.5dt, .5dt, 0, 5dt} x compensate x online/offline, "
               "a non-representable stream (dt 0.1, 0.3, 1/3) and an excluded-region stream (compensation with frequency*refrac >= 1000, functional API, model comparison only); "
               "each case: real call + sample replay from the cloned generator state, exact comparison with the Lean Float model, evaluation of the specification's demands "
               "(rows == steps time-first, bool, silent at rate 0, inter-spike distance >= floor(refrac/dt) also via inferno.isi, reproducible from the same state) on the real output; "
               "non-trivial = the real train contains at least one spike; plus attempts to reach an incompatible configuration through constructor and each setter (must raise ValueError), "
               "and constructor/setter sequences (exhaustive constructor grid, every single setter from four base states, random sequences) compared with the configuration machine after every call")
    ex.rule += ("; tiny-first-sample probes (seeds ranked by the smallest first exponential sample, found by searching the sampler only; that element is silent or at full intensity; "
                "windows of 40..400 steps); volume stream (all seven functions, functional and module API, float32/float64 inputs: image-like tensors of 12k..32k elements, all exact zeros "
                "except 8..64 lit elements, 100..400 steps: judged by the closed-form demands - shape, bool, silence at zero, refractory distance, reproducibility)")
    ex.samples = [obs[0]["line"][:300], obs[nb]["line"][:300] if len(obs) > nb else "", ecases[-1]]
    ex.extra["streams"] = {"boundary": nb, "random_valid": len(cases) - nb - len(nonrep) - len(excluded), "non_representable": len(nonrep),
                           "excluded_region": len(excluded), "bernoulli_float32": len(f32), "bernoulli_strictness_probes": len(probes),
                           "non_representable_nominal_gap": len(nominal), "tiny_first_sample_probes": len(tiny), "volume": len(vols),
                           "incompatible_attempts": len(attempts), "config_sequences": len(ecases)}
    ex.extra["observation"] = ("poisson_interval (offline) always fires every non-silent element at the last step (clamp_max(steps) into steps+2 rows, "
                               "then res[1:-1]); modelled faithfully, proved as poisson_last_step_fires; not a clause of C19")
    return ex


def replay(ctx, data) -> int:
    fi = data.get("failing_input") or data
    if "ops" in fi:
        case = fi["ops"]
        real = seqcheck.exec_real(RealEnc, case)
        resp = ctx.run_driver(DRIVER, case)
        for l, r, d in zip(case, real, resp):
            print(f"{l}\n    real: M {r[0]} || S {r[1]}\n    lean: {d}")
        d = seqcheck.compare_case(case, real, resp)
        print("DISAGREEMENT" if d else "agrees", d or "")
        return 1 if d else 0
    if "attempt" in fi:
        r = try_incompatible(fi["attempt"])
        print("attempt", fi["attempt"], "->", "rejected (ValueError)" if r is None else r)
        return 1 if r is not None else 0
    if "case" in fi and "volume" in fi["case"]:
        case = fi["case"]
        probs, out = volume_observe(case)
        print("case:", case)
        print("real:", "no output" if out is None else f"{int(out.sum())} spikes in a train of shape {tuple(out.shape)}")
        for sub, what in probs:
            print("FINDING spec", f"C19:spec:{case['op']}:{sub}", what)
        print("DISAGREEMENT" if probs else "agrees")
        return 1 if probs else 0
    if "case" in fi:
        case = {k: v for k, v in fi["case"].items() if k != "line"}
        o = replay_and_run(case)
        resp = ctx.run_driver(DRIVER, [o["line"]])[0]
        ex = Exploration()
        fs = judge(case, o, resp, ex)
        print("case:", case)
        print("real:", "err " + o["err"] if o["err"] else (rows_s(o["out"], case["steps"]) if o["out"] is not None else "no-output"))
        print("lean:", resp[:400])
        for f in fs:
            print("FINDING", f.kind, f.key, f.what)
        print("DISAGREEMENT" if fs else "agrees")
        return 1 if fs else 0
    print("replay file has no failing input (proof/tie breakage only):", data.get("broken"))
    return 1
